"""C02 — sequence-file input is total: any bytes give a normal outcome.
Model: lean/EaselModel/Sqio/*, theorems: Props/C02.lean, harness: h_sqio.c (shared with C04, C07).
The harness-side monitor (status in the documented set, message on eslEFORMAT, well-formed ESL_SQ, no exception, no sanitizer
report, no leak) runs for every format selection; the exact model comparison runs for every format selection too: the unaligned formats through
Sqio/Model.lean, the ten alignment formats (declared or autodetected) through Sqio/MsaSeq.lean on the C01 reader models."""
import os, re
from vlib.engine import Prop, Failure
from props import sqio_common as S
from props import c02_msa as M
from props import msagen as G

hx = S.hx
FORMATS = ["fasta", "fasta", "fasta", "embl", "uniprot", "genbank", "ddbj", "daemon", "hmmpgmd", "unknown", "unknown",
           "stockholm", "pfam", "afa", "a2m", "clustal", "selex", "phylip", "psiblast"]
ABCS = ["text", "text", "amino", "dna", "rna"]


class C02(Prop):
    id = "C02"
    lean_modules = ["EaselModel.Props.C02"]
    lean_exe = "c02_driver"
    harness = "h_sqio.c"
    MSA_THEOREMS = ["msa_open_total", "msa_fetch_total", "msa_read_total", "msa_readSequence_total", "msa_readInfo_total", "msa_mode_ok",
                    "msa_fwd_window_coords", "msa_rev_window_coords", "msa_rev_window_old_illformed", "msa_readWindow_total", "msa_readBlock_total", "msa_guessAlphabet_total", "msa_read_total_stockholm", "msa_file_read_total", "readSequence_linebased_total", "readInfo_linebased_total", "linebased_history_total"]
    theorems = ["EaselModel.Props.C02." + t for t in S.C02_THEOREMS + MSA_THEOREMS]
    claimed = True
    diverge_is_violation = True
    level_text = ("Theorems for every byte string and every read-block size B >= 1 (FASTA family, text and digital): opening the file and reading records with sqascii_Read until the first non-OK status ends within size+2 calls with eslEOF or eslEFORMAT - never a fault (no buf[i] outside the buffer, no store outside an allocation of the ESL_SQ, through loadbuf / nextchar / header_fasta / seebuf / addbuf / end_fasta composed) - and every record returned is well formed (read_all_total, read_total; the reader IS the declarative parser specFasta: C04.read_all_eq_specFasta); the same for ReadInfo, ReadSequence (readInfo_total, readSequence_total) and whole-sequence ReadBlock (readBlock_total); eslEFORMAT always comes with a message; "
                  "the primitives: loadbuf keeps its window inside the file (loadbuf_total), nextchar neither skips nor repeats a byte across block boundaries (nextchar_total), seebuf never leaves the buffer and rejects bytes >= 0x80 before they index the input map (seebuf_total), the file and alphabet input maps agree on every symbol (inmaps_agree, re-proved against the regenerated tables each run); read_nres and forward ReadWindow are total for EVERY byte string as well - illegal bytes included: eslOK / eslEOD / eslEOF / eslEFORMAT with a message, no exception, never a fault (read_nres_total_any, readWindow_total). EMBL / UniProt / GenBank / DDBJ: sqascii_Read, sqascii_ReadSequence and sqascii_ReadInfo (readSequence_linebased_total, readInfo_linebased_total; linebased_history_total: every history of Read / ReadSequence calls from open on) are total for every byte string and every B as well - eslOK / eslEOF / eslEFORMAT with a message, no exception, never a fault, the scanning loops never run away, and reading a whole file from open on ends with eslEOF or eslEFORMAT within size+2 calls (read_linebased_total, read_all_linebased_total). "
                  "Alignment files read as sequences (Stockholm, Pfam, A2M, PSI-BLAST, SELEX, aligned FASTA, Clustal, Clustal-like, PHYLIP interleaved / sequential; declared, or autodetection falling through to the msafile module): the esl_sqio_IsAlignment branches of sqascii_Read / ReadInfo / ReadSequence / ReadWindow / ReadBlock, esl_sq_FetchFromMSA and the dealigning are modelled on top of the C01 reader models, and for EVERY byte string and every history of calls: open is eslOK or eslEFORMAT (msa_open_total) and from open through any number of Read calls the outcome is ok / eof / eformat with a message, no fault, no exception, with no hypothesis at all (msa_file_read_total); Read / ReadSequence / ReadInfo answer eslOK with a well-formed record (strings and residues inside their allocations, residue array of exactly the reported length, start/end/C/W/L consistent, text residues never NUL or a gap character, digital codes < Kp and never a sentinel), eslEOF, or eslEFORMAT with a message - never a fault, no exception (msa_read_total, msa_readSequence_total, msa_readInfo_total, msa_fetch_total); ReadWindow on both strands from every consistent window state answers ok / eod / eof / eformat / einval(text reverse strand, non-nucleic symbol) with n = C'+W', 0 <= C' <= C, 1 <= W' <= |W|, the slice inside the row, and leaves a state the next call accepts (msa_readWindow_total); whole-sequence ReadBlock and GuessAlphabet on an alignment file are total too (msa_readBlock_total, msa_guessAlphabet_total); forward windows tile 1..L and - after the repair 46b16f4 of the known finding, now retired - reverse windows tile L..1 exactly once (msa_fwd_window_coords, msa_rev_window_coords; msa_rev_window_old_illformed shows the old arithmetic ill formed at the witness). The lemmas under them take the hypothesis that the reader delivers alignments in the handle's mode (digital iff an alphabet was set): proved for all ten formats, every alphabet and every PHYLIP name width (msa_mode_ok: every reader returns eslOK only through its finishing function; Stockholm / Pfam: none of the reader's 33 helper functions ever fails with eslOK), and discharged in the theorems above: they carry no hypothesis on the reader or the bytes. "
                  "Tie: exact differential run of the executable model (FASTA, EMBL/UniProt, GenBank/DDBJ, daemon, hmmpgmd, the ten alignment formats, suffix / first-line / msafile autodetection; Read/ReadInfo/ReadSequence/ReadWindow incl. reverse strand/ReadBlock/GuessAlphabet) (outcome, message flag, line number, every ESL_SQ field) against the ASan/UBSan/LSan build on mutated formats/* files, generated FASTA with injected NUL/CR/>=0x80/illegal bytes and raw bytes, x B swept over 1..4097 incl. the sizes that cut the header line, a CR LF pair or the file end; "
                  "generated and mutated alignment files of all ten formats (props/msagen.py) and esl_msa_testfiles/*, FASTA files whose name / description / residue counts and header-line lengths sit on the ESL_SQ reallocation sizes and on 127/128/129 and 4095/4096/4097 bytes with B at / next to them; for ALL format selections (incl. EMBL/UniProt/GenBank/DDBJ/daemon/hmmpgmd/autodetect/alignment-as-sequences) x text/amino/DNA/RNA x Read/ReadInfo/ReadSequence/ReadWindow/ReadBlock the harness-side monitor checks status in the documented set, message on eslEFORMAT, well-formed ESL_SQ, no exception, no sanitizer report, no leak.")
    level_note = ("Totality as a theorem covers FASTA Read / ReadInfo / ReadSequence / whole-sequence ReadBlock / forward ReadWindow / read_nres, Read of the line-based formats, and every reading call of the alignment-as-sequences path (Read / ReadInfo / ReadSequence / ReadWindow both strands; the ten alignment readers themselves are C01's theorems, composed here; the line reader under them is C05's). Still covered by the exact differential run and the sanitizer build only (model, no theorem): reverse-strand windows of the unaligned formats on malformed data, ReadWindow of EMBL / GenBank (Read, ReadSequence, ReadInfo there are theorems), daemon / hmmpgmd, long-target ReadBlock, the unaligned format guesser and GuessAlphabet of the unaligned formats (on an alignment file ReadBlock and GuessAlphabet are theorems: msa_readBlock_total, msa_guessAlphabet_total); the mode hypothesis of the alignment lemmas (reader result digital iff alphabet set) is itself a theorem for every opened file (msa_mode_ok). The line number reported with eslEFORMAT from inside an alignment file is the msafile module's and is not compared (the C01 models do not carry it). Leaks are LSan only. No known finding is open: C02:readwindow-msa:reverse-strand-coordinates was repaired by 46b16f4 and retired.")
    assumptions = ["fread returns min(B, remaining) bytes; allocation never fails (eslEMEM paths not modelled)",
                   "alignment files read as sequences sit on the C01 reader models over the abstract line reader (split at LF, one CR stripped): the refinement of esl_buffer_GetLine to it for every page size is C05; the caller's ESL_SQ is in the mode of the file (text / digital), as esl_sqfile_Open* + esl_sq_Create* of the same alphabet give",
                   "the model mirrors esl_sqio_ascii.c by hand; fidelity is checked by the differential run only"]
    technique = ("Lean 4 proofs that the executable model of the reader core never leaves its buffers (`fault` unreachable) and only returns well-formed records, "
                 "+ exact differential correspondence with the ASan/UBSan/LSan build on mutated and raw inputs, + harness-side well-formedness monitor for every format selection")
    trusted_base = ["hand model of esl_sqio_ascii.c's unaligned readers (FASTA, EMBL/UniProt, GenBank/DDBJ, daemon, hmmpgmd, autodetection) and of the alignment branches of the reading calls + esl_sq_FetchFromMSA (Sqio/MsaSeq.lean) tied by exact differential run (h_sqio.c); the alignment readers and msafile_OpenBuffer are the C01 models (imported)",
                    "Lean compiler/runtime for the executable driver; gcc; ASan/UBSan/LSan"]
    rule = ("cases = byte strings (mutations of formats/*, generated FASTA with injected NUL / CR / >=0x80 / illegal symbols, raw bytes) x format selection x text/amino/DNA/RNA x "
            "read call (Read, ReadInfo, ReadSequence, ReadWindow, ReadBlock) x B in {1,2,3,7,64,4096}; + 260 alignment-file cases (ten formats x valid / mutated / test file / raw bytes x own format / autodetect / foreign alignment format x text/amino/DNA/RNA x Read / ReadInfo / ReadSequence / mixed / ReadBlock / forward windows / forward-then-reverse windows to eslEOD on files whose rows are known), 120 allocation-boundary FASTA cases; every 10th case = systematic sweep of the 7 explicit unaligned formats x {text,amino,DNA,RNA} x the 5 read calls over well-formed files whose sequence lines carry letters outside the nucleotide alphabets, synonyms, digits, punctuation and blanks (monitor: residues delivered == the file's legal residues, an illegal symbol => eslEFORMAT with a message); non-trivial = at least one record or a format error was returned")

    def generated(self, ctx):
        return S.generated(ctx)

    def canonical(self, line):
        return S.canonical(line)

    MSA_LINE = re.compile(r"^eformat line=-?\d+ ")

    def compare(self, ctx, case, impl_out, model_out):
        # a parse error inside an alignment file: the line number is the msafile module's (afp->linenumber), which the C01 reader
        # models do not carry; the model prints `line=*` there and the implementation's number is not compared
        impl = [self.MSA_LINE.sub("eformat line=* ", a) if i < len(model_out) and model_out[i].startswith("eformat line=* ") else a
                for i, a in enumerate(impl_out)]
        return S.compare(self, case, impl, model_out)

    def seeds(self, ctx):
        d = os.path.join(ctx.src, "formats")
        out = {}
        for fn in sorted(os.listdir(d)):
            if fn in ("BLOSUM62", "wag.dat"):
                continue
            with open(os.path.join(d, fn), "rb") as f:
                out[fn] = f.read()
        return out

    def corpus(self, ctx):
        cs = []
        seeds = self.seeds(ctx)
        for fn, data in seeds.items():
            fmt = "fasta" if fn.startswith("fasta") else "genbank" if fn.startswith("genbank") else "stockholm" if fn.startswith("stockholm") else fn
            for abc, B in (("text", 4096), ("amino" if fn in ("uniprot", "fasta", "fasta.2") else "dna", 7)):
                cs.append({"name": "formats/%s-%s" % (fn, abc), "sticky": 2, "ops": ["file ext=dat hex=" + hx(data), "open fmt=%s abc=%s B=%d" % (fmt, abc, B)] + ["read"] * 6 + ["close",
                           "open fmt=unknown abc=%s B=%d" % (abc, B), "readinfo", "readseq", "readwin C=3 W=50", "readwin C=3 W=50", "close"]})
        raw = [b"", b"\n", b">", b">\n", b"> \n", b">a", b">a\n", b">a\nAC-GT\n", b">a\nAC\x00GT\n", b">a\x00b d\x00e\nAC\n", b">a\nAC\xe9\n", b"AC\n>a\nAC\n", b"\r\r>a\rAC\r>b\rGT",
               b">a\n>b\n>c", b">a d\x01e\nAC", b" \t\n\x0b\x0c\r", b">a\nAC>b\nGT\n", b">a\n1 ACGT\n", b">a\nAC*GT*\n", b"\n\n\nLOCUS   ", b"ID   ", b"LOCUS   x\nORIGIN\n//\n",
               b">" + b"n" * 5000 + b" " + b"d" * 5000 + b"\nAC\n"]
        # regression (46b16f4): reverse-strand windows over an alignment file (was known finding C02:readwindow-msa:reverse-strand-coordinates)
        cs.append({"name": "msa-reverse-window", "sticky": 1,
                   "ops": ["file ext=sto hex=" + hx(b"# STOCKHOLM 1.0\n#=GF ID ali0\ns1 ACGU-ACGUAC\ns2 AAAAAAAAAAA\n//\n"), "open fmt=stockholm abc=rna B=4096",
                           "readwin C=0 W=100", "readwin C=0 W=100", "readwin C=0 W=-3", "readwin C=0 W=-3", "readwin C=2 W=-3", "readwin C=2 W=-3", "readwin C=2 W=-3", "reuse",
                           "readwin C=1 W=4", "readwin C=1 W=4", "readwin C=1 W=4", "readwin C=1 W=4", "readwin C=3 W=-5", "readwin C=3 W=-5", "readwin C=3 W=-5", "readwin C=3 W=-5", "reuse", "readwin C=0 W=1"]})
        # regressions: end_daemon / skip_fasta at a block end (b20bbb4 + skip_fasta guard), skip_whitespace on a byte >= 0x80
        cs.append({"name": "daemon-block-end", "sticky": 1, "ops": ["file ext=dat hex=" + hx(b">a\nACGAC\n//\n"), "open fmt=daemon abc=text B=10", "read", "read", "close",
                   "file ext=dat hex=" + hx(b">a\nAC\n//\n>b\nGG\n//\n"), "open fmt=daemon abc=text B=3", "readseq", "readseq", "readseq", "close",
                   "file ext=dat hex=" + hx(b">a\nAA\nCC\nC\xff\nCC\n"), "open fmt=fasta abc=dna B=64", "readblock list=8 maxres=5 maxseq=-1 init=1 long=1 ctx=0",
                   "readblock list=8 maxres=5 maxseq=-1 init=1 long=1 ctx=0"]})
        for k, data in enumerate(raw):
            ops = ["file ext=dat hex=" + hx(data)]
            for fmt in ("fasta", "unknown", "embl", "genbank", "daemon", "hmmpgmd"):
                for abc, B in (("text", 1), ("dna", 4096)):
                    ops += ["open fmt=%s abc=%s B=%d" % (fmt, abc, B), "read", "read", "close", "open fmt=%s abc=%s B=%d" % (fmt, abc, 3 if B == 1 else 64), "readinfo", "readseq", "readwin C=1 W=2", "close"]
            cs.append({"name": "raw%d" % k, "ops": ops, "sticky": 1})
        return cs

    def alloc_case(self, rng, k):
        """FASTA records whose name / description / residue counts sit on the reallocation sizes of an ESL_SQ (32, 64, 128, 256, 512,
        1024 and their neighbours: esl_sq.c eslSQ_NAMECHUNK / DESCCHUNK / SEQCHUNK and the doubling in header_fasta / esl_sq_GrowTo), and
        whose header line is exactly 127 / 128 / 129 or 4095 / 4096 / 4097 bytes long, read with a block size B at / next to that length, in
        one file so that the allocations made for one record are the ones the next record meets after esl_sq_Reuse"""
        NAME = [1, 31, 32, 33, 63, 64, 65, 127, 128, 129, 255, 256, 257]
        DESC = [0, 1, 126, 127, 128, 129, 130, 255, 256, 257, 511, 512, 513]
        SEQ = [0, 1, 254, 255, 256, 257, 258, 510, 511, 512, 513, 514, 1022, 1023, 1024, 1025, 1026]
        HDR = [127, 128, 129, 4095, 4096, 4097]
        kind = rng.choice(["dna", "amino"])
        res = "ACGT" if kind == "dna" else "ACDEFGHIKLMNPQRSTVWY"
        nl = rng.choice(["\n", "\n", "\r\n"])
        out, hdrlens, seqlens = [], [], []
        for j in range(rng.choice([2, 3, 5])):
            if rng.random() < 0.5:
                total = rng.choice(HDR)                       # length of the header line including '>' and the line end
                nlen = rng.choice([1, 5, 31, 32, 33])
                dlen = total - 1 - nlen - 1 - len(nl)
                if dlen < 0:
                    nlen, dlen = total - 1 - len(nl), -1
            else:
                nlen, dlen = rng.choice(NAME), rng.choice(DESC) - (0 if rng.random() < 0.5 else 0)
            name = "".join(rng.choice("abcdefghijklmnopqrstuvwxyz0123456789_") for _ in range(max(1, nlen)))
            hdr = ">" + name + ((" " + "".join(rng.choice("abcdefgh ijk") for _ in range(dlen))) if dlen >= 0 and (dlen > 0 or rng.random() < 0.5) else "") + nl
            L = rng.choice(SEQ)
            w = rng.choice([60, 80, 255, 256, 257, max(1, L)])
            seq = "".join(rng.choice(res) for _ in range(L))
            body = "".join(seq[i:i + w] + nl for i in range(0, L, w))
            out.append(hdr + body)
            hdrlens.append(len(hdr)); seqlens.append(L)
        data = "".join(out).encode()
        ops = ["file ext=dat hex=" + hx(data)]
        for s_ in range(rng.choice([1, 2, 3])):
            hl = rng.choice(hdrlens)
            B = rng.choice([hl - 1, hl, hl + 1, 127, 128, 129, 4095, 4096, 4097, 255, 256, 257, 31, 32, 33])
            abc = rng.choice(["text", kind])
            ops.append("open fmt=%s abc=%s B=%d" % (rng.choice(["fasta", "fasta", "unknown"]), abc, max(1, B)))
            call = rng.choice(["read", "readinfo", "readseq", "mixed", "readwin", "readblock"])
            n = len(out) + 1
            if call == "readwin":
                for L in seqlens:
                    W = rng.choice([1000000, 256, 255, 257, 128, max(1, L), L + 1])
                    ops += ["readwin C=%d W=%d" % (rng.choice([0, 0, 31, 32, 33, 255, 256]), W)] * ((L + W - 1) // W + 1) + ["reuse"]
                ops.append("readwin C=0 W=10")
            elif call == "readblock":
                ops += ["readblock list=%d maxres=-1 maxseq=%d init=0 long=0 ctx=0" % (rng.choice([1, 2, 8]), rng.choice([-1, 1, 2]))] * n
            elif call == "mixed":
                ops += [rng.choice(["read", "readinfo", "readseq"]) for _ in range(n)]
            else:
                ops += [call] * n
            ops.append("close")
        return {"name": "alloc%d" % k, "ops": ops, "sticky": 1}

    def mutate(self, rng, data):
        b = bytearray(data)
        if not b:
            return bytes(b)
        for _ in range(rng.choice([1, 1, 2, 3, 6])):
            r = rng.random()
            p = rng.randrange(len(b)) if b else 0
            if not b:
                break
            if r < 0.3:
                b[p] = rng.choice([0, 10, 13, 32, 62, 47, 9, 45, 42, 46, 126, 127, 128, 200, 255, 1, 49, rng.randrange(256)])
            elif r < 0.5:
                del b[p:p + rng.choice([1, 1, 2, 10, 80])]
            elif r < 0.7:
                b[p:p] = bytes(rng.choice([[10], [13, 10], [62], [32], [0], [47, 47, 10], [10, 62], [200], [10, 10, 10]]))
            elif r < 0.8:
                b = b[:p]                                  # truncate
            elif r < 0.9:
                q = rng.randrange(len(b))
                lo, hi = min(p, q), max(p, q)
                b[lo:lo] = b[lo:min(hi, lo + 200)]          # duplicate a stretch
            else:
                b = bytearray(bytes(b).replace(b"\n", b"\r\n")) if rng.random() < 0.5 else bytearray(bytes(b).replace(b"\n", b"\r"))
        return bytes(b[:65536])

    def cases(self, ctx):
        rng = ctx.rng
        n = 1100 if ctx.tier == "quick" else 20000
        seeds = self.seeds(ctx)
        names = sorted(seeds)
        out = []
        # alignment files of all ten formats read as sequences (exact comparison with Sqio/MsaSeq.lean on the C01 reader models)
        tf = G.load_testfiles(ctx.src)
        pool = [(d, b) for d, lst in sorted(tf.items()) if d != "misc" for _, b in lst if len(b) <= 20000]
        for c in range(260 if ctx.tier == "quick" else 2500):
            out.append(M.msa_case(rng, c, pool))
        for c in range(120 if ctx.tier == "quick" else 1200):
            out.append(self.alloc_case(rng, c))
        for c in range(n):
            r = rng.random()
            if c % 10 == 5:
                # systematic sweep: every explicit format x every alphabet x every read call, on files whose sequence lines hold
                # letters / digits / punctuation that some selections must reject (monitor: residues == the file's legal residues)
                out.append(S.matrix_case(rng, c // 10))
                continue
            if rng.random() < 0.10:
                out.append(S.msaseq_case(rng, c))     # a well-formed alignment file read sequentially as sequences (monitor only)
                continue
            if r < 0.14:
                # allocation-boundary sweep of every growable ESL_SQ field, in file order, well-formed input, all read calls
                natural = rng.choice(["embl", "uniprot", "genbank", "ddbj"])
                data, meta = S.gen_boundary_linebased(rng, natural, "amino" if natural == "uniprot" else "dna")
                ops = ["file ext=dat hex=" + hx(data)]
                for s_ in range(rng.choice([1, 2])):
                    abc = rng.choice(["text", "amino" if natural == "uniprot" else "dna"])
                    ops.append("open fmt=%s abc=%s B=%d" % (rng.choice([natural, natural, "unknown"]), abc, S.pick_B(rng, data)))
                    call = rng.choice(["read", "readinfo", "mixed", "readwin", "readblock"])
                    k = len(meta["recs"]) + 1
                    if call == "readwin":
                        for _ in range(k):
                            ops += ["readwin C=0 W=100000", "readwin C=0 W=100000", "reuse"]
                    elif call == "readblock":
                        ops += ["readblock list=%d maxres=-1 maxseq=-1 init=0 long=0 ctx=0" % rng.choice([1, 2, 8])] * k
                    elif call == "mixed":
                        ops += [rng.choice(["read", "readinfo"]) for _ in range(k)]
                    else:
                        ops += [call] * k
                    ops.append("close")
                out.append({"name": "bound%d" % c, "ops": ops, "sticky": 1})
                continue
            if r < 0.165:
                data, meta = S.gen_hmmpgmd(rng, rng.choice(["dna", "amino"]))
                if rng.random() < 0.5:
                    data = self.mutate(rng, data)
                natural = "hmmpgmd"
            elif r < 0.19:
                data, meta = S.gen_daemon(rng, rng.choice(["dna", "amino"]))
                if rng.random() < 0.6:
                    data = self.mutate(rng, data)
                natural = "daemon"
            elif r < 0.45:
                fn = rng.choice(names)
                data = self.mutate(rng, seeds[fn])
                natural = "fasta" if fn.startswith("fasta") else "genbank" if fn.startswith("genbank") else "stockholm" if fn.startswith("stockholm") else fn
            elif r < 0.85:
                kind = rng.choice(["dna", "rna", "amino"])
                data, meta = S.gen_fasta(rng, "quick", kind)
                if rng.random() < 0.8:
                    data = self.mutate(rng, data)
                natural = "fasta"
            else:
                ln = rng.choice([0, 1, 2, 3, 10, 100, 1000])
                al = rng.choice([bytes(range(256)), b">\n\r ACGT", b">ACGTacgt\n\n\n \t//#", b"\x00\xff>A\n"])
                data = bytes(rng.choice(al) for _ in range(ln))
                natural = "fasta"
            ops = ["file ext=%s hex=%s" % (rng.choice(["dat", "dat", "dat", "fa", "gb", "sto"]), hx(data))]
            for s in range(rng.choice([1, 2, 3])):
                fmt = natural if rng.random() < 0.55 else rng.choice(FORMATS)
                abc = rng.choice(ABCS)
                B = S.pick_B(rng, data, small_ok=len(data) <= 5000) if rng.random() < 0.8 else 4096
                ops.append("open fmt=%s abc=%s B=%d" % (fmt, abc, B))
                if abc == "text" and rng.random() < 0.3:
                    ops.append("guessabc")      # esl_sqfile_GuessAlphabet: records the stream while reading a window, then rewinds onto the recording
                call = rng.choice(["read", "readinfo", "readseq", "readwin", "readblock", "mixed"])
                k = rng.choice([2, 4, 8])
                if call == "readwin":
                    C, W = rng.choice([0, 1, 5, 50]), rng.choice([1, 2, 7, 60, 5000])
                    for _ in range(k * 2):
                        ops.append("readwin C=%d W=%d" % (C, W))
                        if rng.random() < 0.3:
                            ops.append("reuse")
                elif call == "readblock":
                    # long-target mode is documented for unaligned DNA files only ("DNA, not an alignment"): never on a selection that is,
                    # or may autodetect to, an alignment format
                    lng = 1 if (abc in ("dna", "rna") and fmt in ("fasta", "embl", "uniprot", "genbank", "ddbj", "daemon", "hmmpgmd") and rng.random() < 0.7) else 0
                    ls = rng.choice([1, 2, 8])
                    for _ in range(k):
                        ops.append("readblock list=%d maxres=%d maxseq=%d init=%d long=%d ctx=%d" % (ls, rng.choice([-1, 5, 60, 1000]), rng.choice([-1, 1, 3]), rng.choice([0, 1]), lng, rng.choice([0, 0, 3, 20])))
                elif call == "mixed":
                    ops += [rng.choice(["read", "readinfo", "readseq"]) for _ in range(k)]
                else:
                    ops += [call] * k
                ops.append("close")
            out.append({"name": "gen%d" % c, "ops": ops, "sticky": 1})
        return S.record_distribution(ctx, out)

    def nontrivial(self, case, out):
        return any(l.startswith(("ok name=", "eformat", "ok count=")) for l in out)

    def monitor(self, ctx, case, out):
        f = S.basic_line_checks(case, out, Failure)
        if f:
            return f
        f = S.monitor_msaseq(case, out) or S.monitor_matrix(case, out) or M.monitor(case, out)
        if f:
            return f
        for op, l in zip(case["ops"], out):
            w = op.split()[0]
            st = l.split()[0] if l else ""
            if st in ("fault", "atexit"):
                continue
            if w == "open":
                if st not in ("ok", "eformat", "enotfound", "eof"):
                    return Failure("monitor", "open returned undocumented status: %s" % l[:60])
            elif w == "guessabc":
                if st not in ("ok", "enoalphabet", "enodata", "eformat", "dead", "closed"):
                    return Failure("monitor", "GuessAlphabet returned undocumented status: %s" % l[:60])
            elif w in ("read", "readinfo", "readseq", "readblock"):
                if st not in ("ok", "eof", "eformat", "dead", "closed"):
                    return Failure("monitor", "%s returned undocumented status: %s" % (w, l[:60]))
                if st == "eformat" and " nomsg" in l:
                    return Failure("monitor", "%s returned eslEFORMAT without a message" % w)
            elif w == "readwin":
                if st not in ("ok", "eof", "eod", "eformat", "einval", "dead", "closed"):
                    return Failure("monitor", "readwin returned undocumented status: %s" % l[:60])
                if st == "eformat" and " nomsg" in l:
                    return Failure("monitor", "readwin returned eslEFORMAT without a message")
        return None


SPEC = C02()
