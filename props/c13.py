"""C13 — miniapps never die on bad input; their output matches an independent computation.

Half A (theorems + exact differential run): reference functions lean/EaselModel/Miniapps/*, theorems Props/C13.lean,
driver Driver/C13.lean predicts the stdout of the sanitizer-built tools on generated valid inputs.
Half B (search, supports the verdict only): every tool of ctx.src/miniapps built with ASan+UBSan, run on valid, mutated and
raw inputs x option combinations drawn from the ESL_OPTIONS tables parsed out of the working tree (translate/optables.py).
One op = one tool invocation; runner = harness/h_miniapps.py.
"""
import os, sys, re, json, hashlib, fcntl, time, shutil, stat
from vlib.engine import Prop, Failure, VERIF, SAN_FLAGS, run_parallel, log, sh

sys.path.insert(0, os.path.join(VERIF, "translate"))
import optables  # noqa: E402

sys.path.insert(0, os.path.join(VERIF, "gen"))
import c13gen as G  # noqa: E402  (generators: valid inputs, mutations, option combinations, reference cases)

BAD_CLASSES = ("signal", "exception", "asan", "ubsan", "lsan", "hang", "nodiag")


def hx(b):
    if isinstance(b, str):
        b = b.encode("latin-1")
    return b.hex() if b else "-"


def parse_result(line):
    kv = dict(w.split("=", 1) for w in line.split() if "=" in w)
    return kv


class C13(Prop):
    id = "C13"
    lean_modules = ["EaselModel.Props.C13"]
    lean_exe = "c13_driver"
    harness = None               # the runner is a python script; extra_checks() builds the tools and installs it
    theorems = ["EaselModel.Props.C13." + t for t in G.THEOREMS]
    claimed = True
    diverge_is_violation = True  # reference cases: the model is the specification (manual-page definition) of the tool's stdout
    quick_budget_s = 90
    thorough_budget_s = 900
    technique = ("Lean 4 proof about executable reference functions of the core tools + exact differential run of the "
                 "sanitizer-built tool binaries against the reference's predicted stdout; crash/hang freedom is a SEARCH "
                 "(sanitizer-built tools x mutated inputs x option tables parsed from the tree), not a theorem")
    level_text = ("PARTIAL. Proved (Lean 4, all inputs / all generator states): theorems about executable reference functions of the core tools - "
                  "FASTA write-then-read is the identity at every line width; esl-seqstat's loop computes count/sum/min/max and is additive over "
                  "concatenation; reverse complement is an involution with the stated column map; esl-seqrange partitions 1..n into consecutive "
                  "chunks differing by at most one; esl-selectn / easel downsample output is a size-m sub-multiset of the input for EVERY roll "
                  "function; esl-mask changes exactly the requested coordinates and keeps the length; esl-alipid counters are bounded and symmetric; "
                  "esl-shuffle -m/-w output is a permutation of the input for every roll function; esl-reformat residue options (idempotence, -r/-d inverse, "
                  "fasta->afa->fasta identity, --namelen round trip, unaligned output loses no residue in the 60-column wrapping); esl-alistat counts "
                  "(every column has K+1 counters, a canonical residue/gap is counted in its own cell, missing/nonresidue nowhere); esl-afetch returns a record whose "
                  "name or accession is the key (first match without an index, names before accessions with one; the verbatim echo is the record's own lines up to its //); "
                  "esl-compstruct (correct <= pairs, strict rule symmetric, self comparison perfect, Mathews' rule only relaxes); esl-compalign self comparison; esl-alimask/-alimanip subset theorems; "
                  "the streamed --small paths (esl_msafile2_RegurgitatePfam as esl-alimask/-alimanip call it: for EVERY keep list / skip list / column mask the output is the header, exactly the wanted rows "
                  "with name and spacing untouched and the text restricted to the kept columns, then //; identity without options; esl-reformat --small pfam->afa prints exactly the non-small reference's text for every "
                  "option setting; esl-alistat --small = the non-small summary minus three lines); esl-alimerge (dropping the added columns from a merged row returns the input row; merged length = length + added columns; "
                  "rows of one input stay aligned). "
                  "esl-translate, esl-weight, esl-alirev and easel filter are compositions of the C17 ORF machine, the C16 weighting/filter models and the C15 "
                  "alignment operations with the C03 readers/writers. "
                  "Tie: the sanitizer-built tools of the working tree are run on generated valid inputs - including files that hold SEVERAL alignments of different "
                  "shapes for every tool that loops over alignments - and their COMPLETE stdout (and every output file) is compared with the reference's prediction "
                  "(seeded tools exactly, through the C09 generator model). "
                  "NOT proved: 'never dies for any file content and option combination' over the 27 entry points - that half is a SEARCH "
                  "(fixed + seed-dependent streams of valid/mutated/raw inputs x option combinations parsed from the ESL_OPTIONS tables of the tree).")
    level_note = ("Trusted: Lean kernel + propext/Classical.choice/Quot.sound; the reference functions are specifications written from the manual "
                  "pages/tool sources, tied by exact stdout comparison only on the generated valid-input distribution; printf rounding modelled by exact "
                  "rational round-half-even (L0), binary64/binary32 arithmetic of the tools mirrored operation by operation (no theorem about rounded values); "
                  "the crash/hang half is support, not proof: a tool death outside the explored inputs is not excluded. "
                  "Tools with no reference function (esl-ssdraw, -alimap, -construct, -histplot, -mixdchlet) are covered by the search only; esl-alimerge --small and inputs with '~' columns or annotation "
                  "beyond names/rows/RF likewise; esl-reformat --id_map by a python monitor. The --small modes are modelled line by line (Miniapps/Small.lean) and compared exactly; esl-alistat --small is predicted from the exact residue count "
                  "(the tool sums fractional per-column counts in binary64 and rounds to nearest since edf1c28). esl-shuffle -w follows the roll range regenerated from esl_randomseq.c (Shuffle/WinParams.lean, shared with C18). "
                  "Round 6: six repairs of defects found through this check landed in /repo (esl-alistat --small nres truncation edf1c28; directory as input file 5d94071; RegurgitatePfam #=GS lookup before parse 682375e; "
                  "esl-reformat --small inverted #=GR/SS tests 2415140; esl_rsq_*ShuffleKmers scratch allocation b700765; --small tools on interleaved Stockholm 6d1c4fc); their witnesses are regression cases. "
                  "The 16 deaths recorded at the start of round 4 and one more found while modelling esl-alimask -p were repaired in /repo (18 patches proposed by this builder in all); their witnesses run "
                  "as regression cases, as do five more found in round 4 by the new references and by the thorough tier once every tool was back in the seed-dependent "
                  "stream (Clustal writer on zero columns fc170bb, esl_sq_Copy #=GR markup b033cd2, esl-compalign -p 6402139, esl-alimanip --c-mx b282134, "
                  "esl_sqfile_PositionByKey e3f8b5b). No known finding is open.")
    trusted_base = ["reference functions (lean/EaselModel/Miniapps) tied to the tools by exact stdout comparison on generated valid inputs",
                    "python runner harness/h_miniapps.py, gcc, ASan/UBSan/LSan, process/file-system behaviour",
                    "Lean compiler/runtime for the executable driver; libc printf rounding modelled by exact rational rounding (L0)"]
    assumptions = ["reference functions cover: esl-seqstat (-a -c --comptbl, dna/rna/amino), esl-alirev, esl-alipid, esl-seqrange, esl-selectn, esl-mask (-r -l -m -x -R), "
                   "esl-reformat (every alignment format in and out, fasta out of every alignment format, -d -l -n -r -u -x --gapsym --rename --replace --mingap --nogap --keeprf "
                   "--wussify --dewuss --fullwuss --namelen, --ignore/--acceptx on FASTA), esl-shuffle (-m -k -w -r -N -L, -G for dna/rna, -A -b), esl-sfetch "
                   "(--index, key, -r, -n, -c, -f, -C, -o, -O), esl-afetch (--index, key by name/accession, -f, -o, -O, --outformat), easel downsample (lines, -s, -S), "
                   "esl-translate (-c -l -m -M --watson --crick -W), esl-alistat (default, -1, --list --icinfo --rinfo --pcinfo --psinfo --iinfo --cinfo --noambig --bpinfo --weight; Stockholm/Pfam multi-alignment files and afa), "
                   "easel alistat (default, -1; afa and guessed Stockholm/Pfam), esl-weight (-g -p -b --id -f --idf), easel filter (default options), easel index, "
                   "esl-alimask (-t, -g, -p with --pfract/--pthresh/--pavg/--ppcons/--pallgapok, -g -p, --rf-is-mask, mask file, --keepins, --fmask/--gmask/--pmask files), "
                   "esl-alimanip (selection/removal/numbering options), esl-compstruct (-m -p), esl-compalign (default, -c), esl-alipid / esl-alirev / esl-weight on multi-alignment Stockholm/Pfam files, "
                   "the --small modes of esl-reformat (pfam->afa, pfam->pfam with every residue option), esl-alimask (-t, mask file, --rf-is-mask, -g [--gapthresh]), esl-alimanip (--seq-k/--seq-r, several records), esl-alistat (default, -1, --list/--icinfo/--rinfo/--cinfo/--pcinfo files), "
                   "esl-alimerge (two files or --list, --outformat, --rfonly; names/rows/RF alignments)",
                   "alphabet guessing, the non-FASTA sequence formats as input, esl-alimask --small -p, esl-alimerge --small, "
                   "esl-reformat --id_map/hmmpgmd, esl-compalign -p, esl-construct, esl-alimap, esl-ssdraw, esl-histplot, esl-mixdchlet are not modelled "
                   "(python monitors for some, the search for all)",
                   "process and file-system behaviour of the tools, libc printf, and the python runner are trusted; a NaN the tools print is `0.0/0.0` on x86-64 (`-nan`)",
                   "the fixed search streams are the same at every seed (so that every death of the unchanged tree is an exactly known witness); every tool "
                   "is additionally explored with the seed-dependent stream, on valid inputs x option combinations",
                   "edge stream (round 6), per entry point: empty input files, input without trailing newline, CR-LF, newline-only files, input on stdin, nonexistent and DIRECTORY paths, every "
                   "output-file option pointed into a nonexistent directory, incompatible option pairs and missing required options from the parsed tables (MUST end in a usage error), 3-5 compatible options at once, "
                   "and every eslARG_INT option with 12 values at and beyond the int range (2^31-1, 2^31, 2^32-1, 2^32, 2^32+1, -2^31, -2^31-1, 2^63-1, 10^20-1, 0, 1, -1)"]
    rule = ("one case = a few input files + one or more tool invocations; reference cases compare complete stdout with the Lean "
            "prediction; search cases classify the exit (0 / non-zero with diagnostic = fine; signal, sanitizer report, fatal "
            "exception abort, timeout, silent non-zero = violation). distinct_nontrivial = distinct (tool, exit class, first stdout line)")

    # -------------------------------------------------------------------------------------------------
    def _build_tools(self, ctx):
        """-> private directory (under ctx.work) holding the sanitizer-built tools of the working tree.
        The engine's shared cache keeps only a few trees and is pruned by concurrent checks, so nothing that is used
        during the run may live there: sources are copied to ctx.work first, binaries are built there (16 jobs) and kept in
        a cache of their own (content-addressed by the tree hash), from which each run takes a private copy."""
        from vlib import engine
        if not (ctx.src and os.path.exists(os.path.join(ctx.src, "libeasel.a")) and os.path.isdir(os.path.join(ctx.src, "miniapps"))):
            ctx.src = engine.build_lib(True)         # pruned by a concurrent check since build_lib(): build it again
        key = os.path.basename(ctx.src.rstrip("/")) + "-" + hashlib.sha1(" ".join(SAN_FLAGS).encode()).hexdigest()[:8]
        root = os.path.join(engine.SCRATCH_ROOT, "easel-verif-cache-c13")
        os.makedirs(root, exist_ok=True)
        bindir = os.path.join(ctx.work, "bin")
        cached = os.path.join(root, key)
        lock = open(os.path.join(root, ".lock"), "w")
        fcntl.flock(lock, fcntl.LOCK_SH)
        try:
            if os.path.exists(os.path.join(cached, ".done")):
                shutil.copytree(cached, bindir)
                os.utime(cached)
        finally:
            fcntl.flock(lock, fcntl.LOCK_UN)
        # private copy of what the generators read (formats/, esl_msa_testfiles/) and of the sources if we must compile
        psrc = os.path.join(ctx.work, "src")
        os.makedirs(psrc, exist_ok=True)
        for d in ("formats", "esl_msa_testfiles", "miniapps"):
            if os.path.isdir(os.path.join(ctx.src, d)):
                shutil.copytree(os.path.join(ctx.src, d), os.path.join(psrc, d), dirs_exist_ok=True)
        ctx.c13_src = psrc
        if os.path.exists(os.path.join(bindir, ".done")):
            lock.close()
            return bindir
        t = time.time()
        for fn in os.listdir(ctx.src):
            if fn.endswith(".h") or fn == "libeasel.a":
                shutil.copy2(os.path.join(ctx.src, fn), os.path.join(psrc, fn))
        os.makedirs(bindir, exist_ok=True)
        mdir = os.path.join(psrc, "miniapps")
        base = ["gcc", "-I.", "-Iminiapps", "-pthread"] + SAN_FLAGS
        tail = ["libeasel.a", "-lm", "-lpthread"]
        cmds = []
        for fn in sorted(os.listdir(mdir)):
            if fn.startswith("esl-") and fn.endswith(".c"):
                cmds.append((fn, base + ["miniapps/" + fn] + tail + ["-o", os.path.join(bindir, fn[:-2])]))
        subs = sorted("miniapps/" + fn for fn in os.listdir(mdir) if fn.startswith("cmd_") and fn.endswith(".c"))
        if os.path.exists(os.path.join(mdir, "easel.c")):
            cmds.append(("easel", base + ["miniapps/easel.c"] + subs + tail + ["-o", os.path.join(bindir, "easel")]))
        run_parallel(cmds, psrc)
        open(os.path.join(bindir, ".done"), "w").write("ok")
        os.unlink(os.path.join(psrc, "libeasel.a"))
        log("built %d sanitized miniapps in %.1fs" % (len(cmds), time.time() - t))
        fcntl.flock(lock, fcntl.LOCK_EX)
        try:
            if not os.path.exists(cached):
                tmp = cached + ".tmp%d" % os.getpid()
                shutil.copytree(bindir, tmp)
                os.rename(tmp, cached)
            ents = sorted([e for e in os.listdir(root) if not e.startswith(".") and ".tmp" not in e],
                          key=lambda e: os.path.getmtime(os.path.join(root, e)))
            for e in ents[:-6]:
                if time.time() - os.path.getmtime(os.path.join(root, e)) > 1800:
                    shutil.rmtree(os.path.join(root, e), ignore_errors=True)
        finally:
            fcntl.flock(lock, fcntl.LOCK_UN)
            lock.close()
        return bindir

    def generated(self, ctx):
        """esl-shuffle -w: the roll range of esl_rsq_CShuffleWindows is read from the working tree (same file, same text as
        C18's generated() - composed by import, so the two checks can never disagree about it)"""
        from props import c18
        return c18.SPEC.generated(ctx)

    def extra_checks(self, ctx):
        fails = []
        try:
            ctx.c13_bindir = self._build_tools(ctx)
        except RuntimeError as e:
            return [Failure("obligation", "miniapps do not compile with sanitizers: %s" % str(e)[-1500:], key="tools-build")]
        os.environ["C13_BINDIR"] = ctx.c13_bindir
        os.environ["C13_WORK"] = os.path.join(ctx.work, "run")
        os.makedirs(os.environ["C13_WORK"], exist_ok=True)
        runner = os.path.join(ctx.work, "c13_runner")
        with open(runner, "w") as f:
            f.write("#!/bin/sh\nexec python3 %s\n" % os.path.join(VERIF, "harness", "h_miniapps.py"))
        os.chmod(runner, 0o755)
        ctx.harness_exe = runner
        # every entry point named by the property must exist in the tree and have a parsable option table
        ctx.c13_tables = optables.tool_tables(ctx.c13_src)
        have = set(os.listdir(ctx.c13_bindir))
        for tool in G.ENTRY_POINTS:
            exe = tool.split()[0]
            if exe not in have:
                fails.append(Failure("obligation", "entry point %s was not built" % tool, key="tools-build"))
            if tool not in ctx.c13_tables or not ctx.c13_tables[tool]["options"]:
                fails.append(Failure("obligation", "no ESL_OPTIONS table found for %s" % tool, key="optables:" + tool))
        ctx.c13_stats = {"by_tool": {}, "by_class": {}, "combos": set(), "ref_cases": 0, "ref_checked_ops": 0,
                         "search_cases": 0, "options_seen": set(), "sweep": {}}
        return fails

    # -------------------------------------------------------------------------------------------------
    @staticmethod
    def _fix(cases):
        # an op list is one scenario (input files, index step, invocation, conversion): removing ops only produces a
        # different, meaningless failure ("file not found"), so the engine's op-level shrinker is switched off
        for c in cases:
            c["sticky"] = len(c["ops"])
        return cases

    def corpus(self, ctx):
        return self._fix(G.corpus_cases(ctx))

    def cases(self, ctx):
        if not getattr(ctx, "c13_tables", None):
            return []
        out = []
        out += G.reference_cases(ctx)
        out += G.search_cases(ctx)
        out += G.edge_cases(ctx)
        return self._fix(out)

    # -------------------------------------------------------------------------------------------------
    def canonical(self, line):
        return line

    def compare(self, ctx, case, impl_out, model_out):
        """Model lines: 'ok' for file/save ops, 'nopred' when the reference has no prediction for that invocation,
        'rc=0 out=<hex>' otherwise (complete stdout)."""
        if not case.get("ref") or case.get("expect_err"):
            return None          # search cases: the reference functions are specifications for VALID inputs only; option
                                 # combinations that the tool's own table forbids must be refused (monitor), there is nothing to predict
        n = max(len(impl_out), len(model_out))
        for i in range(n):
            a = impl_out[i] if i < len(impl_out) else "<missing>"
            b = model_out[i] if i < len(model_out) else "<missing>"
            if b.startswith("nopred") or b == "bad-op" and not case.get("ref"):
                if case.get("nopred_first") and any(o_.startswith("run ") for o_ in case["ops"][i + 1:]):
                    continue     # only the LAST invocation of the case must be predicted (the earlier ones feed the python monitor)
                if case.get("ref") and case["ops"][i].startswith("run ") and not case.get("nopred_ok"):
                    return (i, a[:300], b + " (reference case without prediction)")
                continue
            if a.startswith("rc="):
                ka = parse_result(a)
                kb = parse_result(b)
                if "232043505520" in (ka.get("out") or ""):      # "# CPU time: ..." (esl_stopwatch_Display): not part of the prediction
                    try:
                        t = re.sub(rb"(?m)^# CPU time: [^\n]*\n", b"", bytes.fromhex(ka["out"]))
                        ka["out"] = t.hex() if t else "-"
                    except ValueError:
                        pass
                ctx.c13_stats["ref_checked_ops"] += 1
                if ka.get("rc") != kb.get("rc") or ka.get("out") != kb.get("out"):
                    return (i, "rc=%s out=%s" % (ka.get("rc"), _show(ka.get("out"))), "rc=%s out=%s" % (kb.get("rc"), _show(kb.get("out"))))
            elif a != b:
                return (i, a[:300], b[:300])
        return None

    def nontrivial(self, case, out):
        return any(l.startswith("rc=0 ") and " out=-" not in l for l in out)

    def monitor(self, ctx, case, out):
        st = ctx.c13_stats
        if case.get("ref"):
            st["ref_cases"] += 1
        else:
            st["search_cases"] += 1
        first = None
        for op, l in zip(case["ops"], out):
            if not op.startswith("run "):
                continue
            kv = parse_result(l)
            okv = dict(w.split("=", 1) for w in op.split()[1:] if "=" in w)
            tool = okv.get("tool", "?")
            argv = bytes.fromhex(okv["args"]).split(b"\0") if okv.get("args", "-") != "-" else []
            if tool in ("easel", "esl-mixdchlet") and argv and not argv[0].startswith(b"-"):
                tool = tool + " " + argv[0].decode("latin-1")
            cls = kv.get("class", "?")
            st["by_tool"].setdefault(tool, {}).setdefault(cls, 0)
            st["by_tool"][tool][cls] += 1
            st["by_class"][cls] = st["by_class"].get(cls, 0) + 1
            o = kv.get("out", "-")
            fl = ""
            if o not in ("-",) and not o.startswith("big:"):
                try:
                    fl = bytes.fromhex(o[:400]).split(b"\n")[0][:60].decode("latin-1")
                except ValueError:
                    fl = ""
            st["combos"].add((tool, cls, fl))
            for a in argv:
                if a.startswith(b"-") and len(a) > 1:
                    st["options_seen"].add((tool, a.split(b"=")[0].decode("latin-1")))
            ctx.stats["distinct_nontrivial"] = len(st["combos"])
            if cls in BAD_CLASSES and first is None:
                # a timeout on a command line that asks for an astronomically large amount of work is not a hang
                if cls == "hang" and G.asks_huge(argv):
                    continue
                cmd = " ".join(_shq(a.decode("latin-1")) for a in [okv.get("tool", "?").encode()] + argv)
                site = _site(kv.get("site", "?"))
                if site.startswith("esl_buffer.c:failed_to_slurp"):
                    # esl_buffer_OpenFile() on a directory: one root cause in the shared input layer whatever the tool (the site
                    # token carries the path's letters: coarsen); an input that is not a directory keeps its own key
                    isdir = any(a in (b".", b"/", b"/tmp", b"..") for a in argv)
                    key = "C13:input-layer:directory-as-input" if isdir else "C13:input-layer:exception:esl_buffer.c:failed_to_slurp"
                elif site.endswith("/input-layer"):      # a death inside the shared readers is keyed by its site, not by the tool
                    key = "C13:input-layer:%s:%s" % (cls, site[:-len("/input-layer")])
                else:
                    key = "C13:%s:%s:%s" % (tool.replace(" ", "-"), cls, site)
                first = Failure("monitor", "%s died: class=%s rc=%s site=%s; command: %s" % (tool, cls, kv.get("rc"), kv.get("site"), cmd),
                                key=key, detail={"command": cmd, "result": l[:400], "files": [o_ for o_ in case["ops"] if o_.startswith("file ")][:6]})
            if cls in ("notool", "noexec") and first is None and cls == "notool":
                first = Failure("monitor", "tool binary %s missing" % tool, key="tools-build")
        if first is None and case.get("expect_ok"):
            for op, l in zip(case["ops"], out):
                if op.startswith("run ") and " class=ok " not in l:
                    first = Failure("monitor", "%s: expected exit status 0 (help/version), got %s" % (case["name"], l[:160]))
        if first is None and case.get("expect_err"):
            runs = [(op, l) for op, l in zip(case["ops"], out) if op.startswith("run ")]
            if runs and " class=err " not in runs[-1][1]:
                first = Failure("monitor", "%s: invalid arguments must be rejected with a non-zero status and a diagnostic, got %s" % (case["name"], runs[-1][1][:200]))
        if first is None and case.get("ref"):
            first = G.ref_monitor(ctx, case, out)
        if first is not None and os.environ.get("C13_DEATHLOG"):       # builder's aid: every failure of a run, not only the first six
            with open(os.environ["C13_DEATHLOG"], "a") as f:
                f.write("%s\t%s\t%s\n" % (case["name"], first.key, first.what[:600]))
        return first

    def extra_evidence(self, ctx):
        st = getattr(ctx, "c13_stats", None)
        if not st:
            return {}
        tabs = getattr(ctx, "c13_tables", {})
        nopt = sum(len(v["options"]) for v in tabs.values())
        return {"c13": {"entry_points": len(G.ENTRY_POINTS), "options_in_tables": nopt,
                        "options_exercised": len(st["options_seen"]),
                        "reference_cases": st["ref_cases"], "reference_invocations_compared_exactly": st["ref_checked_ops"],
                        "search_cases": st["search_cases"], "by_class": st["by_class"], "by_tool": st["by_tool"],
                        "distinct_tool_class_firstline": len(st["combos"]),
                        "option_sweep": st.get("sweep", {}),
                        "half_A": "theorems about reference functions + exact stdout comparison (proof + tie)",
                        "half_B": "search only (support): not a theorem"}}


def _site(site):
    """coarsen sites that are one root cause: a count from the command line / input reaches ESL_ALLOC unchecked"""
    if re.search(r"alloc_(of|for)_size_-?N_failed|zero_malloc_disallowed|zero_realloc", site):
        return "unchecked-alloc-size"
    return site


def _shq(a):
    return a if re.fullmatch(r"[A-Za-z0-9_./:=+,-]+", a) else "'" + a.replace("'", "'\\''") + "'"


def _show(h):
    if h is None:
        return "?"
    if h == "-" or h.startswith("big:"):
        return h
    try:
        return repr(bytes.fromhex(h)[:600].decode("latin-1"))
    except ValueError:
        return h[:200]


SPEC = C13()
