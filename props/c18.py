"""C18 — shuffling and resampling preserve exactly what they promise.
Model: lean/EaselModel/Shuffle/*, theorems: Props/C18.lean, harness: h_randomseq.c"""
import struct
from collections import Counter
from vlib.engine import Prop, Failure

def dbits(x): return "%016x" % struct.unpack("<Q", struct.pack("<d", x))[0]
def fbits(x): return "%08x" % struct.unpack("<I", struct.pack("<f", x))[0]
def f32(x): return struct.unpack("<f", struct.pack("<f", x))[0]
def hx(b): return bytes(b).hex() if len(b) else "-"
def unhx(s): return b"" if s == "-" else bytes.fromhex(s)
def kv(op): return dict(x.split("=", 1) for x in op.split()[1:] if "=" in x)

def untemper(y):
    """inverse of the MT19937 output tempering (so that the C generator's next output is exactly y)"""
    y &= 0xffffffff
    y ^= y >> 18
    y ^= (y << 15) & 0xefc60000
    t = y
    for _ in range(5): t = y ^ ((t << 7) & 0x9d2c5680)
    y = t & 0xffffffff
    t = y
    for _ in range(3): t = y ^ (t >> 11)
    return t & 0xffffffff

def temper(x):
    x ^= x >> 11; x ^= (x << 7) & 0x9d2c5680; x ^= (x << 15) & 0xefc60000; x ^= x >> 18
    return x & 0xffffffff

M64 = (1 << 64) - 1
def temper64(x):
    x ^= (x >> 29) & 0x5555555555555555
    x ^= (x << 17) & 0x71D67FFFEDA60000 & M64
    x ^= (x << 37) & 0xFFF7EEE000000000 & M64
    x ^= x >> 43
    return x & M64

def untemper64(y):
    """inverse of the MT19937-64 output tempering"""
    y &= M64
    y ^= y >> 43
    y ^= (y << 37) & 0xFFF7EEE000000000 & M64
    t = y
    for _ in range(4): t = y ^ ((t << 17) & 0x71D67FFFEDA60000 & M64)
    y = t
    t = y
    for _ in range(3): t = y ^ ((t >> 29) & 0x5555555555555555)
    return t & M64

UP = b"ABCDEFGHIJKLMNOPQRSTUVWXYZ"
GAPS_TEXT = b"-_."

def is_alpha(c): return 65 <= c <= 90 or 97 <= c <= 122
def up(b): return bytes(c - 32 if 97 <= c <= 122 else c for c in b)
def doublets(b): return Counter(zip(b, b[1:]))


class C18(Prop):
    id = "C18"
    lean_modules = ["EaselModel.Props.C18"]
    lean_exe = "c18_driver"
    harness = "h_randomseq.c"
    theorems = ["EaselModel.Props.C18." + t for t in (
        "cShuffle_perm", "xShuffle_spec", "cShuffleWindows_spec", "xShuffleWindows_spec",
        "cReverse_spec", "cReverse_inplace_spec", "xReverse_spec", "reverse_inplace_eq",
        "msaShuffle_spec", "permuteSeqOrder_spec", "bootstrap_only_input_columns",
        "cShuffleKmers_spec", "xShuffleKmers_spec", "iid_support", "iid_uniform",
        "cMarkov0_spec", "xMarkov0_spec", "cMarkov1_spec", "xMarkov1_spec",
        "shuffleDP_ok", "cShuffleDP_ok", "xShuffleDP_ok", "dpWalk_edges_once",
        "shuffleDP_checks_never_fire", "shuffleDP_spec", "cShuffleDP_status", "xShuffleDP_status",
        "vShuffle_spec", "vShuffle_inplace_eq", "qrna_keeps_classes", "qrna_class_perm",
        "roll_returns_first_accepted", "dpFind_returns_first_accepted", "vecShuffle64_perm", "rsqSample_spec",
        "sampleDirty_never_gap", "sampleDirty_sampled_vector_zeros",
        "cShuffle_via_rolls", "cShuffle_bijective_on_rolls", "cShuffle_natural", "xShuffle_via_rolls", "xShuffle_bijective_on_rolls",
        "xShuffle_natural", "msaShuffle_via_rolls", "roll_rejects_less_than_half", "roll64_rejects_at_most_half",
        "roll_fuel_exhausted_only_by_rejected_run", "dpSelectLast_via_rolls", "exists_accepting_rolls", "dpRetry_every_pass_can_accept",
        "shuffleWindow_via_rolls", "xShuffleWindows_window_bijective_on_rolls", "cShuffleWindows_pair_always_swapped",
        "shuffleKmers_via_rolls", "cShuffle_counts",
        "fisherYates_via_rolls", "fisherYates_bijective_on_rolls", "vecShuffle64_via_rolls", "rsqSample_uniform", "iidUniform_exact", "bootstrap_exact",
        "roll_on_generator_words", "roll_returns_spec", "roll_progress", "roll_reaches_every_value", "dpRetry_accepting_words_exist", "dpPass_on_words_via_rolls", "roll64_progress", "permuteSeqOrder_index_spec",
        "shuffle_inplace_eq_separate", "xShuffle_inplace_eq_separate", "shuffleKmers_inplace_eq_separate", "shuffleWindows_inplace_eq_separate",
        "xShuffleWindows_inplace_eq_separate", "msaShuffle_inplace_eq_separate", "qrna_inplace_eq_separate", "roll_returns_from_poked_state",
        "dchoose_returns", "iid_never_fatal", "markov1_counts_exact", "cMarkov0_einval_or_ok", "xMarkov0_einval_or_ok", "cMarkov1_einval_or_ok", "xMarkov1_einval_or_ok",
        "dchoose_inverse_cdf", "markov0_frequencies_exact", "markov1_conditional_exact", "iid_never_fatal_any_number_type", "qrna_status",
        "ieee_carrier_lawful", "ieee_L5", "iid_support_ieee", "iid_support_ieee_negzero", "iid_never_fatal_ieee", "cMarkov0_einval_or_ok_ieee", "xMarkov0_einval_or_ok_ieee",
        "cMarkov1_einval_or_ok_ieee", "xMarkov1_einval_or_ok_ieee", "markov1_counts_exact_ieee",
        "iid_complete_ieee", "cMarkov0_complete_ieee", "xMarkov0_complete_ieee", "cMarkov1_complete_ieee", "xMarkov1_complete_ieee",
        "dchoose_zero_roll_first_positive", "dchoose_zero_roll_first_positive_ieee")]
    claimed = True
    technique = ("Lean 4 proof (Fisher-Yates/swap-loop invariants, permutation and support theorems for every generator state; Markov/IID arithmetic over an IEEE-754 carrier with abstract monotone rounding) + "
                 "exact differential correspondence of the executable model (on the C09 generator model) with the ASan/UBSan-built C code + python property monitors on the C output")
    level_text = ("Theorems for every input and every generator state (hence every seed and history), no size bound: plain shuffles keep length and residue multiset (digital: sentinels untouched); "
                  "DP shuffle: ordered-pair multiset, first and last residue and length preserved whenever it returns eslOK, and its two reality checks can never fire (Altschul-Erickson/BEST argument "
                  "proved from the code's own connectivity test), eslEINVAL exactly on invalid residues; k-mer shuffle = permutation of the consecutive k-mers after the unshuffled L mod k prefix; "
                  "window shuffles keep the multiset inside every window; reversal = List.reverse, in place or not; Markov-0 emits only input residues, Markov-1 only circular adjacent pairs, "
                  "IID only symbols with p != 0 (over any lawful number type; the rationals and the IEEE-754 carrier with any monotone rounding are proved instances - for the latter also p = -0.0 is never chosen, and IID / Markov-0 / Markov-1 never reach esl_fatal in ROUNDED arithmetic); column shuffle and sequence-order permutation output a permutation of the column (record) list "
                  "with entries kept together; bootstrap outputs only input columns; VShuffle keeps every column's multiset and gap positions; QRNA keeps column classes, gap positions and the per-class "
                  "column multiset. The hand model is tied to the working tree by an exact differential run (same seed => same bytes, same generator consumption, in place = separate) and every clause "
                  "is also monitored directly on the C output. Uniformity (round 3): every Fisher-Yates loop of the library (CShuffle, XShuffle, esl_vec_*Shuffle[64], column/sequence-order "
                  "shuffles, k-mer words, each window of XShuffleWindows, DP step 5) is proved to compute a function of an in-range roll vector that is a BIJECTION from the n! in-range roll vectors onto the n! "
                  "arrangements (exactly one roll vector per arrangement; counting form cShuffle_counts), esl_rsq_Sample and xIID(NULL) are table[Roll(n)] over a duplicate-free table; "
                  "esl_rsq_CShuffleWindows is proved NOT uniform (Roll(j-i): a window of two is swapped for every generator state). Termination: esl_rnd_Roll rejects fewer than 2^31 of the 2^32 words "
                  "(exactly the top interval), so fuel k fails only on k consecutive rejected words; for the DP shuffle's retry loop an accepted in-range last-edge roll vector EXISTS for every input and "
                  "every pass (the sequence's own last edges), proved through the completeness of the code's connectivity sweep. Round 4: both loops are also stated on the RAW WORD STREAM - "
                  "rollOn n ws is esl_rnd_Roll's do/while reading 32-bit words from a list; the model on the C09 generator IS rollOn on the words the generator delivers (roll_on_generator_words); if it returns, "
                  "v < n is the image of the first accepted word and exactly the words up to it are consumed (roll_returns_spec); after ANY finite run of rejected words more than 2^31 of the 2^32 possible "
                  "next words make it return and every value v < n is reachable (roll_progress, roll_reaches_every_value; 64-bit twin roll64_progress); for the DP retry an explicit finite list of 32-bit words "
                  "exists on which a pass, reading every roll through the rejection loop, selects last edges that the code's connectivity test accepts (dpRetry_accepting_words_exist); from every MT state the "
                  "state differing in the one table word tempered next lets Roll return at once (roll_returns_from_poked_state). esl_fatal unreachable: read over the rationals, for every input and "
                  "every generator state the Markov-0/1 resamplers return eslEINVAL (exactly on invalid residues) or eslOK - never DChoose's `unreached code` branch; for Markov-1 this is the content of the "
                  "circularisation (markov1_bug family): count matrix characterised exactly (entry = number of circular adjacent pairs), every reachable residue has a positive row; DChoose is the inverse CDF "
                  "(returns k exactly for a roll in the k-th cumulative bracket, length p_k/sum), emission vectors are exactly count/L and count(x,y)/count(x,.). In place = separate output storage is a theorem "
                  "for CShuffle/XShuffle/k-mers/windows/column shuffle/QRNA (all four xs/ys aliasings) over an explicit storage model (Out.load), besides the alias-aware reverse and VShuffle; the name index "
                  "rebuilt by PermuteSequenceOrder maps every (distinct) name to its new row (model of Reuse+Store, compared exactly incl. duplicated names).")
    level_note = ("Trusted: Lean kernel + propext/Classical.choice/Quot.sound; fidelity of the hand model is checked (not proved) by the differential run; esl_rnd_Roll's rejection loop and the DP "
                  "shuffle's retry loop are modelled with fuel: termination for every stream is false; proved instead: per-draw rejection set < half of the words, and an accepting roll vector exists for every pass "
                  "(positive success probability per pass; no probability theory is formalised); the bijection theorems are statements about roll vectors, equal likelihood of roll values is C09's roll_unbiased32; Markov/IID support theorems are over the class LawfulCNum (L1 u<(a+0)/n <=> u<a/n and 0+0=0, "
                  "L2 0/d=0 for d>0, L3 0/(double)n=0 for n>0, L4 x/2^32 is never < 0/norm): round 6 restated every law so that it holds for EVERY binary64 value (the old a+0=a fails at -0.0) and PROVED the class for two carriers - the rationals, "
                  "and Ieee rho = NaN/+-inf/+-0/representable rationals with the exact result delivered through ANY monotone idempotent rounding rho (IEEE 754 section 6 special-value tables; IeeeCarrier.lean, ieee_carrier_lawful); L5 (norm/norm = 1.0, x/2^32 < 1.0) is the theorem ieee_L5 "
                  "and gives iid_never_fatal_ieee (never esl_fatal in ROUNDED arithmetic whenever the computed sum is finite and non-zero); iid_support_ieee_negzero covers p[k] = -0.0. What stays TRUSTED is ONE statement: C double / Lean's opaque Float are such a carrier "
                  "(round-to-nearest-even, 53-bit significands) - C09's FloatFacts list cannot provide L1-L5 (it has no equalities beyond exact integers and no fact about division by a non-integer), so the two lists stay separate; "
                  "the op `fplaws` still evaluates every instance (in C doubles and in Lean Float) on the values the next Markov/IID call encounters "
                  "(counts in the evidence file: fplaws_calls / fplaws_instances_checked; `bad` must be 0); Markov-0 AND Markov-1 never reach esl_fatal in rounded arithmetic either ({c,x}Markov{0,1}_einval_or_ok_ieee: every input of at most 2^32 residues, every monotone rounding, every generator state; counts are exact integers, markov1_counts_exact_ieee); zero-length pairwise alignments raise Easel's zero-size-allocation exception (modelled, outside the quantifier).")
    diverge_is_violation = False
    quick_budget_s = 90
    trusted_base = ["hand model of esl_randomseq.c / esl_msashuffle.c / esl_vectorops.c shufflers tied by exact differential run (h_randomseq.c, ASan+UBSan build of the working tree)",
                    "C09 generator model (EaselModel.Random.Model) - bit-identical to esl_random.c, proved and tied by C09",
                    "Lean compiler/runtime for the executable driver; gcc; binary64 arithmetic of DChoose (L0)"]
    assumptions = ["esl_rnd_Roll's rejection loop is modelled with fuel 10^6 (first accepted draw); the DP shuffle's `while (!is_eulerian)` retry loop with fuel 10^5 (roll_rejects_less_than_half / exists_accepting_rolls bound what fuel exhaustion means)",
                   "the expected number of passes of the DP shuffle's retry loop is the product over vertices of (edges of the vertex / edges that lead towards s_f in an accepted tree): for an input made of long sorted runs it is astronomically large (measured, ASan build: 4 runs of 200 residues 7 s, scaling with the cube of the run length - 4 runs of 1250 residues, L = 5000, would take tens of minutes) - termination is outside the property; the generator keeps sorted-run inputs short (L <= 24) so that fuel 10^5 and the 15 s alarm are never reached on the clean tree",
                   "the roll range `j-i+d` of esl_rsq_{C,X}ShuffleWindows is read from the working tree on every run (WinParams.lean); d = 0 (text version of the pinned tree) is a proved non-uniform shuffle - an observation OUTSIDE the property (C18 promises the residue counts per window, which hold for d in {0,1}); it is not a violation and not a known finding",
                   "the C three-statement swap is Array.swapIfInBounds; all indices are proved in range (RegionPerm/WinPerm/RowsInv hypotheses), ASan checks the C side",
                   "allocation never fails, except ESL_ALLOC of size 0 (esl_msashuffle_{C,X}QRNA on zero-length sequences returns eslEMEM - modelled, outside 'alignments as in C03')",
                   "DChoose/FChoose arithmetic is binary64 (Lean Float, same libm-free operations); theorems about Markov/IID support are over an abstract lawful number type whose laws (each valid for every binary64 value) are PROVED for the IEEE-754 carrier Ieee rho with an abstract monotone rounding (IeeeCarrier.lean) and for the rationals; that C double / Lean Float ARE such a carrier is the one trusted statement, and the op `fplaws` monitors the facts on the executed values (FloatLaws.lean lists the instances: running sums of DChoose, positive row sums of Markov1, the length L, every esl_random() value drawn)",
                   "every public function of esl_randomseq.c (20), esl_msashuffle.c (6) and the esl_vec_*Shuffle / *Shuffle64 / *Reverse families of esl_vectorops.c (13) is modelled and compared byte-exactly - checked mechanically on every run against the working tree's headers (evidence: api_coverage, 44 public symbols incl. esl_rnd_Roll/DChoose/FChoose; esl_rnd_{D,F}ChooseCDF are not used by any routine of the property); alphabet constants hard-coded in the driver (K, Kp, gap characters, gap/nonresidue/missing codes) are compared with the real ESL_ALPHABET objects on every run (op `abcinfo`)",
                   "esl_rsq_SampleDirty's sampled-vector mode is modelled in binary64 only (esl_rnd_Dirichlet(NULL) = normalised -log(UniformPositive), libm log; bit-identical in the differential run); general esl_rnd_Gamma/Dirichlet with alpha != NULL are not modelled"]
    rule = ("cases = seed + 1..8 shuffler calls (+ a final generator peek); non-trivial = at least one ok output of length >= 3 that differs from its input; distinct by output trace")

    # ------------------------------------------------------------------ regenerated model parameters
    WINPARAMS = '/-! GENERATED by props/c18.py from esl_randomseq.c of the working tree on every run — do not edit.\nThe argument of `esl_rnd_Roll` in the inner loop of the two window shufflers is `j-i+d`. -/\nnamespace EaselModel.Shuffle\n/-- `esl_rsq_CShuffleWindows`: `k = i + esl_rnd_Roll(r, %s)` -/\ndef cWinD : Nat := %d\n/-- `esl_rsq_XShuffleWindows`: `k = i + esl_rnd_Roll(r, %s)` -/\ndef xWinD : Nat := %d\ntheorem cWinD_le : cWinD ≤ 1 := by decide\ntheorem xWinD_le : xWinD ≤ 1 := by decide\nend EaselModel.Shuffle\n'

    def win_params(self, ctx):
        """the argument `j-i+d` of esl_rnd_Roll in the inner loop of esl_rsq_{C,X}ShuffleWindows, read from the working tree"""
        import re, os
        src = open(os.path.join(ctx.src, "esl_randomseq.c")).read()
        out = {}
        for fn in ("esl_rsq_CShuffleWindows", "esl_rsq_XShuffleWindows"):
            m = re.search(r"\n" + fn + r"\(.*?\n}\n", src, re.S)
            if not m: raise RuntimeError("%s not found in esl_randomseq.c" % fn)
            calls = re.findall(r"esl_rnd_Roll\s*\(\s*r\s*,([^;]*?)\)\s*;", m.group(0))
            if len(calls) != 1: raise RuntimeError("%s: expected exactly one esl_rnd_Roll call, found %d" % (fn, len(calls)))
            e = re.sub(r"\s+", "", calls[0])
            d = {"j-i": 0, "j-i+1": 1, "1+j-i": 1, "j+1-i": 1, "(j-i)": 0, "(j-i)+1": 1, "(j-i+1)": 1}.get(e)
            if d is None: raise RuntimeError("%s: roll range %r is not of the form j-i+d with d in {0,1}" % (fn, e))
            out[fn] = (e, d)
        return out

    def generated(self, ctx):
        w = self.win_params(ctx)
        c, x = w["esl_rsq_CShuffleWindows"], w["esl_rsq_XShuffleWindows"]
        self._win = {"cWinD": c[1], "xWinD": x[1]}
        return {"EaselModel/Shuffle/WinParams.lean": self.WINPARAMS % (c[0], c[1], x[0], x[1])}

    # ------------------------------------------------------------------ generators
    _laws = (0, 0)      # fplaws calls, law instances evaluated on the C side (measured, reported in the evidence)
    FPLAWS_OPS = ("cmarkov0", "cmarkov1", "xmarkov0", "xmarkov1", "iid", "fiid", "xiid", "xfiid")

    def rand_len(self, rng, big=False):
        r = rng.random()
        if r < 0.30: return rng.choice([0, 1, 2, 3, 4, 5, 6, 7, 8])
        if r < 0.75: return rng.randrange(3, 40)
        if r < 0.95: return rng.randrange(40, 300)
        return rng.randrange(300, 5001) if big else rng.randrange(300, 1200)

    def rand_codes(self, rng, L, K):
        """structured sequences over codes 0..K-1"""
        r = rng.random()
        if L == 0: return []
        if r < 0.12: return [rng.randrange(K)] * L                     # a single repeated residue
        if r < 0.17 and K >= 2:                                        # dyadic composition (counts k*L/8): cumulative frequencies are exact binary fractions
            L8 = max(1, L // 8); parts = sorted(rng.sample(range(1, 8), rng.randrange(1, min(K, 4))))
            cuts = [0] + parts + [8]; lets = rng.sample(range(K), len(cuts) - 1)
            s = sum(([lets[i]] * ((cuts[i + 1] - cuts[i]) * L8) for i in range(len(lets))), [])
            s = (s + [s[-1]] * L)[:L] if L else []
            # long sorted runs make the DP shuffle's retry loop astronomically slow (each vertex must draw its single exit edge last:
            # expected passes ~ product of run lengths) - blocks stay sorted only for short inputs
            if L > 24 or rng.random() < 0.5: rng.shuffle(s)
            return s
        if r < 0.24:                                                   # unique Eulerian path: a simple path, maybe with a final self-loop run
            perm = list(range(K)); rng.shuffle(perm)
            s = perm[:L]
            if len(s) < L:
                s = s + [s[-1]] * (L - len(s)) if rng.random() < 0.5 else [s[0]] * (L - len(s)) + s
            return s
        if r < 0.34:                                                   # residue occurring only at the end (markov1_bug family)
            k = max(1, K - 1); s = [rng.randrange(k) for _ in range(L)]; s[-1] = K - 1; return s
        if r < 0.44:                                                   # two-letter periodic, few Eulerian paths
            a, b = rng.randrange(K), rng.randrange(K); return [(a, b)[i % 2] for i in range(L)]
        if r < 0.55:                                                   # skewed composition
            w = [rng.random() ** 4 for _ in range(K)]
            return rng.choices(range(K), weights=w, k=L)
        return [rng.randrange(K) for _ in range(L)]

    def rand_text(self, rng, L, alpha_only=True):
        K = rng.choice([1, 2, 3, 4, 4, 5, 20, 26, rng.randrange(1, 27)])
        letters = list(UP); rng.shuffle(letters); letters = letters[:K]
        s = bytes(letters[c] for c in self.rand_codes(rng, L, K))
        if rng.random() < 0.3:
            s = bytes(c + 32 if rng.random() < 0.5 else c for c in s)
        if not alpha_only and L and rng.random() < 0.5:
            s = bytearray(s)
            for _ in range(rng.randrange(1, 4)):
                s[rng.randrange(L)] = rng.choice(b" -.*0159@[`{~_\x80\xe9\xff")
            s = bytes(s)
        return s

    def rand_kw(self, rng, L):
        c = [1, 2, 3, L + 1, max(1, L), max(1, L - 1), max(1, L // 2), max(1, L // 3), rng.randrange(1, L + 2)]
        if L >= 4:
            c += [d for d in (2, 3, 4, 5, 7, 10, 20) if L % d == 0][:3]
        return rng.choice(c)

    def rand_p(self, rng, K, single):
        while True:
            p = [rng.choice([0.0, 0.0, rng.random(), rng.random()]) for _ in range(K)]
            if rng.random() < 0.1: p = [-0.0 if (x == 0.0 and rng.random() < 0.5) else x for x in p]      # round 6: negative zeros (p[k] == 0.0 in C; never chosen: iid_support_ieee_negzero)
            if rng.random() < 0.15:
                p = [0.0] * K; p[rng.randrange(K)] = 1.0
            if sum(p) > 0: break
        s = sum(p); p = [x / s for x in p]
        if rng.random() < 0.12:          # not normalised (the routines divide by the vector's sum themselves); the support claim holds for any p
            f = rng.choice([1e-3, 0.5, 3.0, 1e3, 1e-300 if not single else 1e-30])
            p = [x * f for x in p]
        if single: p = [f32(x) for x in p]
        if sum(p) <= 0: return self.rand_p(rng, K, single)
        return p

    def seq_op(self, rng, big):
        L = self.rand_len(rng, big)
        ip = rng.randrange(2)
        which = rng.choice(["cshuffle", "xshuffle", "cshuffledp", "cshuffledp", "xshuffledp", "xshuffledp", "ckmers", "xkmers", "cwindows", "xwindows",
                            "creverse", "xreverse", "cmarkov0", "cmarkov1", "xmarkov0", "xmarkov1", "cmarkov1", "xmarkov1"])
        if which[0] == "c":
            bad = which in ("cshuffledp", "cmarkov0", "cmarkov1") and rng.random() < 0.08
            if which in ("cshuffle", "ckmers", "cwindows", "creverse") and rng.random() < 0.4:
                hi = 256 if rng.random() < 0.3 else 128                 # any non-NUL bytes, sometimes with the high bit set (negative chars)
                s = bytes(rng.randrange(1, hi) for _ in range(L))
            else:
                s = self.rand_text(rng, L, alpha_only=not bad)
            op = "%s s=%s" % (which, hx(s))
        else:
            K = rng.choice([1, 2, 3, 4, 4, 5, 18, 20, 26, 29, rng.randrange(1, 30)])
            if L < 60 and rng.random() < 0.04: K = rng.choice([100, 128, 129, 200, 254, 255])     # large digital alphabets (ESL_DSQ is 8 bit)
            codes = self.rand_codes(rng, L, K)
            if which in ("xshuffledp", "xmarkov0", "xmarkov1"):
                if rng.random() < 0.08 and L and K < 254:
                    codes[rng.randrange(L)] = rng.choice([K, K + 1, 254])
                if rng.random() < 0.2: K = min(255, K + rng.randrange(0, 4))          # K larger than the residues used (vertices without edges); K <= 255: ESL_DSQ loop counters are 8 bit
                op = "%s s=%s K=%d" % (which, hx(codes), K)
            else:
                op = "%s s=%s" % (which, hx(codes))
        if which.endswith("kmers"): op += " k=%d" % self.rand_kw(rng, L)
        if which.endswith("windows"): op += " w=%d" % self.rand_kw(rng, L)
        return op + " ip=%d" % ip

    def iid_op(self, rng):
        which = rng.choice(["iid", "fiid", "xiid", "xfiid"])
        K = rng.choice([1, 2, 4, 20, 26, rng.randrange(1, 27)])
        L = rng.choice([0, 1, 2, rng.randrange(0, 60), rng.randrange(0, 400)])
        single = which in ("fiid", "xfiid")
        if which[0] == "x" and rng.random() < 0.2:
            return "%s p=none K=%d L=%d" % (which, K, L)
        p = self.rand_p(rng, K, single)
        ps = ",".join((fbits if single else dbits)(x) for x in p)
        if which[0] == "x": return "%s p=%s L=%d" % (which, ps, L)
        letters = list(UP + b"abcdefghijklmnopqrstuvwxyz0123456789"); rng.shuffle(letters)
        return "%s abc=%s p=%s L=%d" % (which, hx(letters[:K]), ps, L)

    def misc_op(self, rng):
        r = rng.random()
        if r < 0.55:
            return "sample flag=%d L=%d pre=%d" % (rng.choice([0, 1, 2, 3, 4, 5, 6, 7, 8, 9, 10, 11, 12, 13, rng.randrange(1, 13)]),
                                                   rng.choice([0, 1, 2, rng.randrange(0, 80), rng.randrange(0, 600)]), rng.randrange(2))
        abc = rng.choice(["dna", "amino"]); Kp = 18 if abc == "dna" else 29
        if rng.random() < 0.5:
            return "sampledirty abc=%s p=none ret=%d L=%d" % (abc, rng.randrange(2), rng.choice([0, 1, 2, rng.randrange(0, 60), rng.randrange(0, 400)]))
        p = self.rand_p(rng, Kp, False)
        return "sampledirty abc=%s p=%s L=%d" % (abc, ",".join(dbits(x) for x in p), rng.choice([0, 1, 2, rng.randrange(0, 60), rng.randrange(0, 400)]))

    def rand_msa(self, rng, dig, gapcode=None, K=4):
        nseq = rng.choice([1, 1, 2, 2, 3, 4, 5, 8, rng.randrange(1, 13)])
        alen = rng.choice([0, 1, 2, 3, rng.randrange(0, 12), rng.randrange(0, 60), rng.randrange(0, 200)])
        rows = []
        gapfrac = rng.choice([0.0, 0.1, 0.3, 0.6, 0.95])
        for i in range(nseq):
            if dig:
                Kp = 18 if K == 4 else 29     # degenerate codes K+1..Kp-3, nonresidue '*' = Kp-2, missing '~' = Kp-1
                rows.append(bytes(gapcode if rng.random() < gapfrac else rng.choice([rng.randrange(K), rng.randrange(K), rng.randrange(K + 1, Kp)]) for _ in range(alen)))
            else:
                rows.append(bytes(rng.choice(GAPS_TEXT) if rng.random() < gapfrac else rng.choice(b"ACGTUNacgtRY") for _ in range(alen)))
        if rng.random() < 0.15 and nseq > 1:   # identical columns / rows
            rows = [rows[0]] * nseq
        return rows

    def msa_op(self, rng):
        which = rng.choice(["msashuffle", "msashuffle", "bootstrap", "vshuffle", "vshuffle", "permute", "cqrna", "xqrna", "cqrna", "xqrna"])
        ip = rng.randrange(2)
        abc = rng.choice(["dna", "amino"]); K = 4 if abc == "dna" else 20
        if which in ("msashuffle", "bootstrap"):
            dig = rng.randrange(2)
            rows = self.rand_msa(rng, dig, K, K)
            if rng.random() < 0.04:
                return "%s dig=%d abc=%s rows=%s ip=0 mixed=1" % (which, dig, abc, ",".join(hx(r) for r in rows))
            return "%s dig=%d abc=%s rows=%s ip=%d" % (which, dig, abc, ",".join(hx(r) for r in rows), ip if which == "msashuffle" else 0)
        if which == "vshuffle":
            rows = self.rand_msa(rng, 1, K, K)
            extra = (" fresh=1" if rng.random() < 0.15 else "") + (" mk=1" if rng.random() < 0.3 else "")
            return "vshuffle abc=%s rows=%s%s ip=%d" % (abc, ",".join(hx(r) for r in rows), extra, ip)
        if which == "permute":
            dig = rng.randrange(2)
            rows = self.rand_msa(rng, dig, K, K)
            n = len(rows)
            def tok(i, tag): return hx(("%s%d" % (tag, i)).encode() + bytes(rng.choice(b"xyz") for _ in range(rng.randrange(0, 3))))
            names = [tok(i, "n") for i in range(n)]
            if n >= 2 and rng.random() < 0.06: names[rng.randrange(n)] = names[rng.randrange(n)]     # a duplicated name (refused by the index, eslEDUP ignored)
            parts = ["permute dig=%d abc=%s rows=%s" % (dig, abc, ",".join(hx(r) for r in rows)),
                     "names=" + ",".join(names),
                     "wgt=" + ",".join(str(rng.randrange(1, 1000)) for _ in range(n)),
                     "sqlen=" + ",".join(str(rng.randrange(1, 100000)) for _ in range(n))]
            allopt = rng.random()      # every optional per-sequence field present (10%) / all absent (10%) / independent coin flips
            for k in ("acc", "desc", "ss", "sa", "pp", "gs", "gr"):
                present = allopt < 0.1 or (allopt >= 0.2 and rng.random() < 0.5)
                sparse = k in ("ss", "sa", "pp") and rng.random() < 0.4       # parsed per-sequence markup given for some sequences only
                parts.append(k + "=" + (",".join("~" if sparse and rng.random() < 0.4 else tok(i, k) for i in range(n)) if present else "none"))
            if allopt < 0.1 or (allopt >= 0.2 and rng.random() < 0.5):
                parts.append("gs2=" + ",".join(tok(i, "g2") if rng.random() < 0.6 else "~" for i in range(n)))
            if allopt < 0.1 or (allopt >= 0.2 and rng.random() < 0.5):
                parts.append("gr2=" + ",".join(tok(i, "r2") if rng.random() < 0.6 else "~" for i in range(n)))
            if rng.random() < 0.15: parts.append("idx=0")
            return " ".join(parts)
        # qrna
        L = rng.choice([0, 1, 2, 3, rng.randrange(0, 30), rng.randrange(0, 300)])
        gf = rng.choice([0.0, 0.2, 0.5, 0.9])
        if which == "cqrna":
            pool = b"ACGUacguTNXRY*~" if rng.random() < 0.7 else bytes(range(1, 128))     # sometimes any 7-bit character (only - _ . are gaps)
            mk = lambda: bytes(rng.choice(GAPS_TEXT) if rng.random() < gf else rng.choice(pool) for _ in range(L))
            x, y = mk(), mk()
            if rng.random() < 0.05: y = y + b"A"
            return "cqrna abc=%s x=%s y=%s ip=%d" % (abc, hx(x), hx(y), rng.choice([ip, ip, 2, 3]))
        Kp = 18 if K == 4 else 29
        mk = lambda: bytes(K if rng.random() < gf else rng.choice([rng.randrange(K), rng.randrange(K + 1, Kp)]) for _ in range(L))
        x, y = mk(), mk()
        if rng.random() < 0.05: y = y + b"\x00"
        return "xqrna abc=%s x=%s y=%s ip=%d" % (abc, hx(x), hx(y), rng.choice([ip, ip, 2, 3]))

    def poke_for(self, rng, op):
        """a `poke` line placing the generator's next output on a boundary relevant to the first draw of `op`"""
        w = op.split()[0]; a = kv(op)
        n = None
        if w in ("cshuffle", "xshuffle"): n = len(unhx(a["s"]))
        elif w in ("ckmers", "xkmers"): n = len(unhx(a["s"])) // int(a["k"])
        elif w in ("msashuffle", "bootstrap"): n = len(unhx(a["rows"].split(",")[0]))
        elif w == "permute": n = len(a["rows"].split(","))
        elif w == "sample": n = {1: 62, 2: 52, 3: 26, 4: 26, 5: 10, 6: 22, 7: 33, 8: 94, 9: 6, 10: 2, 11: 95, 12: 32}.get(int(a["flag"]))
        elif w.endswith("shuffle") and "v" in a: n = 0 if a["v"] == "-" else len(a["v"].split(","))
        elif w in ("xiid", "xfiid") and a.get("p") == "none": n = int(a["K"])
        vals = [0, 1, 0xffffffff, 0xfffffffe, 0x80000000, 0x7fffffff]
        if w in self.FPLAWS_OPS or w == "sampledirty":      # esl_random() exactly on a dyadic cumulative boundary k/16 of DChoose (the `<` of the scan, rounding of sum/norm)
            vals += [k << 28 for k in range(1, 16)] * 2
        if n and n >= 2:
            f = 0xffffffff // n
            vals += [n * f, n * f - 1, n * f + 1, (n - 1) * f, (n - 1) * f - 1, f, f - 1]
            vals = [v for v in vals if 0 <= v <= 0xffffffff]
        v = rng.choice(vals)
        assert temper(untemper(v)) == v
        return "poke raw=%d" % untemper(v)

    def corpus(self, ctx):
        c = [
            # the input on which esl_rsq_XShuffleKmers moved the wrong blocks / the sentinel (fixed by fb16019)
            {"name": "xkmers-sentinel-L6K2", "ops": ["seed s=42", "xkmers s=010203040506 k=2 ip=0", "xkmers s=01020304050607 k=2 ip=0", "peek"]},
            {"name": "xkmers-LmodK0", "ops": ["seed s=%d" % s for s in (1,)] + ["xkmers s=%s k=%d ip=%d" % (hx(range(1, L + 1)), k, ip) for (L, k, ip) in ((6, 3, 0), (6, 3, 1), (8, 2, 1), (9, 3, 0), (12, 4, 0), (5, 5, 0), (5, 6, 0), (4, 1, 1))] + ["peek"]},
            {"name": "markov1-bug", "ops": ["seed s=7", "cmarkov1 s=%s ip=0" % hx(b"AAAAAAAAAB"), "xmarkov1 s=%s K=4 ip=1" % hx([0, 0, 0, 0, 0, 3]), "peek"]},
            {"name": "dp-unique-path", "ops": ["seed s=3", "cshuffledp s=%s ip=0" % hx(b"ABCDEFGHIJKLMNOPQRSTUVWXYZ"), "cshuffledp s=%s ip=1" % hx(b"aaaaaaab"),
                                               "xshuffledp s=%s K=5 ip=0" % hx([0, 1, 2, 3, 4]), "xshuffledp s=%s K=2 ip=0" % hx([0, 0, 0]), "cshuffledp s=%s ip=0" % hx(b"ABA"), "peek"]},
            {"name": "empty-and-short", "ops": ["seed s=1"] + ["%s s=- ip=%d" % (o, ip) for o in ("cshuffle", "xshuffle", "cshuffledp", "creverse", "xreverse", "cmarkov0", "cmarkov1") for ip in (0, 1)]
                                               + ["ckmers s=- k=1 ip=0", "xkmers s=- k=3 ip=0", "cwindows s=- w=1 ip=0", "xwindows s=- w=2 ip=1", "xshuffledp s=- K=4 ip=0", "xmarkov0 s=- K=4 ip=0", "xmarkov1 s=- K=4 ip=0", "peek"]},
            {"name": "dchoose-roll-0-and-max", "ops": ["seed s=5", "poke raw=%d" % untemper(0), "xiid p=%s L=3" % ",".join(dbits(x) for x in (0.0, 0.0, 0.5, 0.5, 0.0)),
                                                       "poke raw=%d" % untemper(0xffffffff), "xiid p=%s L=3" % ",".join(dbits(x) for x in (0.0, 0.25, 0.75, 0.0)),
                                                       "poke raw=%d" % untemper(0), "cmarkov0 s=%s ip=0" % hx(b"ZZZYZ"), "poke raw=%d" % untemper(0), "cmarkov1 s=%s ip=0" % hx(b"ZZZYZ"),
                                                       "poke raw=%d" % untemper(0), "fiid abc=%s p=%s L=4" % (hx(b"ab"), ",".join(fbits(x) for x in (0.0, 1.0))), "peek"]},
            {"name": "roll-rejection-boundary", "ops": ["seed s=9"] + sum([["poke raw=%d" % untemper(v), "cshuffle s=%s ip=0" % hx(b"ABCDEFG")] for v in
                                                        (7 * (0xffffffff // 7), 7 * (0xffffffff // 7) - 1, 0xffffffff, 0)], []) + ["peek"]},
            {"name": "cwindows-w2-w3-several-seeds", "ops": sum([["seed s=%d" % sd, "cwindows s=%s w=2 ip=0" % hx(b"ABCDEFGHIJ"), "cwindows s=%s w=3 ip=1" % hx(b"ABCDEFGHIJ"),
                                                                "xwindows s=%s w=2 ip=0" % hx(range(10)), "xwindows s=%s w=3 ip=1" % hx(range(10))] for sd in (1, 2, 3, 7, 99)], []) + ["peek"]},
            {"name": "roll64-rejection-boundary", "ops": ["seed64 s=11"] + sum([["poke64 raw=%d" % untemper64(v), "ishuffle64 v=1,2,3,4,5,6,7"] for v in
                                                          (7 * (M64 // 7), 7 * (M64 // 7) - 1, M64, 0, 6 * (M64 // 7) - 1, 6 * (M64 // 7))], []) + ["lshuffle64 v=-", "dshuffle64 v=5", "fshuffle64 v=1,2", "peek64"]},
            {"name": "fplaws-binary64-facts", "ops": ["seed s=17",
                "fplaws of=xiid p=%s L=6" % ",".join(dbits(x) for x in (0.0, 5e-324, 1.0, 0.0)), "xiid p=%s L=6" % ",".join(dbits(x) for x in (0.0, 5e-324, 1.0, 0.0)),
                "fplaws of=fiid abc=%s p=%s L=4" % (hx(b"abc"), ",".join(fbits(x) for x in (0.0, 1.0, 0.0))), "fiid abc=%s p=%s L=4" % (hx(b"abc"), ",".join(fbits(x) for x in (0.0, 1.0, 0.0))),
                "fplaws of=cmarkov1 s=%s ip=0" % hx(b"AAAAAAAAAB"), "cmarkov1 s=%s ip=0" % hx(b"AAAAAAAAAB"),
                "fplaws of=xmarkov1 s=%s K=5 ip=0" % hx([0, 1, 2, 3, 4, 4, 4]), "xmarkov1 s=%s K=5 ip=0" % hx([0, 1, 2, 3, 4, 4, 4]),
                "fplaws of=cmarkov0 s=%s ip=0" % hx(b"ZZZYZ"), "cmarkov0 s=%s ip=0" % hx(b"ZZZYZ"),
                "fplaws of=xmarkov0 s=- K=4 ip=0", "fplaws of=cmarkov0 s=%s ip=0" % hx(b"A1"), "fplaws of=xmarkov1 s=0001 K=4 ip=0", "fplaws of=xiid p=none K=4 L=3", "peek"]},
            # b700765: no K-byte scratch word when there are fewer than two K-mers (k = INT_MAX used to request 2 GB)
            {"name": "kmers-huge-k", "ops": ["seed s=4", "ckmers s=%s k=2147483647 ip=0" % hx(b"ACGTACGT"), "xkmers s=%s k=2147483647 ip=1" % hx([0, 1, 2, 3]),
                                             "ckmers s=- k=2147483647 ip=1", "xkmers s=%s k=1073741824 ip=0" % hx([3, 2, 1]), "peek"]},
            # characters with the high bit set (negative chars) are not alphabetic: eslEINVAL from the three routines that validate, generator untouched
            {"name": "highbit-dp-markov", "ops": ["seed s=6", "cshuffledp s=c3a9 ip=0", "cmarkov0 s=41e9 ip=0", "cmarkov1 s=414243ff ip=1", "cshuffledp s=41428043 ip=1",
                                                  "cmarkov1 s=80 ip=0", "cmarkov0 s=ff41 ip=1", "peek"]},
            {"name": "zero-roll-witness", "ops": ["seed s=12", "poke raw=0 n=620", "cmarkov1 s=%s ip=0" % hx(b"ZYZZYXZ"), "peek"]},
            {"name": "alphabet-constants", "ops": ["abcinfo abc=dna", "abcinfo abc=amino"]},
            {"name": "same-seed-inplace", "ops": ["seed s=99", "cshuffle s=%s ip=0" % hx(b"ACGTACGTAC"), "seed s=99", "cshuffle s=%s ip=1" % hx(b"ACGTACGTAC"), "peek"]},
        ]
        return [dict(x, sticky=1) for x in c]

    def cases(self, ctx):
        rng = ctx.rng
        n = 10000 if ctx.tier == "quick" else 120000
        import os
        if os.environ.get("C18_N"): n = int(os.environ["C18_N"])       # used only by the mutation-sweep script (first, cheap pass)
        out = []
        for c in range(n):
            seed = rng.choice([1, 2, 3, 42, 0x7fffffff, 0x80000000, 0xffffffff, rng.randrange(1, 1 << 32), rng.randrange(1, 1 << 32), rng.randrange(1, 1 << 32)])
            fast = rng.random() < 0.08            # the legacy LCG generator (esl_randomness_CreateFast)
            ops = ["%s s=%d" % ("seedfast" if fast else "seed", seed)]
            big = (c % 25 == 0) or ctx.tier != "quick"
            t = rng.random()
            if t < 0.12:
                # determinism / in-place pair: same seed, same call, ip=0 then ip=1
                o = self.seq_op(rng, big) if rng.random() < 0.7 else self.msa_op(rng)
                o = o.replace(" fresh=1", "")          # a fresh <shuf> keeps its 0x77 in gap cells: not comparable with the in-place result
                base = o.rsplit(" ip=", 1)[0] if " ip=" in o else o
                if o.startswith(("bootstrap", "permute")):
                    ops += [o, ops[0], o]
                else:
                    ops += [base + " ip=0", ops[0], base + " ip=1"]
            else:
                for _ in range(rng.randrange(1, 7)):
                    r = rng.random()
                    if r < 0.60: o = self.seq_op(rng, big)
                    elif r < 0.73: o = self.iid_op(rng)
                    elif r < 0.77:
                        v = [rng.randrange(-50, 50) for _ in range(rng.choice([0, 1, 2, 3, rng.randrange(0, 40)]))]
                        o = "%s v=%s ip=%d" % (rng.choice(["ishuffle", "ireverse", "dshuffle", "fshuffle", "lshuffle", "dreverse", "freverse", "lreverse", "vcreverse"]),
                                               ",".join(map(str, v)) if v else "-", rng.randrange(2))
                    else: o = self.msa_op(rng)
                    if rng.random() < 0.06: o = self.misc_op(rng)
                    if not fast and rng.random() < 0.12: ops.append(self.poke_for(rng, o))
                    if o.split()[0] in self.FPLAWS_OPS and rng.random() < 0.4:
                        ops.append("fplaws of=" + o)       # binary64 law instances on the values the next op is about to encounter
                    ops.append(o)
                if rng.random() < 0.06:      # 64-bit generator and the Shuffle64 family
                    ops.append("seed64 s=%d" % rng.choice([1, 2, 42, 2**63, 2**64 - 1, rng.randrange(1, 1 << 64)]))
                    for _ in range(rng.randrange(1, 4)):
                        v = [rng.randrange(-50, 50) for _ in range(rng.choice([0, 1, 2, 3, rng.randrange(0, 60)]))]
                        if len(v) >= 2 and rng.random() < 0.4:        # the first draw esl_rand64_Roll(n) on / next to the rejection boundary
                            n = len(v); f = M64 // n
                            pv = rng.choice([0, 1, M64, M64 - 1, 1 << 63, n * f, n * f - 1, n * f + 1, (n - 1) * f, (n - 1) * f - 1, f, f - 1])
                            pv = min(max(pv, 0), M64)
                            assert temper64(untemper64(pv)) == pv
                            ops.append("poke64 raw=%d" % untemper64(pv))
                        ops.append("%sshuffle64 v=%s" % (rng.choice("dfil"), ",".join(map(str, v)) if v else "-"))
                    ops.append("peek64")
            ops.append("peek")
            out.append({"name": "gen%d" % c, "ops": ops, "sticky": 1})
        out += self.sweep(ctx)
        return out

    def sweep(self, ctx):
        """systematic part: every length 0..Lmax with every k and w in 1..L+1 (text and digital, alternating in place),
        the DP shuffle and both Markov resamplers on every length, and the exact upper limit L = 5000"""
        rng = ctx.rng
        Lmax = 24 if ctx.tier == "quick" else 64
        out = []
        for L in range(0, Lmax + 1):
            K = rng.choice([1, 2, 3, 4, 20, 26])
            codes = self.rand_codes(rng, L, K)
            txt = bytes(UP[c] for c in codes)
            ops = ["seed s=%d" % rng.randrange(1, 1 << 32)]
            for k in range(1, L + 2):
                # round 6: separate AND in-place storage at every (L, k) / (L, w), k and w through L/2, L/2+1, L, L+1
                for ip in (0, 1):
                    ops.append("ckmers s=%s k=%d ip=%d" % (hx(txt), k, ip))
                    ops.append("xkmers s=%s k=%d ip=%d" % (hx(codes), k, ip))
                    ops.append("cwindows s=%s w=%d ip=%d" % (hx(txt), k, ip))
                    ops.append("xwindows s=%s w=%d ip=%d" % (hx(codes), k, ip))
            for ip in (0, 1):
                for o in ("cshuffle", "cshuffledp", "creverse", "cmarkov0", "cmarkov1"):
                    ops.append("%s s=%s ip=%d" % (o, hx(txt), ip))
                ops.append("xshuffle s=%s ip=%d" % (hx(codes), ip)); ops.append("xreverse s=%s ip=%d" % (hx(codes), ip))
                for o in ("xshuffledp", "xmarkov0", "xmarkov1"):
                    ops.append("%s s=%s K=%d ip=%d" % (o, hx(codes), K, ip))
            ops.append("peek")
            out.append({"name": "sweep-L%d" % L, "ops": ops, "sticky": 1})
        # degenerate sizes, every routine, separate output and in place
        for L in range(0, 4):
            codes = [rng.randrange(3) for _ in range(L)]; txt = bytes(UP[c] for c in codes)
            ops = ["seed s=%d" % rng.randrange(1, 1 << 32)]
            for ip in (0, 1):
                for o in ("cshuffle", "cshuffledp", "creverse", "cmarkov0", "cmarkov1"): ops.append("%s s=%s ip=%d" % (o, hx(txt), ip))
                for o in ("xshuffle", "xreverse"): ops.append("%s s=%s ip=%d" % (o, hx(codes), ip))
                for o in ("xshuffledp", "xmarkov0", "xmarkov1"): ops.append("%s s=%s K=3 ip=%d" % (o, hx(codes), ip))
                for k in range(1, L + 2):
                    ops += ["ckmers s=%s k=%d ip=%d" % (hx(txt), k, ip), "xkmers s=%s k=%d ip=%d" % (hx(codes), k, ip),
                            "cwindows s=%s w=%d ip=%d" % (hx(txt), k, ip), "xwindows s=%s w=%d ip=%d" % (hx(codes), k, ip)]
            ops += ["iid abc=%s p=%s L=%d" % (hx(b"ab"), ",".join(dbits(x) for x in (0.5, 0.5)), L), "xiid p=none K=4 L=%d" % L,
                    "xfiid p=%s L=%d" % (",".join(fbits(x) for x in (0.25, 0.75)), L), "peek"]
            out.append({"name": "tiny-L%d" % L, "ops": ops, "sticky": 1})
        for alen in range(0, 4):
            for nseq in range(1, 4):
                ops = ["seed s=%d" % rng.randrange(1, 1 << 32)]
                trow = [bytes(rng.choice(b"AC-.") for _ in range(alen)) for _ in range(nseq)]
                drow = [bytes(rng.choice([0, 1, 4, 4, 16, 17]) for _ in range(alen)) for _ in range(nseq)]
                for ip in (0, 1):
                    ops.append("msashuffle dig=0 abc=dna rows=%s ip=%d" % (",".join(hx(r) for r in trow), ip))
                    ops.append("msashuffle dig=1 abc=dna rows=%s ip=%d" % (",".join(hx(r) for r in drow), ip))
                    ops.append("vshuffle abc=dna rows=%s ip=%d" % (",".join(hx(r) for r in drow), ip))
                    if nseq >= 2 and alen >= 1:
                        for m in (ip, ip + 2):      # 0 separate, 1 both in place, 2 only xs == x, 3 only ys == y
                            ops.append("cqrna abc=dna x=%s y=%s ip=%d" % (hx(trow[0]), hx(trow[1]), m))
                            ops.append("xqrna abc=dna x=%s y=%s ip=%d" % (hx(drow[0]), hx(drow[1]), m))
                ops.append("bootstrap dig=0 abc=dna rows=%s ip=0" % ",".join(hx(r) for r in trow))
                ops.append("bootstrap dig=1 abc=dna rows=%s ip=0" % ",".join(hx(r) for r in drow))
                ops.append("permute dig=0 abc=dna rows=%s names=%s wgt=%s sqlen=%s acc=none desc=none ss=none sa=none pp=none gs=none gr=none" % (
                    ",".join(hx(r) for r in trow), ",".join(hx(b"n%d" % i) for i in range(nseq)), ",".join(str(i + 1) for i in range(nseq)), ",".join(str(10 + i) for i in range(nseq))))
                ops.append("peek")
                out.append({"name": "tiny-msa-%dx%d" % (nseq, alen), "ops": ops, "sticky": 1})
        # vectors of 0, 1, 2, 3 entries through every esl_vec_* shuffle / reverse, separate and in place, 32- and 64-bit generator
        for n in range(0, 4):
            v = ",".join(str(rng.randrange(-9, 10)) for _ in range(n)) or "-"
            ops = ["seed s=%d" % rng.randrange(1, 1 << 32)]
            for ip in (0, 1):
                for o in ("ishuffle", "dshuffle", "fshuffle", "lshuffle", "ireverse", "dreverse", "freverse", "lreverse", "vcreverse"):
                    ops.append("%s v=%s ip=%d" % (o, v, ip))
            ops.append("seed64 s=%d" % rng.randrange(1, 1 << 64))
            ops += ["%sshuffle64 v=%s" % (t, v) for t in "dfil"] + ["peek64", "peek"]
            out.append({"name": "tiny-vec-%d" % n, "ops": ops, "sticky": 1})
        # alignment shufflers at the allocation-size coincidences of ESL_MSA (16/17 rows) and on a single long column / single row
        for (nseq, alen) in ((1, 40), (40, 1), (16, 5), (17, 5), (1, 1), (2, 1), (1, 2)):
            ops = ["seed s=%d" % rng.randrange(1, 1 << 32)]
            trow = [bytes(rng.choice(b"ACGU-.") for _ in range(alen)) for _ in range(nseq)]
            drow = [bytes(rng.choice([0, 1, 2, 3, 4, 4, 15, 16, 17]) for _ in range(alen)) for _ in range(nseq)]
            for ip in (0, 1):
                ops.append("msashuffle dig=0 abc=dna rows=%s ip=%d" % (",".join(hx(r) for r in trow), ip))
                ops.append("msashuffle dig=1 abc=dna rows=%s ip=%d" % (",".join(hx(r) for r in drow), ip))
                ops.append("vshuffle abc=dna rows=%s ip=%d" % (",".join(hx(r) for r in drow), ip))
            ops.append("bootstrap dig=0 abc=dna rows=%s ip=0" % ",".join(hx(r) for r in trow))
            ops.append("bootstrap dig=1 abc=dna rows=%s ip=0" % ",".join(hx(r) for r in drow))
            ops.append("permute dig=1 abc=dna rows=%s names=%s wgt=%s sqlen=%s acc=none desc=none ss=none sa=none pp=none gs=none gr=none" % (
                ",".join(hx(r) for r in drow), ",".join(hx(b"n%d" % i) for i in range(nseq)), ",".join(str(i + 1) for i in range(nseq)), ",".join(str(10 + i) for i in range(nseq))))
            ops.append("peek")
            out.append({"name": "msa-%dx%d" % (nseq, alen), "ops": ops, "sticky": 1})
        # larger shapes than the random part reaches: counters that are 8 bit or allocations by 64/128/256 would show here
        for (nseq, alen) in ((70, 300), (129, 3), (3, 1025)):
            ops = ["seed s=%d" % rng.randrange(1, 1 << 32)]
            trow = [bytes(rng.choice(b"ACGU-.acgu") for _ in range(alen)) for _ in range(nseq)]
            drow = [bytes(rng.choice([0, 1, 2, 3, 4, 4, 15, 16, 17]) for _ in range(alen)) for _ in range(nseq)]
            ops.append("msashuffle dig=0 abc=dna rows=%s ip=1" % ",".join(hx(r) for r in trow))
            ops.append("msashuffle dig=1 abc=dna rows=%s ip=0" % ",".join(hx(r) for r in drow))
            ops.append("vshuffle abc=dna rows=%s ip=0" % ",".join(hx(r) for r in drow))
            ops.append("vshuffle abc=dna rows=%s ip=1" % ",".join(hx(r) for r in drow))
            ops.append("bootstrap dig=0 abc=dna rows=%s ip=0" % ",".join(hx(r) for r in trow))
            ops.append("bootstrap dig=1 abc=dna rows=%s ip=0" % ",".join(hx(r) for r in drow))
            ops.append("permute dig=0 abc=dna rows=%s names=%s wgt=%s sqlen=%s acc=none desc=none ss=none sa=none pp=none gs=none gr=none" % (
                ",".join(hx(r) for r in trow), ",".join(hx(b"n%d" % i) for i in range(nseq)), ",".join(str(i + 1) for i in range(nseq)), ",".join(str(10 + i) for i in range(nseq))))
            ops.append("peek")
            out.append({"name": "msa-large-%dx%d" % (nseq, alen), "ops": ops, "sticky": 1})
        for L in (257, 1500):
            x = bytes(rng.choice(b"ACGU--..") for _ in range(L)); y = bytes(rng.choice(b"ACGU--__") for _ in range(L))
            dx = bytes(rng.choice([0, 1, 2, 3, 4, 4]) for _ in range(L)); dy = bytes(rng.choice([0, 1, 2, 3, 4, 16]) for _ in range(L))
            v = ",".join(str(rng.randrange(-99, 100)) for _ in range(L))
            ops = ["seed s=%d" % rng.randrange(1, 1 << 32)] + ["cqrna abc=dna x=%s y=%s ip=%d" % (hx(x), hx(y), m) for m in (0, 1, 2, 3)] + \
                  ["xqrna abc=dna x=%s y=%s ip=%d" % (hx(dx), hx(dy), m) for m in (0, 1, 2, 3)] + \
                  ["%s v=%s ip=%d" % (o, v, L & 1) for o in ("ishuffle", "dshuffle", "fshuffle", "lshuffle", "ireverse", "dreverse", "freverse", "lreverse")] + \
                  ["iid abc=%s p=%s L=%d" % (hx(b"ACGT"), ",".join(dbits(q) for q in (0.25, 0.0, 0.5, 0.25)), 3 * L), "xiid p=none K=20 L=%d" % (3 * L),
                   "xfiid p=%s L=%d" % (",".join(fbits(q) for q in (0.5, 0.25, 0.25)), 3 * L), "sample flag=1 L=%d pre=0" % (3 * L),
                   "sampledirty abc=amino p=none ret=1 L=%d" % (2 * L), "seed64 s=%d" % rng.randrange(1, 1 << 64)] + \
                  ["%sshuffle64 v=%s" % (t, v) for t in "dfil"] + ["peek64", "peek"]
            out.append({"name": "large-L%d" % L, "ops": ops, "sticky": 1})
        out += self.zero_roll_cases(ctx)
        # the upper limit of the quantifier
        for L in ((5000,) if ctx.tier == "quick" else (4999, 5000)):
            K = rng.choice([2, 4, 20, 26])
            codes = [rng.randrange(K) for _ in range(L)]
            txt = bytes(UP[c] for c in codes)
            ops = ["seed s=%d" % rng.randrange(1, 1 << 32), "cshuffle s=%s ip=0" % hx(txt), "cshuffledp s=%s ip=1" % hx(txt), "xshuffledp s=%s K=%d ip=0" % (hx(codes), K),
                   "ckmers s=%s k=%d ip=1" % (hx(txt), rng.choice([1, 2, 3, 7, 2500, 5000, 5001])), "xkmers s=%s k=%d ip=0" % (hx(codes), rng.choice([1, 3, 8, 4999, 5000, 5001])),
                   "cwindows s=%s w=%d ip=0" % (hx(txt), rng.choice([1, 2, 10, 20, 4999, 5000, 5001])), "xwindows s=%s w=%d ip=1" % (hx(codes), rng.choice([1, 3, 10, 5000, 5001])),
                   "creverse s=%s ip=1" % hx(txt), "xreverse s=%s ip=0" % hx(codes), "cmarkov0 s=%s ip=0" % hx(txt), "cmarkov1 s=%s ip=1" % hx(txt),
                   "xmarkov0 s=%s K=%d ip=1" % (hx(codes), K), "xmarkov1 s=%s K=%d ip=0" % (hx(codes), K), "peek"]
            out.append({"name": "limit-L%d" % L, "ops": ops, "sticky": 1})
        return out

    def zero_roll_cases(self, ctx):
        """round 6b: esl_random() == 0.0 exactly (raw word 0) at EVERY draw of one call - `poke raw=0 n=620` right after the seed op
        fills the next 620 words of the fresh table - with leading zero-probability entries: the `<` of the DChoose/FChoose scan
        (a `<=` would return index 0). One op per case; the exact expected output is computed by `zero_roll_expected`."""
        rng = ctx.rng; out = []
        nrep = 6 if ctx.tier == "quick" else 30
        for rep in range(nrep):
            for which in ("iid", "fiid", "xiid", "xfiid", "sampledirty", "cmarkov0", "xmarkov0", "cmarkov1", "xmarkov1"):
                L = rng.choice([1, 2, 3, 4, 7, rng.randrange(3, 60), rng.randrange(60, 600)])
                if which in ("iid", "fiid", "xiid", "xfiid", "sampledirty"):
                    single = which in ("fiid", "xfiid")
                    K = 18 if which == "sampledirty" else rng.choice([2, 3, 4, 20, 26])
                    nz = rng.randrange(1, K)                        # leading zeros (sometimes -0.0), first positive entry at nz
                    p = [rng.choice([0.0, 0.0, -0.0]) for _ in range(nz)] + [rng.random() + 1e-3] + [rng.choice([0.0, rng.random()]) for _ in range(K - nz - 1)]
                    t = sum(p); p = [x / t for x in p]
                    if single: p = [f32(x) for x in p]
                    ps = ",".join((fbits if single else dbits)(x) for x in p)
                    if which == "sampledirty": op = "sampledirty abc=dna p=%s L=%d" % (ps, L)
                    elif which[0] == "x": op = "%s p=%s L=%d" % (which, ps, L)
                    else:
                        letters = list(UP); rng.shuffle(letters)
                        op = "%s abc=%s p=%s L=%d" % (which, hx(letters[:K]), ps, L)
                else:
                    K = rng.choice([4, 20, 26])
                    lo = rng.randrange(1, K)                        # only residues lo..K-1 occur: lo leading zero counts
                    codes = [rng.randrange(lo, K) for _ in range(L)]
                    if which[0] == "c": op = "%s s=%s ip=%d" % (which, hx(bytes(UP[c] if rng.random() < 0.7 else UP[c] + 32 for c in codes)), rng.randrange(2))
                    else: op = "%s s=%s K=%d ip=%d" % (which, hx(codes), K + rng.choice([0, 0, 3]), rng.randrange(2))
                out.append({"name": "zero-roll-%s-%d" % (which, rep), "ops": ["seed s=%d" % rng.randrange(1, 1 << 32), "poke raw=0 n=620", op, "peek"], "sticky": 2})
        return out

    def zero_roll_expected(self, op):
        """the output of one IID / Markov call when every esl_random() is 0.0: DChoose returns the first entry with a positive running sum"""
        w = op.split()[0]; a = kv(op)
        if w in ("iid", "fiid", "xiid", "xfiid", "sampledirty"):
            L = int(a["L"])
            if w in ("fiid", "xfiid"): p = [struct.unpack("<f", struct.pack("<I", int(t, 16)))[0] for t in a["p"].split(",")]
            else: p = [struct.unpack("<d", struct.pack("<Q", int(t, 16)))[0] for t in a["p"].split(",")]
            k = next(i for i, x in enumerate(p) if x > 0.0)
            if w in ("iid", "fiid"): return "ok " + hx(bytes([unhx(a["abc"])[k]]) * L)
            return "ok " + hx(b"\xff" + bytes([k]) * L + b"\xff")
        s = unhx(a["s"]); text = w[0] == "c"
        codes = [(c & 0xdf) - 65 for c in s] if text else list(s)
        L = len(codes)
        enc = (lambda o: "ok " + hx(bytes(65 + c for c in o))) if text else (lambda o: "ok " + hx(b"\xff" + bytes(o) + b"\xff"))
        if w.endswith("markov0"): return enc([min(codes)] * L)
        if L <= 2: return "ok " + (hx(s) if text else hx(b"\xff" + bytes(s) + b"\xff"))
        succ = {}
        for x, y in list(zip(codes, codes[1:])) + [(codes[-1], codes[0])]: succ[x] = min(succ.get(x, y), y)
        o = [min(codes)]
        while len(o) < L: o.append(succ[o[-1]])
        return enc(o)

    def canonical(self, line):
        if line.startswith(("fault", "fatal")): return "fault"
        return line

    def nontrivial(self, case, out):
        for op, l in zip(case["ops"], out):
            if l.startswith("ok ") and "=" in op:
                a = kv(op)
                src = a.get("s") or a.get("rows") or a.get("x")
                if src and len(src) >= 6 and src not in l: return True
        return False

    # ------------------------------------------------------------------ monitors: the property on the C output
    def monitor(self, ctx, case, out):
        ops = case["ops"]
        if case.get("name", "").startswith("zero-roll") and len(out) >= 3 and not out[2].startswith(("fault", "atexit")):
            exp = self.zero_roll_expected(ops[2])
            if out[2] != exp:
                return Failure("monitor", "every esl_random() forced to 0.0: the chooser must return the first entry of non-zero probability at every draw; expected %s, got %s [op %s]" % (exp[:80], out[2][:80], ops[2][:160]))
        last_by_call = {}
        cur_seed = None
        for idx, (op, l) in enumerate(zip(ops, out)):
            w = op.split()[0]; a = kv(op)
            if l.startswith(("fault", "atexit")): continue
            if w in ("seed", "seedfast"):
                cur_seed = w + a.get("s", ""); continue
            try:
                f = self.check_one(w, a, l)
            except Exception as e:   # malformed output line
                f = "unparsable result %r (%r)" % (l[:80], e)
            if f: return Failure("monitor", "%s: %s [op %d: %s]" % (w, f, idx, op[:160]))
            # determinism, also in place: same seed + same call (ip aside) right after a seed op => same output
            if idx > 0 and ops[idx - 1].startswith("seed") and w != "peek":
                key = (cur_seed, " ".join(x for x in op.split() if not x.startswith("ip=")))
                if key in last_by_call and last_by_call[key] != l:
                    return Failure("monitor", "%s: same seed and input, different output (in-place vs separate or repeated call): %r vs %r [op %s]" % (w, last_by_call[key][:80], l[:80], op[:160]))
                last_by_call[key] = l
        return None

    def check_one(self, w, a, l):
        if w == "peek": return None if l.startswith("ok ") else "peek failed"
        if w == "poke": return None if l == "ok" else "poke failed"
        if w in ("seed64", "peek64", "poke64"): return None if l.startswith("ok") else "%s failed" % w
        if w.endswith("shuffle64"):
            v = [] if a["v"] == "-" else [int(x) for x in a["v"].split(",")]
            if not l.startswith("ok "): return "returned %s" % l
            o = [] if l[3:] == "-" else [int(x) for x in l[3:].split(",")]
            return None if sorted(v) == sorted(o) else "not a permutation"
        if w == "abcinfo": return None if l.startswith("ok K=") else "returned %s" % l
        if w == "fplaws":
            if l == "einval": return None
            if not l.startswith("ok checked="): return "returned %s" % l
            b = kv(l)
            self._laws = (self._laws[0] + 1, self._laws[1] + int(b.get("checked", "0")))
            return None if b.get("bad") == "0" else "binary64 does not satisfy a law instance the Markov/IID support theorems rely on: %s" % l
        if w == "sample":
            fl, L = int(a["flag"]), int(a["L"])
            if not 1 <= fl <= 12: return None if l == "einval" else "invalid class flag must give einval, got %s" % l
            if not l.startswith("ok "): return "returned %s" % l
            o = unhx(l[3:])
            if len(o) != L: return "length %d != %d" % (len(o), L)
            dig = lambda x: 48 <= x <= 57
            upp = lambda x: 65 <= x <= 90
            low = lambda x: 97 <= x <= 122
            cls = {1: lambda x: dig(x) or upp(x) or low(x), 2: lambda x: upp(x) or low(x), 3: low, 4: upp, 5: dig,
                   6: lambda x: dig(x) or 65 <= x <= 70 or 97 <= x <= 102, 7: lambda x: x <= 31 or x == 127, 8: lambda x: 33 <= x <= 126,
                   9: lambda x: 9 <= x <= 13 or x == 32, 10: lambda x: x in (9, 32), 11: lambda x: 32 <= x <= 126,
                   12: lambda x: 33 <= x <= 126 and not (dig(x) or upp(x) or low(x))}[fl]
            bad = [c for c in o if c >= 128 or not cls(c)]
            return "character %d is not in the requested class" % bad[0] if bad else None
        if w == "sampledirty":
            L = int(a["L"])
            if not l.startswith("ok "): return "returned %s" % l
            o = unhx(l[3:].split()[0])
            if len(o) != L + 2 or o[0] != 255 or o[-1] != 255: return "bad length/sentinels"
            if a["p"] == "none":
                K, Kp = (4, 18) if a.get("abc", "dna") == "dna" else (20, 29)
                bad = [c for c in o[1:-1] if c in (K, Kp - 2, Kp - 1) or c >= Kp]
                if bad: return "sampled vector mode emitted gap/nonresidue/missing code %d" % bad[0]
                if " p=" in l:
                    p = [struct.unpack("<d", struct.pack("<Q", int(t, 16)))[0] for t in l.split(" p=")[1].split(",")]
                    if len(p) != Kp or p[K] != 0.0 or p[Kp - 2] != 0.0 or p[Kp - 1] != 0.0 or abs(sum(p) - 1.0) > 1e-9 or min(p) < 0: return "returned probability vector is malformed"
                return None
            p = [struct.unpack("<d", struct.pack("<Q", int(t, 16)))[0] for t in a["p"].split(",")]
            bad = [c for c in o[1:-1] if c >= len(p) or p[c] == 0.0]
            return "emitted symbol %d of zero probability" % bad[0] if bad else None
        if w in ("cshuffle", "ckmers", "cwindows", "creverse", "cshuffledp", "cmarkov0", "cmarkov1"):
            s = unhx(a["s"]); L = len(s)
            if w in ("cshuffledp", "cmarkov0", "cmarkov1") and not all(is_alpha(c) for c in s):
                return None if l == "einval" else "non-alphabetic input must give einval, got %s" % l
            if not l.startswith("ok "): return "returned %s" % l
            o = unhx(l[3:])
            return self.check_seq(w[1:], s, o, a, text=True)
        if w in ("xshuffle", "xkmers", "xwindows", "xreverse", "xshuffledp", "xmarkov0", "xmarkov1"):
            s = unhx(a["s"]); L = len(s)
            if w in ("xshuffledp", "xmarkov0", "xmarkov1") and any(c >= int(a["K"]) for c in s):
                return None if l == "einval" else "residue >= K must give einval, got %s" % l
            if not l.startswith("ok "): return "returned %s" % l
            o = unhx(l[3:])
            if len(o) != L + 2: return "output array has %d bytes, expected L+2=%d" % (len(o), L + 2)
            if o[0] != 255 or o[-1] != 255: return "sentinel bytes damaged: %d..%d" % (o[0], o[-1])
            return self.check_seq(w[1:], s, o[1:-1], a, text=False)
        if w in ("iid", "fiid", "xiid", "xfiid"):
            L = int(a["L"])
            if not l.startswith("ok "): return "returned %s" % l
            o = unhx(l[3:])
            if w[0] == "x" or w[1] == "x" and False: pass
            isx = w in ("xiid", "xfiid")
            if isx:
                if len(o) != L + 2 or o[0] != 255 or o[-1] != 255: return "bad length/sentinels"
                o = o[1:-1]
            if len(o) != L: return "length %d != %d" % (len(o), L)
            if a["p"] == "none":
                K = int(a["K"]); return None if all(c < K for c in o) else "uniform symbol out of range"
            if w in ("fiid", "xfiid"): p = [struct.unpack("<f", struct.pack("<I", int(t, 16)))[0] for t in a["p"].split(",")]
            else: p = [struct.unpack("<d", struct.pack("<Q", int(t, 16)))[0] for t in a["p"].split(",")]
            if isx: allowed = {i for i, x in enumerate(p) if x != 0.0}
            else:
                abc = unhx(a["abc"]); allowed = {abc[i] for i, x in enumerate(p) if x != 0.0}
            bad = [c for c in o if c not in allowed]
            return "emitted symbol %r of zero probability" % bad[0] if bad else None
        if w in ("ishuffle", "ireverse", "dshuffle", "fshuffle", "lshuffle", "dreverse", "freverse", "lreverse", "vcreverse"):
            v = [] if a["v"] == "-" else [int(x) for x in a["v"].split(",")]
            o = [] if l[3:] == "-" else [int(x) for x in l[3:].split(",")]
            if w.endswith("shuffle"): return None if sorted(v) == sorted(o) else "not a permutation"
            return None if o == v[::-1] else "not the mirror image"
        if w in ("msashuffle", "bootstrap", "vshuffle"):
            if a.get("mixed") == "1": return None if l == "einval" else "text/digital mode mismatch must give einval, got %s" % l
            if not l.startswith("ok "): return "returned %s" % l
            dig = (a.get("dig") == "1") or w == "vshuffle"
            rows = [unhx(x) for x in a["rows"].split(",")]; alen = len(rows[0])
            orows = [unhx(x) for x in l[3:].split(",")]
            if len(orows) != len(rows): return "row count changed"
            fresh = w == "vshuffle" and a.get("fresh") == "1" and a.get("ip") == "0"
            if dig and fresh:      # <shuf> was created with 0x77 everywhere: VShuffle writes the non-gap cells only
                if any(len(r) != alen + 2 for r in orows): return "row length changed"
                orows = [r[1:-1] for r in orows]
            elif dig:
                if any(len(r) != alen + 2 or r[0] != 255 or r[-1] != 255 for r in orows): return "row length/sentinels damaged"
                orows = [r[1:-1] for r in orows]
            if any(len(r) != alen for r in orows): return "row length changed"
            cols = [tuple(r[c] for r in rows) for c in range(alen)]
            ocols = [tuple(r[c] for r in orows) for c in range(alen)]
            if w == "msashuffle":
                return None if Counter(cols) == Counter(ocols) else "output columns are not the input columns each exactly once"
            if w == "bootstrap":
                sc = set(cols); bad = [c for c in ocols if c not in sc]
                return "output column %r is not an input column" % (bad[0],) if bad else None
            gap = 4 if a.get("abc", "dna") == "dna" else 20
            if fresh:
                for c in range(alen):
                    if sorted(x for x in cols[c] if x != gap) != sorted(o for x, o in zip(cols[c], ocols[c]) if x != gap): return "column %d: residues are not the input column's residues" % c
                return None
            for c in range(alen):
                if sorted(cols[c]) != sorted(ocols[c]): return "column %d multiset changed" % c
                if [x == gap for x in cols[c]] != [x == gap for x in ocols[c]]: return "gap positions of column %d changed" % c
            return None
        if w == "permute":
            if not l.startswith("ok "): return "returned %s" % l
            body, idxs = l[3:].rsplit(" ", 1)
            nm = a["names"].split(",")
            if a.get("idx", "1") == "0":
                if idxs != "index=none": return "an alignment without a name index got one (%s)" % idxs
            elif len(set(nm)) == len(nm) and idxs != "index=" + (",".join(str(i) for i in range(len(nm))) if nm else "-"):
                return "name index does not map each name to its new row: %s" % idxs
            keys = ["rows", "names", "wgt", "sqlen", "acc", "desc", "ss", "sa", "pp", "gs", "gr"]
            arrs = [a[k].split(",") for k in keys if a.get(k, "none") != "none"]
            n = len(a["rows"].split(","))
            for k, b in (("ss", 1000), ("sa", 2000), ("pp", 3000)):
                if a.get(k, "none") != "none": arrs.append([str(b + i) for i in range(n)])
            if a.get("gs2", "none") != "none" and any(t != "~" for t in a["gs2"].split(",")): arrs.append(a["gs2"].split(","))
            if a.get("gr2", "none") != "none" and any(t != "~" for t in a["gr2"].split(",")): arrs.append(a["gr2"].split(","))
            recs = ["/".join(t) for t in zip(*arrs)]
            orecs = body.split(";")
            return None if Counter(recs) == Counter(orecs) else "rows were not kept together with their annotation"
        if w in ("cqrna", "xqrna"):
            x, y = unhx(a["x"]), unhx(a["y"])
            if len(x) != len(y): return None if l == "einval" else "different lengths must give einval, got %s" % l
            if len(x) == 0: return None if l == "emem" else "zero-length pair: expected the zero-size-allocation exception, got %s" % l
            if not l.startswith("ok "): return "returned %s" % l
            ox, oy = [unhx(t) for t in l[3:].split(",")]
            if w == "xqrna":
                if len(ox) != len(x) + 2 or len(oy) != len(y) + 2 or ox[0] != 255 or ox[-1] != 255 or oy[0] != 255 or oy[-1] != 255: return "length/sentinels damaged"
                ox, oy = ox[1:-1], oy[1:-1]
                gap = 4 if a.get("abc", "dna") == "dna" else 20
                isgap = lambda c: c == gap
            else:
                isgap = lambda c: c in GAPS_TEXT
            if len(ox) != len(x) or len(oy) != len(y): return "length changed"
            cls = lambda p, q: (isgap(p), isgap(q))
            for i in range(len(x)):
                if cls(x[i], y[i]) != cls(ox[i], oy[i]): return "column class / gap position changed at %d" % i
                if cls(x[i], y[i]) == (True, True) and (x[i], y[i]) != (ox[i], oy[i]): return "double-gap column %d changed" % i
            for k in ((False, False), (False, True), (True, False)):
                if Counter((p, q) for p, q in zip(x, y) if cls(p, q) == k) != Counter((p, q) for p, q in zip(ox, oy) if cls(p, q) == k):
                    return "columns of class %r are not a permutation of the input's" % (k,)
            return None
        return None

    def check_seq(self, kind, s, o, a, text):
        L = len(s)
        if len(o) != L: return "length %d != input length %d" % (len(o), L)
        if kind == "shuffle":
            return None if Counter(s) == Counter(o) else "residue counts changed"
        if kind == "reverse":
            return None if o == s[::-1] else "not the mirror image"
        if kind == "kmers":
            k = int(a["k"]); P = L % k
            if o[:P] != s[:P]: return "leftover prefix of %d residues changed" % P
            km = lambda b: Counter(bytes(b[P + i * k: P + (i + 1) * k]) for i in range(L // k))
            return None if km(s) == km(o) else "k-mers are not a permutation of the input's consecutive k-mers"
        if kind == "windows":
            wd = int(a["w"])
            for i in range(0, L, wd):
                if Counter(s[i:i + wd]) != Counter(o[i:i + wd]): return "residue counts changed in window starting at %d" % i
            return None
        su = up(s) if text else s
        if kind == "shuffledp":
            if L <= 2: return None if o == s else "length <= 2 must be copied unchanged"
            if o[0] != su[0]: return "first residue changed"
            if o[-1] != su[-1]: return "last residue changed"
            if doublets(su) != doublets(o): return "ordered-pair counts changed"
            return None
        if kind == "markov0":
            bad = [c for c in o if c not in set(su)]
            return "emitted residue %r that does not occur in the input" % bad[0] if bad else None
        if kind == "markov1":
            if L <= 2: return None if o == s else "length <= 2 must be copied unchanged"
            if o[0] not in set(su): return "first residue does not occur in the input"
            pairs = set(zip(su, su[1:])) | {(su[-1], su[0])}
            bad = [p for p in zip(o, o[1:]) if p not in pairs]
            return "emitted adjacent pair %r that does not occur in the (circular) input" % (bad[0],) if bad else None
        return None

    # ------------------------------------------------------------------ API coverage (round 6)
    # public symbol -> (ops of the line protocol that call it, property theorems about it, has an output buffer that may alias the input)
    API = {
        "esl_rsq_Sample":          (["sample"], ["rsqSample_spec", "rsqSample_uniform"], False),
        "esl_rsq_IID":             (["iid"], ["iid_support", "iid_never_fatal", "iid_support_ieee_negzero", "iid_never_fatal_ieee"], False),
        "esl_rsq_fIID":            (["fiid"], ["iid_support", "iid_never_fatal"], False),
        "esl_rsq_xIID":            (["xiid"], ["iid_support", "iid_uniform", "iidUniform_exact", "iid_never_fatal"], False),
        "esl_rsq_xfIID":           (["xfiid"], ["iid_support", "iid_never_fatal"], False),
        "esl_rsq_SampleDirty":     (["sampledirty"], ["sampleDirty_never_gap", "sampleDirty_sampled_vector_zeros"], False),
        "esl_rsq_CShuffle":        (["cshuffle"], ["cShuffle_perm", "cShuffle_bijective_on_rolls", "cShuffle_counts", "shuffle_inplace_eq_separate"], True),
        "esl_rsq_CShuffleDP":      (["cshuffledp"], ["cShuffleDP_ok", "cShuffleDP_status", "shuffleDP_spec", "shuffleDP_checks_never_fire"], True),
        "esl_rsq_CShuffleKmers":   (["ckmers"], ["cShuffleKmers_spec", "shuffleKmers_via_rolls", "shuffleKmers_inplace_eq_separate"], True),
        "esl_rsq_CReverse":        (["creverse"], ["cReverse_spec", "cReverse_inplace_spec"], True),
        "esl_rsq_CShuffleWindows": (["cwindows"], ["cShuffleWindows_spec", "shuffleWindows_inplace_eq_separate", "cShuffleWindows_pair_always_swapped"], True),
        "esl_rsq_CMarkov0":        (["cmarkov0"], ["cMarkov0_spec", "cMarkov0_einval_or_ok", "markov0_frequencies_exact"], True),
        "esl_rsq_CMarkov1":        (["cmarkov1"], ["cMarkov1_spec", "cMarkov1_einval_or_ok", "markov1_counts_exact", "markov1_conditional_exact"], True),
        "esl_rsq_XShuffle":        (["xshuffle"], ["xShuffle_spec", "xShuffle_bijective_on_rolls", "xShuffle_inplace_eq_separate"], True),
        "esl_rsq_XShuffleDP":      (["xshuffledp"], ["xShuffleDP_ok", "xShuffleDP_status", "shuffleDP_spec", "shuffleDP_checks_never_fire"], True),
        "esl_rsq_XShuffleKmers":   (["xkmers"], ["xShuffleKmers_spec", "shuffleKmers_via_rolls", "shuffleKmers_inplace_eq_separate"], True),
        "esl_rsq_XReverse":        (["xreverse"], ["xReverse_spec", "reverse_inplace_eq"], True),
        "esl_rsq_XShuffleWindows": (["xwindows"], ["xShuffleWindows_spec", "xShuffleWindows_window_bijective_on_rolls", "xShuffleWindows_inplace_eq_separate"], True),
        "esl_rsq_XMarkov0":        (["xmarkov0"], ["xMarkov0_spec", "xMarkov0_einval_or_ok", "markov0_frequencies_exact"], True),
        "esl_rsq_XMarkov1":        (["xmarkov1"], ["xMarkov1_spec", "xMarkov1_einval_or_ok", "markov1_counts_exact", "markov1_conditional_exact"], True),
        "esl_msashuffle_Shuffle":  (["msashuffle"], ["msaShuffle_spec", "msaShuffle_via_rolls", "msaShuffle_inplace_eq_separate"], True),
        "esl_msashuffle_Bootstrap": (["bootstrap"], ["bootstrap_only_input_columns", "bootstrap_exact"], False),
        "esl_msashuffle_VShuffle": (["vshuffle"], ["vShuffle_spec", "vShuffle_inplace_eq"], True),
        "esl_msashuffle_PermuteSequenceOrder": (["permute"], ["permuteSeqOrder_spec", "permuteSeqOrder_index_spec"], False),
        "esl_msashuffle_CQRNA":    (["cqrna"], ["qrna_keeps_classes", "qrna_class_perm", "qrna_inplace_eq_separate", "qrna_status"], True),
        "esl_msashuffle_XQRNA":    (["xqrna"], ["qrna_keeps_classes", "qrna_class_perm", "qrna_inplace_eq_separate", "qrna_status"], True),
        "esl_vec_DShuffle":        (["dshuffle"], ["cShuffle_perm", "fisherYates_bijective_on_rolls"], False),
        "esl_vec_FShuffle":        (["fshuffle"], ["cShuffle_perm", "fisherYates_bijective_on_rolls"], False),
        "esl_vec_IShuffle":        (["ishuffle"], ["cShuffle_perm", "fisherYates_bijective_on_rolls"], False),
        "esl_vec_LShuffle":        (["lshuffle"], ["cShuffle_perm", "fisherYates_bijective_on_rolls"], False),
        "esl_vec_DShuffle64":      (["dshuffle64"], ["vecShuffle64_perm", "vecShuffle64_via_rolls"], False),
        "esl_vec_FShuffle64":      (["fshuffle64"], ["vecShuffle64_perm", "vecShuffle64_via_rolls"], False),
        "esl_vec_IShuffle64":      (["ishuffle64"], ["vecShuffle64_perm", "vecShuffle64_via_rolls"], False),
        "esl_vec_LShuffle64":      (["lshuffle64"], ["vecShuffle64_perm", "vecShuffle64_via_rolls"], False),
        "esl_vec_DReverse":        (["dreverse"], ["cReverse_spec", "cReverse_inplace_spec"], True),
        "esl_vec_FReverse":        (["freverse"], ["cReverse_spec", "cReverse_inplace_spec"], True),
        "esl_vec_IReverse":        (["ireverse"], ["cReverse_spec", "cReverse_inplace_spec"], True),
        "esl_vec_LReverse":        (["lreverse"], ["cReverse_spec", "cReverse_inplace_spec"], True),
        "esl_vec_CReverse":        (["vcreverse"], ["cReverse_spec", "cReverse_inplace_spec"], True),
        # esl_random.c: the three primitives the anchored routines draw through (never called by the harness directly: every op above reaches them)
        "esl_rnd_Roll":            (["cshuffle", "poke"], ["roll_on_generator_words", "roll_returns_spec", "roll_progress", "roll_reaches_every_value"], False),
        "esl_rnd_DChoose":         (["iid", "xiid", "cmarkov0", "cmarkov1", "xmarkov0", "xmarkov1", "fplaws"], ["dchoose_returns", "dchoose_inverse_cdf", "ieee_carrier_lawful", "ieee_L5"], False),
        "esl_rnd_FChoose":         (["fiid", "xfiid"], ["iid_support", "ieee_carrier_lawful"], False),
    }
    # public symbols of the anchored headers that no routine of the property calls (listed so that the table is complete)
    API_OUT_OF_SCOPE = {"esl_rnd_DChooseCDF": "categorical choice from a caller-made CDF: not used by esl_randomseq.c / esl_msashuffle.c",
                        "esl_rnd_FChooseCDF": "same, float"}

    def api_coverage(self, ctx, opcount):
        """mechanical coverage table: every public symbol of esl_randomseq.h and esl_msashuffle.h, the Shuffle/Shuffle64/Reverse families of
        esl_vectorops.h and the Roll/Choose primitives of esl_random.h, read from the WORKING TREE's headers, against the ops (present in the
        harness source, the Lean driver source and the generated cases, both storage modes where an output buffer exists) and SPEC.theorems"""
        import re, os
        def externs(h, pat):
            txt = open(os.path.join(ctx.src, h)).read()
            return [m for m in re.findall(r"^extern\s+[^;(]*?\b(esl_\w+)\s*\(", txt, re.M) if re.search(pat, m)]
        syms = (externs("esl_randomseq.h", r"^esl_rsq_") + externs("esl_msashuffle.h", r"^esl_msashuffle_") +
                externs("esl_vectorops.h", r"(Shuffle|Shuffle64|Reverse)$") + externs("esl_random.h", r"^esl_rnd_(Roll|[DF]Choose(CDF)?)$"))
        here = os.path.dirname(os.path.dirname(os.path.abspath(__file__)))
        hsrc = open(os.path.join(here, "harness", self.harness)).read()
        dsrc = open(os.path.join(here, "lean", "Driver", "C18.lean")).read()
        short = {t.rsplit(".", 1)[1] for t in self.theorems}
        table, uncovered = {}, []
        for sym in syms:
            if sym in self.API_OUT_OF_SCOPE:
                table[sym] = {"status": "out-of-scope", "why": self.API_OUT_OF_SCOPE[sym]}; continue
            if sym not in self.API:
                table[sym] = {"status": "UNCOVERED"}; uncovered.append(sym + ": no op, no theorem"); continue
            ops, ths, aliasable = self.API[sym]
            probs = []
            for o in ops:
                if '"%s"' % o not in hsrc: probs.append("op %s not in the harness" % o)
                if '"%s"' % o not in dsrc: probs.append("op %s not in the Lean driver" % o)
                if not sum(v for (w, ip), v in opcount.items() if w == o): probs.append("op %s never generated" % o)
            if not sym.startswith("esl_rnd_") and not re.search(r"\b%s\s*\(" % sym, hsrc): probs.append("the harness never calls it")
            for t in ths:
                if t not in short: probs.append("theorem %s is not in SPEC.theorems" % t)
            modes = sorted({ip for (w, ip), v in opcount.items() if w == ops[0] and ip is not None})
            if aliasable and not {"0", "1"} <= set(modes): probs.append("storage modes generated: %s" % modes)
            table[sym] = {"status": "covered" if not probs else "GAP", "ops": ops, "theorems": ths, "calls": sum(v for (w, ip), v in opcount.items() if w in ops),
                          "storage_modes": modes if aliasable else None, **({"problems": probs} if probs else {})}
            if probs: uncovered.append(sym + ": " + "; ".join(probs))
        stale = sorted(set(self.API) - set(syms))
        return {"symbols": len(syms), "covered": sum(1 for v in table.values() if v["status"] == "covered"), "uncovered": uncovered,
                "table_entries_without_a_public_symbol": stale, "table": table}

    def extra_evidence(self, ctx):
        # measured input distribution of the generated cases (re-generated with the same seed)
        import random, os
        if os.environ.get("C18_N"): return {}
        ctx2 = type("C", (), {})(); ctx2.tier = ctx.tier
        ctx2.rng = random.Random(ctx.seed * 7919 + 13)
        ops = Counter(); lens = Counter(); n = 0
        allcases = self.corpus(ctx2) + self.cases(ctx2)
        opcount = Counter()
        for c in allcases:
            for o in c["ops"]:
                w = o.split()[0]
                if w == "fplaws": opcount[("fplaws", None)] += 1; continue
                m = [x[3:] for x in o.split()[1:] if x.startswith("ip=")]
                opcount[(w, m[0] if m else None)] += 1
        cov = self.api_coverage(ctx, opcount)
        if cov["uncovered"] or cov["table_entries_without_a_public_symbol"]:
            print("[verif] C18 note: API coverage gaps: %s %s" % (cov["uncovered"], cov["table_entries_without_a_public_symbol"]))
        for c in allcases[:len(self.corpus(ctx2)) + 3000]:
            for o in c["ops"]:
                w = o.split()[0]; ops[w] += 1; a = kv(o)
                if "s" in a and not w.startswith("seed"):
                    L = len(unhx(a["s"])); lens["0" if L == 0 else "1-2" if L <= 2 else "3-39" if L < 40 else "40-299" if L < 300 else "300-5000"] += 1
            n += 1
        return {"input_distribution": {"sampled_cases": n, "ops": dict(ops), "sequence_lengths": dict(lens)},
                "api_coverage": cov,
                "window_roll_range_read_from_tree": getattr(self, "_win", None),
                "fplaws_calls": self._laws[0], "fplaws_instances_checked": self._laws[1],
                "mutations_round6": "12 hand mutants aimed at the new generator shapes (in-place k-mer/window boundaries, esl_vec_* n=2, 17-row / 40-row / 129-row alignments, column > 1000, QRNA aliasing mode 2, L=2 in-place reversal, DChoose <=), 12 killed: see reports/round6/C18.md",
                "mutations_caught": "round 4: automatic single-site sweep (tools/mutsweep.py) over esl_msashuffle.c and the modelled functions of esl_randomseq.c: 110 mutants, 91 killed, 19 survivors all classified "
                                    "equivalent (ctype loop bounds where the class is false at 0/127/128, redundant stores, error-path-only statements, message strings, larger allocations, a renormalisation DChoose repeats); "
                                    "13 hand mutants of the newly covered code (index rebuild, sparse per-sequence markup guards, xs/ys copy aliasing, DChoose/FChoose normalisation, VShuffle gap test) all killed, "
                                    "1 harmless refactoring passed; earlier rounds: 35 hand mutations, 33 killed, 2 equivalent"}

SPEC = C18()
