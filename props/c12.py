"""C12 — threaded dsqdata reader and work queue. Model: lean/EaselModel/{Dsqdata,WorkQueue}/*, theorems: Props/C12.lean,
harness: h_dsqdata.c (pthread calls wrapped at link time)."""
import re
from vlib.engine import Prop, Failure, run_side

WRAP = ["-Wl,--wrap=pthread_mutex_lock", "-Wl,--wrap=pthread_mutex_unlock", "-Wl,--wrap=pthread_cond_wait",
        "-Wl,--wrap=pthread_cond_signal", "-Wl,--wrap=pthread_cond_broadcast",
        "-Wl,--wrap=fread",              # the loader's fread into a chunk is logged as an access to that chunk (ownership check)
        "-Wl,--wrap=esl_sqio_Read"]      # records reaching esl_dsqdata_Write get an accession and a taxonomy id


# ---- a python mirror of the packers, used ONLY to build inputs (valid packet streams) and to state monitors ----
def pack5(d):
    out, r, n = [], 0, len(d)
    while r < n:
        v, b = 1 << 30, 25
        while b >= 0 and r < n:
            v |= d[r] << b; r += 1; b -= 5
        while b >= 0:
            v |= 31 << b; b -= 5
        if r >= n: v |= 1 << 31
        out.append(v & 0xffffffff)
    return out or [0xffffffff]


def pack2(d):
    out, r, n = [], 0, len(d)
    while r < n:
        if n - r >= 15 and all(x <= 3 for x in d[r:r + 15]):
            v, b = 0, 28
            for _ in range(15):
                v |= d[r] << b; r += 1; b -= 2
        else:
            v, b = 1 << 30, 25
            while b >= 0 and r < n:
                v |= d[r] << b; r += 1; b -= 5
            while b >= 0:
                v |= 31 << b; b -= 5
        if r >= n: v |= 1 << 31
        out.append(v & 0xffffffff)
    return out or [0xffffffff]


def le(n, k):
    return [(n >> (8 * i)) & 0xff for i in range(k)]


def dsq_files(tag, alphatype, recs, amino, magic=0xc4d3d1b1):
    """independent re-statement of the documented dsqdata layout (header fields, index records, metadata, packets)"""
    idx = le(magic, 4) + le(tag, 4) + le(alphatype, 4) + le(0, 4)
    idx += le(max([len(r[0]) for r in recs] + [0]), 4) + le(max([len(r[1]) for r in recs] + [0]), 4) + le(max([len(r[2]) for r in recs] + [0]), 4)
    idx += le(max([len(r[4]) for r in recs] + [0]), 8) + le(len(recs), 8) + le(sum(len(r[4]) for r in recs), 8)
    md, sq = le(magic, 4) + le(tag, 4), le(magic, 4) + le(tag, 4)
    spos = mpos = 0
    for name, acc, desc, tax, d in recs:
        p = pack5(d) if amino else pack2(d)
        for w in p: sq += le(w, 4)
        m = list(name) + [0] + list(acc) + [0] + list(desc) + [0] + le(tax & 0xffffffff, 4)
        md += m
        spos += len(p); mpos += len(m)
        idx += le((mpos - 1) & (2**64 - 1), 8) + le((spos - 1) & (2**64 - 1), 8)
    return idx, md, sq


def hx(bs):
    return "".join("%02x" % b for b in bs) if len(bs) else "-"


class PersistentDriver:
    """one long-lived model-driver process for the trace validations (a process per trace is slow on a loaded machine)"""
    def __init__(self, exe, cwd):
        import subprocess
        self.p = subprocess.Popen([exe], stdin=subprocess.PIPE, stdout=subprocess.PIPE, stderr=subprocess.DEVNULL, text=True, cwd=cwd, bufsize=1)

    def ask(self, op):
        self.p.stdin.write("case 0\n%s\nend\n" % op); self.p.stdin.flush()
        ans = None
        while True:
            l = self.p.stdout.readline()
            if l == "": raise RuntimeError("driver died")
            l = l.rstrip("\n")
            if l == "end": return ans
            if not l.startswith("case "): ans = l


def kv(line):
    return dict(x.split("=", 1) for x in line.split() if "=" in x)


class C12(Prop):
    id = "C12"
    lean_modules = ["EaselModel.Props.C12"]
    lean_exe = "c12_driver"
    harness = "h_dsqdata.c"
    harness_includes_c = ["esl_dsqdata.c"]
    harness_flags = WRAP            # all ASan/UBSan checks active (the three UB findings in esl_dsqdata.c were repaired upstream: 09d0278, 0b6ecdd)
    theorems = ["EaselModel.Props.C12." + t for t in (
        "wq_conservation", "wq_exclusive", "wq_fifo", "wq_fifo_prefix", "wq_counters", "wq_no_lost_wakeup_worker",
        "wq_no_lost_wakeup_reader", "wq_wake_delivers", "wq_reset_spec", "wq_no_overflow", "wq_run_reachable",
        "wq_reset_while_pending_loses_wakeup", "wq_unrepaired_remove_loses_block",
        "wq_full_api_conservation", "wq_full_api_no_overflow", "wq_reset_every_state", "wq_reachable_full",
        "codec_unpack5_pack5", "codec_unpack2_pack2", "codec_unpack2_pack5", "codec_packet_count", "codec_eod_last",
        "codec_unpack_chunk", "codec_pack_in_place", "codec_unpack_in_place", "codec_metadata_round_trip", "th_barrier", "th_counter", "th_no_lost_wakeup_master", "th_progress",
        "loader_nload_largest_prefix", "loader_chunks_partition", "dsq_chunks_are_the_database", "pipe_order", "pipe_eof_after_all", "pipe_lanes", "pipe_no_deadlock", "pipe_no_lost_wakeup", "pipe_eof_delivered", "pipe_buffers",
        "dsq_open_written", "dsq_bytes_round_trip", "dsq_bytes_round_trip_defaults", "dsq_open_corrupt_header", "dsq_stub_tag",
        "dsq_threaded_read_is_database", "open_rejects", "read_written_database", "chunk_ownership_exclusive", "pipe_lock_discipline",
        "codec_chunk_layout", "codec_unpack_smem", "codec_pack_unpack_smem", "dsq_chunks_unpack_in_place", "codec_pack_smem", "pipe_wait_conditions_guarded", "pipe_lane_local", "pipe_recycling_nchunk_local", "pipe_half_lane_local",
        "pipe_variant", "pipe_wait_is_stutter", "pipe_progress_enabled", "pipe_liveness_weak_fairness", "pipe_fair_execution_exists",
        "pipe_cut_safety", "pipe_cut_never_eof", "pipe_cut_no_deadlock", "pipe_cut_abort_final", "dsq_loader_outcomes", "dsq_cut_data_files", "dsq_cut_files", "dsq_written_passes_nseq_check", "dsq_cut_index_never_eof", "dsq_cut_written_index", "dsq_cut_index_files")]
    claimed = True
    level_text = ("Theorems for every schedule of one reader and any number of workers (one atomic step per mutex-protected region, spurious wake-ups allowed): "
                  "conservation and exclusivity of blocks, FIFO on both queues (history variables), counters in range and pendingWorkers = number of sleepers, "
                  "no lost wake-up for workers and reader, overflow unreachable, a woken worker gets the head block. dsqdata: codec round trip for all sequences with "
                  "codes <= 30 (5-bit and mixed packing, length 0 included); packing and unpacking IN PLACE at byte level equal the functional codec (no access outside "
                  "the buffer, nothing overwritten before it is read); the four files of esl_dsqdata_Write as byte strings, Open's validation incl. every refusal, the "
                  "loader's freads and chunking; read_written_database: Write -> files -> Open -> threaded Read returns exactly the database, in order, chunk by "
                  "chunk, then EOF, for every database / chunk limits / unpacker and consumer count / schedule; pipeline order, EOF, no deadlock, no lost wake-up, "
                  "buffer conservation; chunk_ownership_exclusive (every chunk buffer has exactly one owner), pipe_lock_discipline (shared fields change only "
                  "under their mutex, private variables only in their thread) and the locality theorems (a step reads and writes no shared field whose mutex it does "
                  "not hold). Liveness: a variant function that every non-wait step decreases (pipe_variant), waits are stutters, and on every weakly fair "
                  "infinite execution every chunk is returned and Read answers EOF (pipe_liveness_weak_fairness), any number of unpackers / consumers. Work "
                  "queue under the FULL API (Reset at any moment, sleepers or not): conservation, exclusivity, FIFO, counters, no overflow (wq_full_api_*), "
                  "Reset in every state (wq_reset_every_state). Data files cut short behind the header: the byte-level loader delivers a prefix of the intact "
                  "chunks and then takes its fatal short-read branch - never a damaged chunk, never an early EOF (dsq_cut_data_files); the pipeline with that "
                  "branch as a transition keeps every safety theorem, tells no consumer EOF and does not deadlock (pipe_cut_*). "
                  "esl_threads start barrier. Tie: exact differential run (codec, in-place buffers, file "
                  "bytes, Open on corrupted files, sequential queue ops) and validation of logged multi-threaded traces against the models, incl. the mutexes held "
                  "in every region and the owner of every chunk touched outside a mutex.")
    level_note = ("Trusted: Lean kernel + propext/Classical.choice/Quot.sound; fidelity of the hand models is checked by differential run / trace validation, not proved; "
                  "pthread semantics (mutual exclusion, condition variables with spurious wake-ups) are modelled, not verified. Data-race freedom in the pthread memory "
                  "model is NOT a theorem: what is proved is its interleaving-model counterpart - ownership exclusivity, the write frame (a step changes a shared field only under its mutex) and the "
                  "locality theorems (a step commutes with arbitrary changes of every shared field whose mutex it does not hold: other lanes, the other half of its own "
                  "lane, the recycling stack, nchunk - i.e. it does not read them either); on the code this is checked on observed traces (held-mutex sets, snapshots "
                  "under the mutex equal the model state, digests of parked chunks unchanged). Caller contract of the queue stated as `Admissible`. "
                  "A .dsqi cut short behind its header used to read as a smaller complete database; repaired upstream (78cbf46: the loader checks the header's nseq at end of data), "
                  "the model follows the repaired loader; dsq_cut_index_never_eof: such a read never ends with end of data, for any opened database. Weak fairness is a hypothesis of the liveness theorem (the scheduler is not modelled). "
                  "Not covered: the esl_workqueue_queuelock_* variants (unfinished code); the loader's other exceptions (failing pthread calls, allocation failure).")
    diverge_is_violation = True
    fault_is_output = True      # a sanitizer abort is an output line; it must coincide with the model's `fault`
    technique = ("Lean 4 proof (transition system of esl_workqueue with one atomic step per mutex-protected region, inductive invariant over "
                 "all schedules and any number of workers; bit-level round trip of the dsqdata packet codec) + differential correspondence "
                 "(codec, loader chunking, sequential queue ops) + trace validation of free-running multi-threaded runs with pthread calls "
                 "wrapped at link time and seeded schedule perturbation")
    trusted_base = ["hand model of esl_workqueue.c / esl_dsqdata.c codec+loader tied by exact differential run and by trace validation (h_dsqdata.c, ASan+UBSan build)",
                    "pthread semantics: mutual exclusion, condition variables with spurious wake-ups (modelled, not verified)",
                    "Lean compiler/runtime for the executable driver; gcc; link-time --wrap interception"]
    assumptions = ["atomic step per critical section: justified in the model by pipe_lock_discipline / chunk_ownership_exclusive, on the code by the trace check (every "
                   "logged region must be the model's next step for that thread, with the same held-mutex set, the same protected fields afterwards, and every chunk "
                   "touched outside a mutex owned by the touching thread); the pthread memory model itself is not formalised",
                   "caller contract of the work queue (Admissible): Init hands in each block once and at most `size` blocks; Reset is not called while a worker "
                   "sleeps in WorkerUpdate (counter-example proved: wq_reset_while_pending_loses_wakeup); one reader thread",
                   "covered C functions: esl_workqueue_{Create,Init,Remove,Reset,Complete,ReaderUpdate,WorkerUpdate}; esl_threads_{Create,AddThread,WaitForStart,Started,"
                   "GetData,GetWorkerCount,Finished,WaitForFinish}; esl_dsqdata_{Open,Read,Recycle,Close,Write}, dsqdata_{loader_thread,unpacker_thread,unpack_chunk,unpack5,unpack2,"
                   "pack5,pack2,chunk_Create} incl. the loader's short-read branches (ESL_XEXCEPTION -> ERROR: -> esl_fatal), run in a forked child; esl_workqueue_Dump (its printed text "
                   "must be the observable state), esl_threads_CPUCount / GetCPUCount. Not covered: esl_workqueue_queuelock_*",
                   "allocation never fails; the file system behaves (fwrite/fread transfer the bytes); host is little-endian (checked by the byte-for-byte comparison)",
                   "index offsets fit int64 (sum of packets / metadata bytes < 2^63), sequences shorter than 6*eslDSQDATA_CHUNK_MAXPACKET (the writer's own limit)"]
    rule = ("cases = codec ops on boundary-rich digital sequences (valid and out-of-range codes, malformed packet streams), sequential queue op histories, "
            "threaded queue runs (1-6 workers, every size 1-9 incl. the full size x 1-4 workers grid in each run, perturbed schedules) whose logged trace must be a path of the model, and write/read-back of "
            "generated databases with 1-4 unpackers x 1-8 consumers x chunk limits from 1 sequence / the packets of the longest sequence (more consumers than chunks, "
            "empty database, one giant sequence, tail carry-over), in-place pack/unpack buffers at their exact limits, byte-for-byte file comparison and Open on files "
            "with every header byte flipped; each of .dsqi/.dsqm/.dsqs cut at every record / sequence boundary +-1 (forked child, watchdog); one role (loader / unpackers / "
            "consumers / reader / workers) slowed down at every wrapped pthread call; the branches of the three transition relations visited by the validated traces are "
            "recorded in the evidence (transition_coverage); non-trivial = all ops answered ok with "
            "at least one multi-packet / multi-chunk / multi-step result")
    quick_budget_s = 90

    # ------------------------------------------------------------------ constants regenerated from the working tree
    def dsq_consts(self, ctx):
        """compile-time constants of esl_dsqdata.[ch] (format magic, default chunk limits, unpacker counts), parsed from the tree under test"""
        import os
        h = open(os.path.join(ctx.src, "esl_dsqdata.h")).read()
        c = open(os.path.join(ctx.src, "esl_dsqdata.c")).read()
        def value(txt, what):
            txt = re.sub(r"(?<=[0-9a-fA-F])[uUlL]+\b", "", txt.split("//")[0].split("/*")[0]).strip()
            if not txt or not re.fullmatch(r"[0-9a-fA-FxX\s()*+\-<]+", txt): raise RuntimeError("cannot read the value of %s: %r" % (what, txt))
            return int(eval(txt, {"__builtins__": {}}, {}))
        def define(name):
            m = re.search(r"^[ \t]*#[ \t]*define[ \t]+%s[ \t]+(.+)$" % name, h, re.M)
            if not m: raise RuntimeError("esl_dsqdata.h: cannot find #define %s" % name)
            return value(m.group(1), name)
        def static(name):
            m = re.search(r"%s\s*=\s*([^;]+);" % name, c)
            if not m: raise RuntimeError("esl_dsqdata.c: cannot find %s = <value>;" % name)
            return value(m.group(1), name)
        return {"magic": static("eslDSQDATA_MAGIC_V1"), "magicSwap": static("eslDSQDATA_MAGIC_V1SWAP"),
                "chunkMaxseq": define("eslDSQDATA_CHUNK_MAXSEQ"), "chunkMaxpacket": define("eslDSQDATA_CHUNK_MAXPACKET"),
                "unpackers": define("eslDSQDATA_UNPACKERS"), "umax": define("eslDSQDATA_UMAX")}

    def generated(self, ctx):
        try:
            k = self._consts = self.dsq_consts(ctx)
        except (RuntimeError, OSError, SyntaxError, ValueError, TypeError, NameError) as e:
            # constants written in a form this reader does not understand: keep the checked-in file (a real drift between model and code
            # still shows in the byte-for-byte / chunking comparison); this must not by itself fail the check
            print("[C12] constants of esl_dsqdata.[ch] not regenerated: %s" % e)
            self._consts = None
            return {}
        doc = {"magic": "eslDSQDATA_MAGIC_V1", "magicSwap": "eslDSQDATA_MAGIC_V1SWAP", "chunkMaxseq": "eslDSQDATA_CHUNK_MAXSEQ",
               "chunkMaxpacket": "eslDSQDATA_CHUNK_MAXPACKET", "unpackers": "eslDSQDATA_UNPACKERS", "umax": "eslDSQDATA_UMAX"}
        fmt = lambda n, v: ("0x%08x" % v) if n.startswith("magic") else str(v)
        body = "".join("/-- `%s` -/\nabbrev %s : Nat := %s\n" % (doc[n], n, fmt(n, k[n])) for n in ("magic", "magicSwap", "chunkMaxseq", "chunkMaxpacket", "unpackers", "umax"))
        return {"EaselModel/Dsqdata/Consts.lean":
                "/-! GENERATED from esl_dsqdata.h / esl_dsqdata.c of the working tree by props/c12.py (`SPEC.generated`) - do not edit.\n"
                "The compile-time constants of the dsqdata format and reader. -/\nnamespace EaselModel.Dsqdata.Consts\n" + body + "end EaselModel.Dsqdata.Consts\n"}

    def K(self, name):
        return getattr(self, "_consts", None) and self._consts[name] or {"magic": 0xc4d3d1b1, "chunkMaxseq": 4096, "chunkMaxpacket": 262144, "unpackers": 4, "umax": 4}[name]

    # ------------------------------------------------------------------ inputs
    def corpus(self, ctx):
        c = []
        c.append({"name": "remove-nonfull", "sticky": 1, "ops": ["wq create size=4", "wq init b=1", "wq init b=2", "wq remove", "wq remove", "wq remove"]})
        c.append({"name": "codec-edges", "ops": ["rt5 d=-", "rt2 d=-", "pack5 d=010203040506", "pack5 d=01020304050607", "rt2 d=" + hx([0, 1, 2, 3] * 4),
                                                 "rt2 d=" + hx([0, 1, 2, 3] * 3 + [0, 1, 2]), "rt2 d=" + hx([0, 1, 2, 3, 0, 1, 2, 3, 4, 4, 0]),
                                                 "rt2 d=" + hx([0] * 14 + [15] + [1] * 15), "rt5 d=" + hx([30] * 13), "unpackchunk mode=2 p=-",
                                                 "unpackchunk mode=5 p=4294967295,4294967295"]})
        for i, o in enumerate(["unpack5 p=1109495974", "unpack2 p=-", "unpackchunk mode=2 p=113690310"]):
            c.append({"name": "codec-malformed%d" % i, "ops": ["rt5 d=0102", o]})     # a faulting op ends its case (the process dies)
        c.append({"name": "wq-seq", "sticky": 1, "ops": ["wq create size=2", "wq init b=1", "wq init b=2", "wq rupd in=0 out=1", "wq rupd in=1 out=1",
                                                        "wq wupd w=1 in=0 out=1", "wq wupd w=1 in=1 out=1", "wq rupd in=2 out=0", "wq reset", "wq complete",
                                                        "wq rupd in=0 out=1", "wq remove", "wq remove"]})
        # the three "queue overflow" refusals (more blocks than the queue size: outside the contract, but the call must change nothing)
        c.append({"name": "wq-overflow", "sticky": 1, "ops": ["wq create size=1", "wq init b=1", "wq init b=2", "wq rupd in=0 out=1", "wq rupd in=1 out=0",
                                                             "wq wupd w=1 in=0 out=1", "wq init b=2", "wq wupd w=1 in=1 out=0", "wq init b=3", "wq rupd in=0 out=1",
                                                             "wq wupd w=1 in=1 out=1", "wq rupd in=2 out=0", "wq wupd w=1 in=1 out=0", "wq rupd in=2 out=0", "wq remove", "wq remove"]})
        c.append({"name": "wq-dump-cpu", "sticky": 1, "ops": ["wq create size=3", "wq dump", "wq init b=1", "wq init b=2", "wq dump", "wq rupd in=0 out=1", "wq rupd in=1 out=0", "wq dump",
                                                             "wq wupd w=1 in=0 out=1", "wq wupd w=1 in=1 out=0", "wq dump", "wq reset", "wq dump", "thcpu"]})
        c.append({"name": "wqrun-small", "ops": ["wqrun size=1 workers=1 blocks=1 items=3 seed=1 pert=0", "wqrun size=4 workers=3 blocks=4 items=12 seed=2 pert=60",
                                                             "wqrun size=2 workers=3 blocks=2 items=9 seed=3 pert=80 lazy=1"]})
        c.append({"name": "thrun-small", "ops": ["thrun workers=1 rounds=2 seed=1 pert=0", "thrun workers=4 rounds=2 seed=3 pert=70"]})
        # regression case of the repaired defect C12:dsqdata:truncated-index-reads-as-smaller-db (fix 78cbf46): three sequences, the index cut behind
        # the record of the first one - Read() used to answer eslEOF after 1 of 3 sequences; also the intact files and the index cut inside a record
        body3 = "abc=dna names=x7331,x7332,x7333 descs=x,x,x dsq=x00010203000102030001,x02020202010101010000,x03030303030303030303"
        c.append({"name": "dsqcut-index-truncated", "ops": ["dsqcut %s file=dsqi at=%d maxseq=0 maxpacket=0 unpackers=0 pert=0 seed=1" % (body3, at) for at in (68, 75, 84, 100, 101)]
                  + ["dsqcut %s file=dsqs at=%d maxseq=1 maxpacket=2 unpackers=2 pert=30 seed=2" % (body3, at) for at in (8, 11, 12, 16, 19, 20, 24, 31, 32)]})
        c.append(self.dsq_case("dsq-one-per-chunk", "dna", [[0, 1, 2, 3] * 5, [], [15] * 7, [0, 1, 2, 3] * 10 + [4 + 1]], 1, 8, 2, 2, 1))
        c.append(self.dsq_case("dsq-library-defaults", "dna", [[0, 1, 2, 3] * 9, [], [15, 0, 1] * 5, [2] * 31], 0, 0, 0, 3, 5))
        c.append(self.dsq_case("dsq-single-empty-seq", "amino", [[]], 3, 4, 1, 2, 1))
        return c

    def rand_dsq(self, rng, amino, maxlen, full=False):
        n = rng.choice([0, 1, 2, 5, 6, 7, 11, 12, 13, 14, 15, 16, 17, 29, 30, 31, 44, 45, 46, 60, rng.randrange(0, maxlen + 1), rng.randrange(0, maxlen + 1)])
        n = min(n, maxlen)
        if amino:
            codes = list(range(0, 29)) if full else list(range(0, 20)) + [21, 22, 23, 24, 25, 26]
            return [rng.choice(codes) for _ in range(n)]
        mode = rng.random()
        deg = [4, 5, 6, 7, 8, 9, 10, 11, 12, 13, 14, 15, 16, 17] if full else [5, 6, 7, 8, 9, 10, 11, 12, 13, 14, 15]
        if mode < 0.3:
            return [rng.randrange(4) for _ in range(n)]
        if mode < 0.6:      # rare degenerates, forcing mixed 2-bit / 5-bit packets
            return [rng.choice(deg) if rng.random() < 0.04 else rng.randrange(4) for _ in range(n)]
        if mode < 0.8:      # runs
            out = []
            while len(out) < n:
                k = rng.choice([1, 2, 6, 14, 15, 16, 30, 31])
                out += [rng.choice(deg) if rng.random() < 0.5 else rng.randrange(4)] * 0 + ([rng.randrange(4) for _ in range(k)] if rng.random() < 0.7 else [rng.choice(deg) for _ in range(rng.randrange(1, 4))])
            return out[:n]
        return [rng.choice(deg + [0, 1, 2, 3]) for _ in range(n)]

    def dsq_case(self, name, abc, seqs, maxseq, maxpacket, unpackers, consumers, seed, pert=40, rng=None, raw=False):
        import random
        r = rng or random.Random(seed)
        names, descs = [], []
        for i, _ in enumerate(seqs):
            nm = "s%d" % i + "".join(r.choice("abcXYZ_.|-09") for _ in range(r.choice([0, 0, 1, 3, 10, r.randrange(0, 40)])))
            ds = "" if r.random() < 0.4 else " ".join("".join(r.choice("abcdefghij;:,=()[]") for _ in range(r.randrange(1, 9))) for _ in range(r.randrange(1, 5)))
            names.append(nm.encode()); descs.append(ds.encode())
        lst = lambda xs: ",".join("x" + "".join("%02x" % b for b in x) for x in xs) if xs else "-"      # element = "x" + hex (may be empty)
        hold = r.choice([1, 1, 2, 3, 5, 13])     # chunks a consumer works on at once before recycling them (the harness caps it)
        slow = r.choice(["-", "-", "L", "U", "C"])      # role slowed down at every wrapped pthread call (rare interleavings)
        op = "dsqrt abc=%s maxseq=%d maxpacket=%d unpackers=%d consumers=%d seed=%d pert=%d hold=%d slow=%s names=%s descs=%s dsq=%s" % (
            abc, maxseq, maxpacket, unpackers, consumers, seed, pert, hold, slow, lst(names), lst(descs), lst(seqs))
        if raw:      # database written by the harness itself: accessions and taxonomy ids, every residue code of the alphabet
            accs = [("" if r.random() < 0.3 else "".join(r.choice("ABCXYZ0123456789._") for _ in range(r.randrange(1, 12)))).encode() for _ in seqs]
            # taxonomy ids with high bytes in every position (a byte >= 0x80 must survive the 4-byte store / memcpy back: seeded change C12-c)
            tax = [r.choice([-1, 1, 9606, 2**31 - 1, 0x80, 0xff00, 0x00800000, 0x12345680, -0x80000000, -2, 0x7f80ff01, r.randrange(1, 1 << 31), r.randrange(-2**31, 2**31)]) for _ in seqs]
            op += " writer=raw accs=%s taxids=%s" % (lst(accs), ",".join(map(str, tax)) if tax else "-")
        return {"name": name, "ops": [op]}

    def cases(self, ctx):
        rng = ctx.rng
        quick = ctx.tier == "quick"
        out = []
        stats = ctx.stats.setdefault("inputs", {"codec_ops": 0, "wq_seq_ops": 0, "wqrun": 0, "dsqrt": 0, "dsqrt_seqs": 0, "malformed": 0})
        # --- codec
        for c in range(200 if quick else 3000):
            ops = []
            for _ in range(rng.randrange(3, 10)):
                amino = rng.random() < 0.4
                d = self.rand_dsq(rng, amino, 120 if quick else 2000, full=True)
                if rng.random() < 0.15: d = [min(x + rng.choice([0, 0, 2]), 30) for x in d] + [30, 29]     # codes up to 30 are legal for the codec
                r = rng.random()
                if r < 0.08:       # out-of-range residue codes (31 = in-packet end marker, >31 spill into neighbouring fields)
                    d = [rng.choice([31, 32, 63, 64, 127, 128, 255, rng.randrange(256)]) if rng.random() < 0.2 else x for x in d]
                    stats["malformed"] += 1
                which = rng.random()
                if which < 0.35:   ops.append(("rt5" if amino or rng.random() < 0.2 else "rt2") + " d=" + hx(d))
                elif which < 0.6:  ops.append(("pack5" if amino else "pack2") + " d=" + hx(d))
                elif which < 0.75:
                    p = pack5(d) if amino else pack2(d)
                    last = False
                    if rng.random() < 0.06 and len(p) > 0:       # malformed stream: EOD bit cleared on the last packet -> runs off the array
                        p[-1] &= 0x7fffffff; stats["malformed"] += 1; last = True
                    elif rng.random() < 0.1:
                        p = [rng.randrange(1 << 32) | (1 << 31 if rng.random() < 0.5 else 0) for _ in range(rng.randrange(1, 5))] + [0xffffffff]
                    ops.append(("unpack5" if amino else "unpack2") + " p=" + ",".join(map(str, p)))
                    if last: break                                # the process dies on a fault: nothing may follow in this case
                else:
                    if rng.random() < 0.3:     # every packet full: the tightest case for the in-place unpacking
                        per = 6 if amino else 15
                        ds = [[rng.randrange(20 if amino else 4) for _ in range(per * rng.randrange(1, 4))] for _ in range(rng.randrange(1, 7))]
                    else:
                        ds = [self.rand_dsq(rng, amino, 60, full=True) for _ in range(rng.randrange(0, 7))]
                    p = [w for x in ds for w in (pack5(x) if amino else pack2(x))]
                    last = False
                    if rng.random() < 0.04 and p:
                        p[-1] &= 0x7fffffff; stats["malformed"] += 1; last = True
                    ops.append("unpackchunk mode=%d p=%s" % (5 if amino else 2, ",".join(map(str, p)) if p else "-"))
                    if last: break
            stats["codec_ops"] += len(ops)
            out.append({"name": "codec%d" % c, "ops": ops})
        # --- unpacking in place at byte level: dsqdata_chunk_Create's buffer for (maxpacket, maxseq), the packets where the loader puts them,
        #     dsqdata_unpack_chunk inside that buffer; limits exactly met (every packet full, N = maxseq, pn = maxpacket) and slack ones
        for c in range(60 if quick else 800):
            ops = []
            for _ in range(rng.randrange(2, 7)):
                amino = rng.random() < 0.45
                per = 6 if amino else 15
                tight = rng.random() < 0.5
                if tight:    # every packet full
                    ds = [[rng.randrange(20 if amino else 4) for _ in range(per * rng.randrange(1, 5))] for _ in range(rng.randrange(1, 7))]
                else:
                    ds = [self.rand_dsq(rng, amino, 70, full=True) for _ in range(rng.randrange(0, 8))]
                pk = [w for x in ds for w in (pack5(x) if amino else pack2(x))]
                mp = max(1, len(pk)) + (0 if rng.random() < 0.6 else rng.choice([1, 2, 3, 17]))
                ms = max(1, len(ds)) + (0 if rng.random() < 0.6 else rng.choice([1, 2, 3, 4096 - len(ds)]))
                ops.append("unpacksmem mode=%d maxpacket=%d maxseq=%d p=%s" % (5 if amino else 2, mp, ms, ",".join(map(str, pk)) if pk else "-"))
            stats["unpacksmem_ops"] = stats.get("unpacksmem_ops", 0) + len(ops)
            out.append({"name": "smem%d" % c, "ops": ops})
        # --- sequential queue histories: the generator simulates the abstract queue (two lists + holdings) so that most ops are
        #     meaningful and deep states are reached (several blocks queued on both sides, ring wrap-around, Reset/Remove with
        #     non-trivial contents); about one op in ten is deliberately invalid (foreign block, would-block, overflow)
        #     (round 6b) EVERY queue size 1..9 - not only powers of two: the ring index is `% queueSize` - x 1..4 workers, systematically
        for c in range(180 if quick else 2160):
            size = c % 9 + 1
            nW = (c // 9) % 4 + 1
            ops = ["wq create size=%d" % size]
            cap = size + 1 if rng.random() < 0.1 else size      # now and then hand in more blocks than the contract allows
            nb, rq, wq, held = 0, [], [], {}                     # held: block -> thread (0 = reader)
            for _ in range(rng.randrange(5, 60)):
                r = rng.random()
                valid = rng.random() < 0.9
                if rng.random() < 0.06:      # try to overflow a full queue: the call must be refused and change nothing
                    if len(rq) >= size and nb < size + 2:
                        nb += 1; ops.append("wq init b=%d" % nb); continue
                    mine0 = [b for b, h in held.items() if h == 0]
                    if len(wq) >= size and mine0:
                        ops.append("wq rupd in=%d out=0" % mine0[0]); continue
                    minew = [(b, h) for b, h in held.items() if h > 0]
                    if len(rq) >= size and minew:
                        ops.append("wq wupd w=%d in=%d out=0" % (minew[0][1], minew[0][0])); continue
                if r < 0.15 and nb < cap and (len(rq) < size or not valid):
                    nb += 1; ops.append("wq init b=%d" % nb)
                    if len(rq) < size: rq.append(nb)
                elif r < 0.22:
                    ops.append("wq remove")
                    if rq: held[rq.pop()] = 0
                elif r < 0.27:
                    ops.append("wq reset"); rq += wq; wq = []
                elif r < 0.29:
                    ops.append("wq complete")
                elif r < 0.33:
                    ops.append("wq dump")
                elif r < 0.65:      # reader
                    mine = [b for b, h in held.items() if h == 0]
                    b = rng.choice(mine) if mine and rng.random() < 0.75 else 0
                    wo = 1 if (rq and rng.random() < 0.7) else (0 if valid else 1)
                    if not valid and nb and rng.random() < 0.5: b = rng.randrange(1, nb + 1)
                    ops.append("wq rupd in=%d out=%d" % (b, wo))
                    blocks = wo and not rq
                    ok = (b == 0 or held.get(b) == 0) and not blocks and not (b and len(wq) >= size)
                    if ok:
                        if b: del held[b]; wq.append(b)
                        if wo: held[rq.pop(0)] = 0
                else:               # a worker
                    w = rng.randrange(1, nW + 1)
                    mine = [b for b, h in held.items() if h == w]
                    b = rng.choice(mine) if mine and rng.random() < 0.8 else 0
                    wo = 1 if (wq and rng.random() < 0.7) else (0 if valid else 1)
                    if not valid and nb and rng.random() < 0.5: b = rng.randrange(1, nb + 1)
                    ops.append("wq wupd w=%d in=%d out=%d" % (w, b, wo))
                    blocks = wo and not wq
                    ok = (b == 0 or held.get(b) == w) and not blocks and not (b and len(rq) >= size)
                    if ok:
                        if b: del held[b]; rq.append(b)
                        if wo: held[wq.pop(0)] = w
            stats["wq_seq_ops"] += len(ops)
            out.append({"name": "wqseq%d" % c, "ops": ops, "sticky": 1})
        # --- threaded queue runs
        for c in range(90 if quick else 1500):
            size = rng.randrange(1, 10)
            W = rng.randrange(1, 7)
            B = rng.choice([1, size, rng.randrange(1, size + 1)])
            M = rng.choice([0, 1, 2, 7, 20, rng.randrange(0, 60 if quick else 400)])
            out.append({"name": "wqrun%d" % c, "ops": ["wqrun size=%d workers=%d blocks=%d items=%d seed=%d pert=%d lazy=%d slow=%s extra=%d" % (
                size, W, B, M, rng.randrange(1, 1 << 30), rng.choice([0, 10, 30, 60, 90]), rng.random() < 0.4, rng.choice(["-", "-", "R", "W"]),
                rng.choice([0, 0, 1, 2, 8]))]})       # extra: Complete / no-op Updates in mid-run, abandoned blocks in the worker queue before the final Reset
            stats["wqrun"] += 1
        # queue size <= number of workers (the reader and the workers keep hitting empty / single-slot queues), every run
        for (size, W, B) in [(1, 1, 1), (1, 2, 1), (1, 4, 1), (1, 6, 1), (2, 2, 2), (2, 3, 1), (2, 4, 2), (2, 6, 2), (3, 3, 3), (3, 6, 2), (4, 4, 4), (4, 6, 3)]:
            out.append({"name": "wqrun-small-%d-%d-%d" % (size, W, B), "ops": ["wqrun size=%d workers=%d blocks=%d items=%d seed=%d pert=%d lazy=%d slow=%s" % (
                size, W, B, rng.randrange(10, 45), rng.randrange(1, 1 << 30), rng.choice([0, 30, 60, 90]), (size + W + B) % 2, "-RW"[(size + W) % 3])]})
            stats["wqrun"] += 1
        # (round 6b) the full grid, every run: every queue size 1..9 x 1..4 workers, as many blocks as slots (the rings fill up and wrap around
        # at every modulus), enough items for several laps, the rarely used call modes on
        for size in range(1, 10):
            for W in range(1, 5):
                out.append({"name": "wqrun-grid-%d-%d" % (size, W), "ops": ["wqrun size=%d workers=%d blocks=%d items=%d seed=%d pert=%d lazy=%d slow=%s extra=%d" % (
                    size, W, rng.choice([size, size, max(1, size - 1)]), 3 * size + 2 * W + rng.randrange(0, 12), rng.randrange(1, 1 << 30), rng.choice([0, 30, 60]),
                    (size + W) % 2, "-RW"[(size * W) % 3], (size + W) % 3)]})
                stats["wqrun"] += 1
        # --- start rendezvous
        for c in range(60 if quick else 600):
            out.append({"name": "thrun%d" % c, "ops": ["thrun workers=%d rounds=%d seed=%d pert=%d" % (
                rng.choice([1, 2, 3, 4, 6, 8, rng.randrange(1, 17)]), rng.randrange(1, 4), rng.randrange(1, 1 << 30), rng.choice([0, 20, 50, 90]))]})
            stats["thrun"] = stats.get("thrun", 0) + 1
        # --- databases
        for c in range(120 if quick else 1500):
            amino = rng.random() < 0.45
            raw = rng.random() < 0.5
            maxpacket = rng.choice([2, 3, 4, 5, 8, 16, 50, 300])
            nseq = rng.choice([1, 1, 2, 3, 7, 20, rng.randrange(1, 60 if quick else 600)])   # an empty FASTA file is not a sequence file
            if raw and rng.random() < 0.05: nseq = 0
            maxlen = 6 * maxpacket - 1             # the writer's guarantee L < 6 * maxpacket
            maxseq = rng.choice([1, 2, 3, 5, 16, 4096])
            if rng.random() < 0.25:
                # tight chunks: every packet full (15 two-bit or 6 five-bit residues) and chunks that hit maxseq and maxpacket
                # at the same time - the worst case for unpacking in place inside the shared smem buffer
                maxseq = rng.choice([1, 2, 3, 5])
                q = [rng.randrange(1, 4) for _ in range(maxseq)]
                maxpacket = max(2, sum(q))
                per = 6 if amino else 15
                seqs = []
                for _ in range(rng.randrange(1, 6)):
                    seqs += [[rng.randrange(20 if amino else 4) for _ in range(per * x)] for x in q]
                nseq = len(seqs)
            else:
                seqs = [self.rand_dsq(rng, amino, min(maxlen, 300 if quick else 3000), full=raw) for _ in range(nseq)]
            U_ = rng.randrange(1, 5)
            if rng.random() < 0.12:     # the library's own defaults (hook value 0): 4096 sequences / 262144 packets per chunk, 4 unpackers
                maxseq, maxpacket, U_ = rng.choice([(0, 0, 0), (0, maxpacket, U_), (maxseq, 0, 0), (0, 0, U_)])
            out.append(self.dsq_case("dsqrt%d" % c, "amino" if amino else rng.choice(["dna", "dna", "rna"]), seqs, maxseq, maxpacket, U_, rng.choice([1, 2, 3, 4, rng.randrange(1, 9)]),
                                     rng.randrange(1, 1 << 30), rng.choice([0, 20, 50, 80]), rng, raw=raw))
            stats["dsqrt"] += 1; stats["dsqrt_seqs"] += nseq
        # --- structured databases (every run, every seed): the shapes in which the loader's index carry-over matters
        def mixed_dna(n, full=False):      # canonical runs broken by degenerate residues: 2-bit and 5-bit packets alternate
            d = []                         # (gap / * / ~ codes only when the harness writes the database itself: FASTA input rejects them)
            while len(d) < n:
                d += [rng.randrange(4) for _ in range(rng.choice([3, 14, 15, 16, 29, 30, 31, 45]))] + [rng.choice([4, 5, 10, 15, 16, 17] if full else [5, 8, 10, 15])] * rng.choice([0, 1, 1, 2])
            return d[:n]
        k = 0
        for rep in range(2 if quick else 20):
            for shape in ("tail-carry", "tail-carry-long", "count-0", "count-1", "count-eq", "count-eq+1", "count-2eq", "count-2eq-1", "all-empty", "empties-mixed", "dna-mixed", "one-per-chunk-packets"):
                amino = rng.random() < 0.4 and shape != "dna-mixed"
                raw = rng.random() < 0.5 or shape == "count-0"
                gen = (lambda n: [rng.randrange(20) for _ in range(n)]) if amino else (lambda n: mixed_dna(n, raw))
                maxseq = rng.choice([2, 3, 4, 7])
                maxpacket = rng.choice([4, 6, 9, 20])
                if shape == "tail-carry":
                    # the whole index fits one fread (maxseq >= nseq) but the packets need several chunks: after the first chunk the
                    # index file is exhausted and every later chunk is made of carried-over records only
                    nseq = rng.randrange(5, 40); maxseq = rng.choice([nseq, nseq + 1, 64, 4096])
                    seqs = [gen(rng.randrange(0, 6 * maxpacket)) for _ in range(nseq)]
                elif shape == "tail-carry-long":
                    # same, with sequences that nearly fill a chunk each, so the last chunks hold one carried record apiece
                    nseq = rng.randrange(3, 12); maxseq = rng.choice([nseq, 4096])
                    seqs = [gen(rng.randrange(max(0, 6 * maxpacket - 8), 6 * maxpacket)) for _ in range(nseq)]
                elif shape.startswith("count-"):
                    nseq = {"count-0": 0, "count-1": 1, "count-eq": maxseq, "count-eq+1": maxseq + 1, "count-2eq": 2 * maxseq, "count-2eq-1": 2 * maxseq - 1}[shape]
                    maxpacket = rng.choice([maxpacket, 300])          # with 300 the sequence count alone decides the chunk boundaries
                    seqs = [gen(rng.randrange(0, min(30, 6 * maxpacket))) for _ in range(nseq)]
                elif shape == "all-empty":
                    nseq = rng.randrange(1, 3 * maxseq + 2); seqs = [[] for _ in range(nseq)]
                elif shape == "empties-mixed":
                    nseq = rng.randrange(2, 30); seqs = [[] if rng.random() < 0.5 else gen(rng.randrange(1, 6 * maxpacket)) for _ in range(nseq)]
                elif shape == "dna-mixed":
                    nseq = rng.randrange(1, 25); maxpacket = rng.choice([6, 9, 20, 50]); seqs = [mixed_dna(rng.randrange(0, 6 * maxpacket), raw) for _ in range(nseq)]
                else:   # every sequence takes exactly maxpacket packets: one sequence per chunk although maxseq allows more
                    nseq = rng.randrange(1, 10); per = 6 if amino else 15
                    seqs = [[rng.randrange(4) for _ in range(per * maxpacket)] if not amino else [rng.randrange(20) for _ in range(6 * maxpacket - rng.randrange(0, 6))] for _ in range(nseq)]
                    seqs = [x[:6 * maxpacket - 1] for x in seqs]          # the writer's guarantee L < 6 * maxpacket
                out.append(self.dsq_case("dsq-%s-%d" % (shape, k), "amino" if amino else "dna", seqs, maxseq, maxpacket, rng.randrange(1, 5), rng.randrange(1, 5),
                                         rng.randrange(1, 1 << 30), rng.choice([0, 30, 70]), rng, raw=raw))
                k += 1; stats["dsqrt"] += 1; stats["dsqrt_seqs"] += len(seqs)
        # consumers working on several chunks at once, many small chunks: the loader runs out of buffers and waits on the
        # recycling stack (the only way to reach that wait), with every unpacker / consumer count
        for (U_, C_) in [(1, 1), (1, 2), (2, 1), (4, 1), (2, 3), (1, 4)]:
            amino = rng.random() < 0.5
            seqs = [[rng.randrange(20 if amino else 4) for _ in range(rng.randrange(0, 20))] for _ in range(rng.randrange(25, 45))]
            cse = self.dsq_case("dsq-hold-%d-%d" % (U_, C_), "amino" if amino else "dna", seqs, 1, 8, U_, C_, rng.randrange(1, 1 << 30), rng.choice([40, 70, 90]), rng,
                                raw=rng.random() < 0.5)
            cse["ops"] = [re.sub(r"hold=\d+", "hold=13", cse["ops"][0])]
            out.append(cse); stats["dsqrt"] += 1; stats["dsqrt_seqs"] += len(seqs)
        # --- round-4 shapes (every run, every seed): the corners of "every chunk-size setting, every number of consumer threads"
        def npk(d, amino): return len(pack5(d) if amino else pack2(d))
        def small(amino, raw, lmax=40): return [rng.randrange(20 if amino else 4) for _ in range(rng.randrange(0, lmax))] if rng.random() < 0.8 else mixed_dna(rng.randrange(0, lmax), raw) if not amino else []
        for C_ in range(1, 9):
            # (a) more consumers than chunks: nconsumers = 1..8, one sequence per chunk (chunk_maxseq = 1), fewer chunks than consumers
            #     (most consumers get EOF on their first Read; with 0 chunks - the empty database - all of them do)
            amino = rng.random() < 0.5; raw = True
            nseq = rng.randrange(0, C_)
            seqs = [small(amino, raw) for _ in range(nseq)]
            mp = max([npk(d, amino) for d in seqs] + [1])
            out.append(self.dsq_case("dsq-consumers-gt-chunks-%d" % C_, "amino" if amino else "dna", seqs, 1, rng.choice([mp, mp, mp + 1, 50]), rng.randrange(1, 5), C_,
                                     rng.randrange(1, 1 << 30), rng.choice([0, 30, 70]), rng, raw=raw))
            stats["dsqrt"] += 1; stats["dsqrt_seqs"] += nseq
            # (b) nconsumers = 1..8 kept busy: many one-sequence chunks, chunk_maxpacket at its minimum (= the packets of the longest sequence)
            amino = rng.random() < 0.5; raw = rng.random() < 0.5
            nseq = rng.randrange(12, 30)
            seqs = [small(amino, raw, 60) for _ in range(nseq)]
            mp = max(npk(d, amino) for d in seqs)
            out.append(self.dsq_case("dsq-consumers-%d-minpacket" % C_, "amino" if amino else "dna", seqs, rng.choice([1, 1, 2]), mp, rng.randrange(1, 5), C_,
                                     rng.randrange(1, 1 << 30), rng.choice([0, 40, 80]), rng, raw=raw))
            stats["dsqrt"] += 1; stats["dsqrt_seqs"] += nseq
        for rep in range(3 if quick else 12):
            # (c) one giant sequence spanning many packets among small ones; chunk_maxpacket exactly its packet count, so it fills a chunk alone
            amino = rng.random() < 0.5; raw = rng.random() < 0.5
            L = rng.choice([2000, 3001, rng.randrange(1500, 5000)]) if quick else rng.choice([20000, 19999, rng.randrange(5000, 20001)])
            giant = [rng.randrange(20) for _ in range(L)] if amino else mixed_dna(L, raw)
            pre = [small(amino, raw) for _ in range(rng.randrange(0, 4))]; post = [small(amino, raw) for _ in range(rng.randrange(0, 4))]
            seqs = pre + [giant] + post
            out.append(self.dsq_case("dsq-giant-%d" % rep, "amino" if amino else "dna", seqs, rng.choice([1, 2, 3, 4096]), npk(giant, amino), rng.randrange(1, 5), rng.randrange(1, 9),
                                     rng.randrange(1, 1 << 30), rng.choice([0, 30]), rng, raw=raw))
            stats["dsqrt"] += 1; stats["dsqrt_seqs"] += len(seqs)
            # (d) the empty database, every unpacker count, many consumers
            out.append(self.dsq_case("dsq-empty-%d" % rep, rng.choice(["amino", "dna", "rna"]), [], rng.choice([0, 1, 3]), rng.choice([0, 1, 2, 9]), rep % 4 + 1, rng.randrange(1, 9),
                                     rng.randrange(1, 1 << 30), rng.choice([0, 50]), rng, raw=True))
            stats["dsqrt"] += 1
            # (e) tail carry-over with chunk_maxpacket at its minimum (seeded change C12-a): the whole index is read by the first fread
            #     (chunk_maxseq >= nseq), every later chunk consists of carried-over records only, each chunk limited by the packet budget
            amino = rng.random() < 0.5; raw = rng.random() < 0.5
            nseq = rng.randrange(4, 25)
            seqs = [small(amino, raw, rng.choice([30, 90, 200])) for _ in range(nseq)]
            mp = max(npk(d, amino) for d in seqs)
            out.append(self.dsq_case("dsq-tail-minpacket-%d" % rep, "amino" if amino else "dna", seqs, rng.choice([nseq, nseq + 1, 4096]), rng.choice([mp, mp, mp + 1, 2 * mp]),
                                     rng.randrange(1, 5), rng.randrange(1, 9), rng.randrange(1, 1 << 30), rng.choice([0, 30, 70]), rng, raw=raw))
            stats["dsqrt"] += 1; stats["dsqrt_seqs"] += nseq
        if not quick:
            # the upper end of the quantifier: thousands of sequences, sequences of 20000 residues, default-sized chunk limits
            for c, (nseq, maxlen, maxseq, maxpacket) in enumerate([(5000, 40, 64, 300), (3000, 60, 4096, 2000), (40, 20000, 7, 3400), (12, 20000, 4096, 262144 // 8)]):
                amino = c % 2 == 0
                seqs = [self.rand_dsq(rng, amino, maxlen) if maxlen < 1000 else
                        [rng.randrange(20 if amino else 4) if rng.random() < 0.999 else (21 if amino else 15) for _ in range(rng.choice([maxlen, maxlen - 1, rng.randrange(maxlen // 2, maxlen)]))]
                        for _ in range(nseq)]
                out.append(self.dsq_case("dsqbig%d" % c, "amino" if amino else "dna", seqs, maxseq, maxpacket, rng.randrange(1, 5), rng.randrange(1, 5),
                                         rng.randrange(1, 1 << 30), 10, rng, raw=(c >= 2)))
                stats["dsqrt"] += 1; stats["dsqrt_seqs"] += nseq
        if not quick:
            # the writer's guarantee at its boundary, with the library's default limits: 6*262144-1 residues = exactly 262144 packets
            # = one full default chunk; 6*262144 residues must be refused by esl_dsqdata_Write
            # (the refusal of 6*262144 residues is an ESL_EXCEPTION path that leaks its ESL_SQ by design - exceptions are fatal
            #  in Easel - so it cannot be exercised in-process next to a leak monitor)
            for nm, L in (("dsq-maxlen-accepted", 6 * 262144 - 1),):
                seqs = [[3, 1, 4], [rng.randrange(20) for _ in range(L)], [7] * 10]
                out.append(self.dsq_case(nm, "amino", seqs, 0, 0, 0, 2, 11, 0, rng))

        # --- the on-disk format at byte level: files written by the real esl_dsqdata_Write compared byte for byte with the
        #     model's; esl_dsqdata_Open on files with one mutated header byte / truncated
        TAX = [-1, 0, 1, 9606, 127, 128, 255, 256, 0x80, 0x8000, 0x800000, 0x7fffffff, -0x80000000, 0x00ff00ff, 0x12345678, -2, 0x7f80ff01]
        def byte_db(nmax, lmax):
            amino = rng.random() < 0.45
            abc = "amino" if amino else rng.choice(["dna", "rna"])
            nseq = rng.choice([1, 1, 2, 3, 5, rng.randrange(1, nmax + 1)])
            seqs = [self.rand_dsq(rng, amino, lmax) for _ in range(nseq)]
            c = self.dsq_case("x", abc, seqs, 0, 0, 0, 1, 1, 0, rng)
            a = kv(c["ops"][0])
            accs = [("" if rng.random() < 0.3 else "".join(rng.choice("ABCXYZ0123456789._") for _ in range(rng.randrange(1, 12)))).encode() for _ in seqs]
            tax = [rng.choice(TAX + [rng.randrange(-2**31, 2**31)]) for _ in seqs]
            lst = lambda xs: ",".join("x" + "".join("%02x" % b for b in x) for x in xs) if xs else "-"
            return "abc=%s names=%s descs=%s dsq=%s accs=%s taxids=%s" % (abc, a["names"], a["descs"], a["dsq"], lst(accs), ",".join(map(str, tax))), abc, nseq
        for c in range(50 if quick else 600):
            body, abc, nseq = byte_db(12 if quick else 80, 100 if quick else 600)
            out.append({"name": "dsqwrite%d" % c, "ops": ["dsqwrite " + body]})
            stats["dsqwrite"] = stats.get("dsqwrite", 0) + 1
        for c in range(110 if quick else 1200):
            body, abc, nseq = byte_db(8, 60)
            t = {"amino": 3, "dna": 2, "rna": 1}[abc]
            expect = rng.choice(["none", "none", abc, abc, rng.choice(["amino", "dna", "rna"])])
            kind = rng.choice(["none", "magic", "tag", "alphatype", "idxhdr", "stub1", "stub", "trunc", "trunc", "two"])
            def one(kind):
                f = rng.choice(["dsqi", "dsqm", "dsqs"])
                if kind == "magic": return "%s:%d:%d" % (f, rng.randrange(0, 4), rng.choice([1, 2, 4, 8, 16, 32, 64, 128, 255, rng.randrange(1, 256)]))
                if kind == "tag": return "%s:%d:%d" % (f, rng.randrange(4, 8), rng.choice([1, 128, 255, rng.randrange(1, 256)]))
                if kind == "alphatype":
                    off = rng.randrange(8, 12)
                    m = rng.randrange(1, 256)
                    while off == 8 and (t ^ m) == 6: m = rng.randrange(1, 256)       # eslNONSTANDARD: esl_alphabet_Create() aborts by design
                    if rng.random() < 0.5 and off == 8: m = rng.choice([x for x in (1, 2, 3, 4, 5, 6, 7) if (t ^ x) != 6])
                    return "dsqi:%d:%d" % (off, m)
                if kind == "idxhdr":
                    off = rng.randrange(12, 52)
                    # the loader checks the header's nseq (bytes 36..43) at end of data: a corrupted count is a fatal loader error, not for an in-process run
                    if 36 <= off < 44: off = rng.choice(list(range(12, 36)) + list(range(44, 52)))
                    return "dsqi:%d:%d" % (off, rng.randrange(1, 256))
                if kind == "stub1": return "stub:%d:%d" % (rng.randrange(0, 30), rng.choice([1, 2, 16, 32, 0x80, rng.randrange(1, 256)]))
                if kind == "stub": return "stub:%d:%d" % (rng.randrange(0, 200), rng.randrange(1, 256))
                if kind == "trunc":
                    f = rng.choice(["dsqi", "dsqm", "dsqs", "stub"])
                    lim = {"dsqi": 52 + 16 * nseq, "dsqm": 7, "dsqs": 7, "stub": 40}[f]     # data files cut inside the header only: a loader that runs out of data is fatal by design
                    if f == "dsqi":      # a cut index is a fatal loader error (fix 78cbf46): left to the forked dsqcut runs
                        return "dsqi:trunc:%d" % rng.choice([0, 4, 8, 51, rng.randrange(0, 52), 52 + 16 * nseq, 52 + 16 * nseq + 3])
                    return "%s:trunc:%d" % (f, rng.choice([0, 1, 3, 4, 7, rng.randrange(0, lim + 1)]) if f != "dsqi" else rng.choice([0, 4, 8, 51, 52, 52 + 16 * rng.randrange(0, nseq + 1), rng.randrange(0, lim + 1)]))
                return "-"
            mut = one(kind) if kind != "two" else one(rng.choice(["magic", "tag", "stub1"])) + "," + one(rng.choice(["magic", "tag", "idxhdr", "trunc"]))
            lim = "maxseq=%d maxpacket=%d unpackers=%d" % (rng.choice([0, 1, 2, 3]), rng.choice([0, 0, 11, 40]), rng.randrange(0, 5))
            out.append({"name": "dsqopen%d" % c, "ops": ["dsqopen %s expect=%s mut=%s %s" % (body, expect, mut, lim)]})
            stats["dsqopen"] = stats.get("dsqopen", 0) + 1
        # --- data files cut short BEHIND the header (round 6): each of .dsqi / .dsqm / .dsqs truncated at every record / sequence boundary
        #     (a superset of the chunk boundaries) and one byte either side, plus the header boundaries; run in a forked child under the watchdog.
        #     .dsqm / .dsqs: the loader's short-read branch (esl_fatal, the documented outcome); .dsqi: fread's short count is taken as end of data
        def cut_db():
            amino = rng.random() < 0.45
            abc = "amino" if amino else rng.choice(["dna", "rna"])
            nseq = rng.choice([1, 2, 3, 4, 5, 6, 8])
            seqs = [self.rand_dsq(rng, amino, rng.choice([20, 50, 100])) for _ in range(nseq)]
            c = self.dsq_case("x", abc, seqs, 0, 0, 0, 1, 1, 0, rng)
            a = kv(c["ops"][0])
            mp = max(npk(d, amino) for d in seqs)
            return "abc=%s names=%s descs=%s dsq=%s" % (abc, a["names"], a["descs"], a["dsq"]), a, amino, seqs, mp
        unx_ = lambda x: list(bytes.fromhex(x[1:]))
        for c in range(5 if quick else 60):
            body, a, amino, seqs, mp = cut_db()
            names = [unx_(x) for x in a["names"].split(",")]; descs = [unx_(x) for x in a["descs"].split(",")]
            idx, md, sq = dsq_files(0, 2, [(n, [], d, -1, q) for n, d, q in zip(names, descs, seqs)], amino)
            maxseq = rng.choice([1, 1, 2, 3, 0]); maxpacket = rng.choice([mp, mp, mp + 1, 2 * mp, 0]); U_ = rng.randrange(0, 5)
            pts = {"dsqi": [52 + 16 * i for i in range(len(seqs) + 1)], "dsqm": [8], "dsqs": [8]}
            mpos = spos = 0
            for n_, d_, q_ in zip(names, descs, seqs):
                mpos += len(n_) + 1 + 1 + len(d_) + 1 + 4; spos += 4 * npk(q_, amino)
                pts["dsqm"].append(8 + mpos); pts["dsqs"].append(8 + spos)
            ops = []
            for f, L in (("dsqi", len(idx)), ("dsqm", len(md)), ("dsqs", len(sq))):
                ats = set()
                for b in pts[f]: ats.update([b - 1, b, b + 1])
                ats.update([rng.randrange(0, L + 1) for _ in range(3)]); ats.update([L, L + 1, L - 1])
                if not quick: ats.update([0, 4, 7])
                for at in sorted(x for x in ats if 0 <= x <= L + 1):
                    if quick and rng.random() < 0.35 and at not in (L, L - 1): continue
                    ops.append("dsqcut %s file=%s at=%d maxseq=%d maxpacket=%d unpackers=%d pert=%d seed=%d" % (
                        body, f, at, maxseq, maxpacket, U_, rng.choice([0, 0, 30, 70]), rng.randrange(1, 1 << 30)))
            stats["dsqcut"] = stats.get("dsqcut", 0) + len(ops)
            out.append({"name": "dsqcut%d" % c, "ops": ops})
        # --- systematic sweep, every run: flip EACH byte of EACH header field that esl_dsqdata_Open validates (magic and tag of the three
        #     data files, the alphabet type), set the type field to every interesting value, with and without a caller alphabet
        k = 0
        for f in ("dsqi", "dsqm", "dsqs"):
            for off in range(8):
                body, abc, nseq = byte_db(3, 30)
                out.append({"name": "dsqopen-sweep-%s-%d" % (f, off), "ops": ["dsqopen %s expect=%s mut=%s:%d:%d maxseq=0 maxpacket=0 unpackers=%d" % (
                    body, rng.choice(["none", abc]), f, off, rng.choice([1, 2, 4, 8, 16, 32, 64, 128, 255]), rng.randrange(0, 3))]})
                k += 1
        for v in (0, 1, 2, 3, 4, 5, 7, 8, 255):
            for expect_own in (False, True):
                body, abc, nseq = byte_db(3, 30)
                t = {"amino": 3, "dna": 2, "rna": 1}[abc]
                if v == t: continue
                out.append({"name": "dsqopen-type-%d-%d" % (v, expect_own), "ops": ["dsqopen %s expect=%s mut=dsqi:8:%d maxseq=0 maxpacket=0 unpackers=1" % (
                    body, abc if expect_own else "none", t ^ v)]})
                k += 1
        for off in (9, 10, 11):
            body, abc, nseq = byte_db(3, 30)
            out.append({"name": "dsqopen-type-hi-%d" % off, "ops": ["dsqopen %s expect=%s mut=dsqi:%d:%d maxseq=0 maxpacket=0 unpackers=1" % (
                body, rng.choice(["none", abc]), off, rng.choice([1, 128, 255]))]})
            k += 1
        stats["dsqopen"] = stats.get("dsqopen", 0) + k
        rng.shuffle(out)
        return out

    # ------------------------------------------------------------------ comparison
    def canonical(self, line):
        if line.startswith("fault "): return "fault"
        if " tag=" in line and line.startswith(("ok stub=", "open-")): return "ok deferred"      # compared in compare(), once the random uniquetag is known
        if line.startswith("cut-fatal "): return line.split(" delivered=")[0].split(" chunks=")[0]     # how far the consumer got before the process ended is up to the schedule (compare())
        i = line.find(" trace=")
        return line[:i] if i >= 0 else line

    def validate(self, ctx, op):
        """answer of the model driver to one trace-validation op"""
        try:
            if getattr(ctx, "_c12_driver", None) is None:
                ctx._c12_driver = PersistentDriver(ctx.driver_exe, ctx.work)
            r = ctx._c12_driver.ask(op)
            if r is not None: return r
        except Exception:
            ctx._c12_driver = None
        return (run_side(ctx.driver_exe, [{"name": "t", "ops": [op]}], cwd=ctx.work)[0] or ["<no answer>"])[0]

    def compare(self, ctx, case, impl_out, model_out):
        # the implementation's process dies at a fault: compare up to and including that line only
        for i, l in enumerate(impl_out):
            if l.startswith("fault "):
                impl_out, model_out = impl_out[:i + 1], model_out[:i + 1]
                break
        d = Prop.compare(self, ctx, case, impl_out, model_out)
        if d is not None:
            return d
        # trace validation: the logged run must be a path of the model and satisfy the invariants at every step
        for i, (op, l) in enumerate(zip(case["ops"], impl_out)):
            if op.startswith("dsqcut ") and l.startswith("cut-fatal ") and i < len(model_out) and " chunks=" in model_out[i]:
                # the chunks the consumer received before the loader ended the process: a prefix of the chunks the model's loader had loaded
                got = l.split(" delivered=")[1].split()[0]; want = model_out[i].split(" chunks=")[1].split()[0]
                g = [] if got == "-" else got.split(","); w_ = [] if want == "-" else want.split(",")
                ctx.stats["cut_fatal"] = ctx.stats.get("cut_fatal", 0) + 1
                ctx.stats["cut_fatal_delivered_chunks"] = ctx.stats.get("cut_fatal_delivered_chunks", 0) + len(g)
                if g != w_[:len(g)]:
                    return (i, "delivered before the fatal short read: " + got, "a prefix of " + want)
            if op.startswith(("dsqwrite ", "dsqopen ")) and " tag=" in l:
                # the uniquetag is random and the stub names the sequence file: ask the model for the same tag / name, compare exactly
                j = l.find(" tag=")
                t = kv(l[j:])
                res = self.validate(ctx, op + " tag=%s fname=%s" % (t["tag"], t["fname"]))
                ctx.stats["bytes_compared"] = ctx.stats.get("bytes_compared", 0) + (len(l[:j]) // 2 if op.startswith("dsqwrite") else 0)
                if res != l[:j]:
                    k = next((x for x in range(min(len(res), j)) if res[x] != l[x]), min(len(res), j))
                    return (i, "…" + l[max(0, k - 60):k + 80], "…" + res[max(0, k - 60):k + 80])
            if op.startswith("wqrun ") and " trace=" in l:
                tr = l[l.find(" trace=") + 7:]
                res = [self.validate(ctx, "wqtrace size=%s ev=%s" % (kv(op)["size"], tr))]
                ctx.stats["trace_steps_validated"] = ctx.stats.get("trace_steps_validated", 0) + tr.count(";") + 1
                if not res[0].startswith("ok "):
                    return (i, "trace: " + res[0][:400], "trace: a path of the work-queue model")
                self.cover(ctx, "workqueue", res[0])
            if op.startswith("dsqrt ") and " trace=" in l and not l.endswith(" trace=-"):
                tr = l[l.find(" trace=") + 7:]
                a, r = kv(op), kv(l[:l.find(" trace=")])
                i0s = ",".join(c.split(":")[0] for c in r["chunks"].split(",")) if r.get("chunks", "-") != "-" else "-"
                U = int(a["unpackers"]) or self.K("unpackers")
                res = [self.validate(ctx, "dsqtrace U=%d C=%s i0=%s ev=%s" % (U, a["consumers"], i0s, tr))]
                ctx.stats["trace_steps_validated"] = ctx.stats.get("trace_steps_validated", 0) + tr.count(";") + 1
                if not res[0].startswith("ok "):
                    return (i, "trace: " + res[0][:400], "trace: a path of the dsqdata pipeline model")
                self.cover(ctx, "pipeline", res[0])
            if op.startswith("thrun ") and " trace=" in l:
                tr = l[l.find(" trace=") + 7:]
                res = [self.validate(ctx, "thtrace ev=%s" % tr)]
                ctx.stats["trace_steps_validated"] = ctx.stats.get("trace_steps_validated", 0) + tr.count(";") + 1
                if not res[0].startswith("ok "):
                    return (i, "trace: " + res[0][:400], "trace: a path of the start-rendezvous model")
                self.cover(ctx, "threads", res[0])
        return None

    # the branches of the three transition relations (as the driver names them: Driver/C12.lean wqKind / pipeKinds / thValidate)
    UNIVERSE = {
        "pipeline": ["L-create-chunk", "L-top-wait-recycling-empty", "L-top-pop-recycled", "L-put-wait-inbox-full", "L-put", "L-eod-wait-inbox-full", "L-eod-set",
                     "L-drain-wait", "L-drain-free", "U-get-wait", "U-get-chunk", "U-get-eod", "U-put-wait-outbox-full", "U-put-chunk", "U-put-eod",
                     "C-read-sleep", "C-read-chunk", "C-read-eof", "C-wake-sleep-again", "C-wake-chunk", "C-wake-eof", "C-recycle", "C-recycle-wakes-loader",
                     "L-top-pop-recycled/woken", "L-put/woken", "L-eod-set/woken", "L-drain-free/woken", "U-get-chunk/woken", "U-get-eod/woken", "U-put-chunk/woken", "U-put-eod/woken",
                     "L-top-wait-recycling-empty/woken", "L-put-wait-inbox-full/woken", "L-eod-wait-inbox-full/woken", "L-drain-wait/woken", "U-get-wait/woken", "U-put-wait-outbox-full/woken",
                     "S-all-unpackers-asleep", "S-consumer-and-loader-asleep", "S-recycling-depth>=3", "S-consumers-hold>=3", "S-all-boxes-full"],
        "workqueue": ["init", "init-wakes-reader", "remove", "remove-empty", "reset-moves", "reset-nothing", "complete-broadcast", "complete-nobody",
                      "rupd-in-take", "rupd-in-sleep", "rupd-in-noout", "rupd-in-wakes-workers-take", "rupd-in-wakes-workers-sleep", "rupd-in-wakes-workers-noout",
                      "rupd-noin-take", "rupd-noin-sleep", "rupd-noin-noout", "rwake-take", "rwake-sleep",
                      "wupd-in-take", "wupd-in-sleep", "wupd-in-noout", "wupd-in-wakes-reader-take", "wupd-in-wakes-reader-sleep", "wupd-in-wakes-reader-noout",
                      "wupd-noin-take", "wupd-noin-sleep", "wupd-noin-noout", "wwake-take", "wwake-sleep"],
        "threads": ["Tf-sleep", "Tf-pass", "Tw-sleep", "Tw-pass", "Af-sleep", "Aw-sleep", "Aw-pass", "finish"],
    }

    def cover(self, ctx, model, res):
        i = res.find(" cov=")
        if i < 0: return
        cov = ctx.stats.setdefault("transition_branch_hits", {}).setdefault(model, {})
        for k in res[i + 5:].split()[0].split("+"):
            if k != "-": cov[k] = cov.get(k, 0) + 1

    def nontrivial(self, case, out):
        if not out or any(not l.startswith(("ok", "eod")) and not l.startswith(("wouldblock", "disabled", "overflow")) for l in out):
            return False
        return any(("P=" in l and kv(l).get("P", "1") not in ("0", "1")) or l.count(":") >= 4 or " trace=" in l or l.startswith("ok b=") for l in out)

    # ------------------------------------------------------------------ property monitors (implementation output only)
    def monitor(self, ctx, case, out):
        for op, l in zip(case["ops"], out):
            w = op.split()
            a = kv(op)
            if w[0] in ("rt5", "rt2"):
                d = a["d"]
                codes = bytes.fromhex(d) if d != "-" else b""
                if all(x <= 30 for x in codes):
                    if not l.startswith("ok "):
                        return Failure("monitor", "round trip of a valid sequence failed: %r -> %r" % (op[:200], l[:200]))
                    r = kv(l)
                    if r["d"] != d or r["P"] != r["P2"] or int(r["P"]) > max(1, (len(codes) + 5) // 6) or int(r["L"]) != len(codes):
                        return Failure("monitor", "unpack(pack(d)) != d or packet count off: %r -> %r" % (op[:200], l[:200]))
            elif w[0] in ("pack5", "pack2") and l.startswith("ok "):
                r = kv(l)
                codes = bytes.fromhex(a["d"]) if a["d"] != "-" else b""
                if all(x <= 30 for x in codes):
                    ps = [int(x) for x in r["psq"].split(",")]
                    if r["inplace"] != "same" or len(ps) > max(1, (len(codes) + 5) // 6) or any(((p >> 31) & 1) != (i == len(ps) - 1) for i, p in enumerate(ps)):
                        return Failure("monitor", "pack: in-place result differs / too many packets / EOD bit misplaced: %r -> %r" % (op[:200], l[:200]))
            elif w[0] == "wq":
                if w[1] == "create": size, ninit, inited, mine = int(a["size"]), 0, [], []
                m = re.match(r"(\S+)(?: b=(\d+))? \| (-?\d+) (-?\d+) (-?\d+) (\S+) (\S+)$", l)
                if not m: continue
                st = m.group(1)
                if w[1] == "init" and st == "ok":
                    ninit += 1; inited.append(int(a["b"]))
                if ninit > size: continue        # more blocks than the queue size: outside the caller's contract (model and code still must agree)
                if l.startswith("ok b=0"):
                    return Failure("monitor", "queue handed out NULL with eslOK: %r" % l)
                if st == "ok" and w[1] in ("rupd", "wupd") and a.get("in", "0") != "0" and int(a["in"]) in mine: mine.remove(int(a["in"]))
                if st == "ok" and m.group(2): mine.append(int(m.group(2)))
                rc, wc, pend = int(m.group(3)), int(m.group(4)), int(m.group(5))
                rl = [int(x) for x in m.group(6).split(",")] if m.group(6) != "-" else []
                wl = [int(x) for x in m.group(7).split(",")] if m.group(7) != "-" else []
                if not (0 <= rc <= size and 0 <= wc <= size and pend == 0) or 0 in rl or 0 in wl or len(rl) != rc or len(wl) != wc:
                    return Failure("monitor", "queue counters out of range / NULL queued / pendingWorkers non-zero with no worker inside: %r" % l)
                if sorted(rl + wl + mine) != sorted(inited):
                    return Failure("monitor", "blocks not conserved: handed in %r, now queued %r + %r, held by threads %r (after %r)" % (sorted(inited), rl, wl, sorted(mine), op))
                if w[1] == "reset" and st == "ok" and wc != 0:
                    return Failure("monitor", "Reset left %d block(s) in the worker queue: %r" % (wc, l))
            elif w[0] == "wqrun":
                want = "ok items=%s processed=%s stops=%s order=fifo final=%s,0,0 removed=%s" % (a["items"], a["items"], a["workers"], a["blocks"], a["blocks"])
                if self.canonical(l) != want:
                    return Failure("monitor", "threaded run lost / duplicated / reordered work or did not finish cleanly: got %r want %r" % (self.canonical(l)[:200], want))
            elif w[0] == "thrun":
                want = "ok workers=%s rounds=%s idx=ok early=0" % (a["workers"], a["rounds"])
                if self.canonical(l) != want:
                    return Failure("monitor", "start rendezvous: a worker passed the gate early / worker indices not a bijection / did not finish: got %r" % self.canonical(l)[:200])
            elif w[0] == "dsqwrite" and l.startswith("ok stub="):
                r = kv(l)
                unx = lambda x: list(bytes.fromhex(x[1:]))
                lst = lambda k: [unx(x) for x in a[k].split(",")] if a[k] != "-" else []
                names, accs, descs, ds = lst("names"), lst("accs"), lst("descs"), lst("dsq")
                tax = [int(x) for x in a["taxids"].split(",")]
                amino = a["abc"] == "amino"
                idx, md, sq = dsq_files(int(r["tag"]), {"amino": 3, "dna": 2, "rna": 1}[a["abc"]], list(zip(names, accs, descs, tax, ds)), amino, self.K("magic"))
                for nm, want in (("dsqi", idx), ("dsqm", md), ("dsqs", sq)):
                    if r[nm] != hx(want):
                        return Failure("monitor", "esl_dsqdata_Write: file %s differs from the documented layout (python oracle): got %s… want %s…" % (nm, r[nm][:120], hx(want)[:120]))
                first = bytes.fromhex(r["stub"]).split(b"\n")[0]
                if first != b"Easel dsqdata v1 x%d" % int(r["tag"]):
                    return Failure("monitor", "stub tag line %r does not carry the tag %s of the data files" % (first, r["tag"]))
            elif w[0] == "dsqopen":
                if l.startswith(("fault", "atexit")):
                    return Failure("fault", "esl_dsqdata_Open / read of a mutated database died: %s" % l[:200])
                muts = [m.split(":") for m in a["mut"].split(",")] if a["mut"] != "-" else []
                nseq = a["dsq"].count(",") + 1
                if not muts and (a["expect"] in ("none", a["abc"])):
                    if not l.startswith("open-ok ") or kv(l).get("nseq") != str(nseq):
                        return Failure("monitor", "Open/read of an intact database failed: %r" % l[:200])
                net = {}        # two flips of the same byte may cancel: what counts is the net change of each header byte
                for m in muts:
                    if m[0] != "stub" and m[1] != "trunc": net[(m[0], int(m[1]))] = net.get((m[0], int(m[1])), 0) ^ int(m[2])
                truncs = [m for m in muts if m[0] != "stub" and m[1] == "trunc"]
                if any(off < 8 and x != 0 for (f_, off), x in net.items()) or any(int(m[2]) < 8 for m in truncs):
                    if not l.startswith("open-eformat "):
                        return Failure("monitor", "a corrupted / missing magic or tag was not answered eslEFORMAT: mut=%s -> %r" % (a["mut"], l[:200]))
            elif w[0] == "dsqcut":
                if l.startswith(("fault", "atexit", "cut-odd")):
                    return Failure("fault", "reading a database whose %s was cut at byte %s hung / crashed / ended irregularly: %s" % (a["file"], a["at"], l[:200]))
                unx = lambda x: list(bytes.fromhex(x[1:]))
                names, descs, ds = [[unx(x) for x in a[k].split(",")] for k in ("names", "descs", "dsq")]
                amino = a["abc"] == "amino"
                idx, md, sq = dsq_files(0, 2, [(n, [], d, -1, q) for n, d, q in zip(names, descs, ds)], amino)
                L = {"dsqi": len(idx), "dsqm": len(md), "dsqs": len(sq)}[a["file"]]
                at, hdr = int(a["at"]), (52 if a["file"] == "dsqi" else 8)
                if at < hdr:
                    if not l.startswith("open-eformat "):
                        return Failure("monitor", "a data file cut inside its header was not refused with eslEFORMAT: %s at=%d -> %r" % (a["file"], at, l[:200]))
                elif at >= L:
                    if not l.startswith("cut-ok ") or kv(l)["nseq"] != str(len(ds)):
                        return Failure("monitor", "an intact database was not read to its end: %r" % l[:200])
                elif a["file"] != "dsqi":
                    # data missing behind the header: the documented outcome is the loader's fatal error; what must never happen is eslEOF
                    # after a part of the sequences (a truncated database passed off as a complete one), a hang, or a crash
                    if not l.startswith("cut-fatal who=loader"):
                        return Failure("monitor", "%s cut at byte %d of %d: expected the loader's fatal short-read error, got %r" % (a["file"], at, L, l[:200]))
                else:
                    # index records missing: the loader's end-of-data check against the header's nseq must stop the run (fix 78cbf46);
                    # eslEOF after the surviving records = a truncated database passed off as a complete, smaller one
                    if not l.startswith("cut-fatal who=loader"):
                        return Failure("monitor", "dsqi cut at byte %d of %d (%d of %d index records left): expected the loader's fatal error, got %r" % (
                            at, L, (at - 52) // 16, len(ds), l[:200]))
            elif w[0] == "dsqrt":
                if l.startswith(("fault", "atexit")):
                    return Failure("fault", "threaded read-back died: %s" % l[:200])
                if a.get("writer") != "raw" and any(len(x) - 1 >= 2 * 6 * self.K("chunkMaxpacket") for x in a["dsq"].split(",")):
                    if l != "write-eunimplemented":
                        return Failure("monitor", "esl_dsqdata_Write accepted a sequence of 6*eslDSQDATA_CHUNK_MAXPACKET residues or more: %r" % l[:100])
                    continue
                r = kv(l)
                nseq = 0 if a["dsq"] == "-" else a["dsq"].count(",") + 1
                unx = lambda x: list(bytes.fromhex(x[1:]))
                if not l.startswith("ok ") or r.get("dup") != "0" or r.get("miss") != "0" or r.get("bad") != "-1" or r.get("oob") != "0" or r.get("err") != "0" or r.get("lockerr") != "0" or r.get("ownerr", "0") != "0" or r.get("leak") != "0" \
                        or r.get("eofs") != a["consumers"] or r.get("nseq") != str(nseq):
                    return Failure("monitor", "read-back differs from what was written (dup/miss/bad record, EOF not delivered to every consumer, lock misuse, a parked / consumer-held chunk written to by somebody else, leaked chunk): %r" % l[:300])
                amino = a["abc"] == "amino"
                P = [len((pack5 if amino else pack2)(unx(x))) for x in (a["dsq"].split(",") if a["dsq"] != "-" else [])]
                maxseq, maxpacket = int(a["maxseq"]) or self.K("chunkMaxseq"), int(a["maxpacket"]) or self.K("chunkMaxpacket")      # 0 = the library's defaults
                i = 0
                for ch in (r["chunks"].split(",") if r["chunks"] != "-" else []):
                    i0, n, pn = map(int, ch.split(":"))
                    if i0 != i or n < 1 or n > maxseq or pn != sum(P[i:i + n]) or pn > maxpacket:
                        return Failure("monitor", "chunk %s is not the contiguous continuation / exceeds the limits (maxseq %d, maxpacket %d)" % (ch, maxseq, maxpacket))
                    if n < maxseq and i + n < nseq and pn + P[i + n] <= maxpacket:
                        return Failure("monitor", "chunk %s is not maximal: the next sequence (%d packets) still fits" % (ch, P[i + n]))
                    i += n
                if i != nseq:
                    return Failure("monitor", "chunks cover %d of %d sequences" % (i, nseq))
        return None

    def extra_evidence(self, ctx):
        return {"input_distribution": ctx.stats.get("inputs", {}), "trace_steps_validated": ctx.stats.get("trace_steps_validated", 0),
                "file_bytes_compared_exactly": ctx.stats.get("bytes_compared", 0),
                "transition_coverage": {m: {"branches_covered": len([k for k in self.UNIVERSE[m] if k in c]),
                                            "branches_named": len(self.UNIVERSE[m]), "not_covered_this_run": [k for k in self.UNIVERSE[m] if k not in c],
                                            "outside_the_list": [k for k in c if k not in self.UNIVERSE[m]]}
                                        for m, c in ctx.stats.get("transition_branch_hits", {}).items()},
                "cut_runs_ended_by_loader_fatal": ctx.stats.get("cut_fatal", 0), "chunks_delivered_before_those_fatals": ctx.stats.get("cut_fatal_delivered_chunks", 0)}


SPEC = C12()
