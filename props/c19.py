"""C19 — key hash, integer heap, red-black tree, stacks, index quicksort behave as their abstract types.
Model: lean/EaselModel/Containers/*, theorems: Props/C19.lean, harness: h_containers.c"""
import bisect
from vlib.engine import Prop, Failure

NUL_KEY = "C19:keyhash:embedded-nul"
INT_MIN, INT_MAX = -2**31, 2**31 - 1


def hx(b):
    return b.hex() if b else "-"


def unhx(s):
    return b"" if s == "-" else bytes.fromhex(s)


def ints(s):
    return [] if s in ("-", "") else [int(x) for x in s.split(",")]


def fmt_ints(l):
    return ",".join(str(x) for x in l) if l else "-"


def kv_of(op):
    w = op.split()
    return w[0], dict(x.split("=", 1) for x in w[1:] if "=" in x)


def parse_tree(s):
    """'(B5 (R3 . .) .)' -> nested tuple (colour, key, small, large) / None"""
    pos = [0]

    def rec():
        if s[pos[0]] == ".":
            pos[0] += 1
            return None
        assert s[pos[0]] == "("
        pos[0] += 1
        c = s[pos[0]]; pos[0] += 1
        j = pos[0]
        while s[j] != " ":
            j += 1
        key = int(s[pos[0]:j]); pos[0] = j + 1
        a = rec()
        assert s[pos[0]] == " "; pos[0] += 1
        b = rec()
        assert s[pos[0]] == ")"; pos[0] += 1
        return (c, key, a, b)
    t = rec()
    assert pos[0] == len(s)
    return t


def check_rb(t):
    """returns (error or None, sorted key list)"""
    keys = []
    err = []

    def rec(n, lo, hi, parent_red):
        if n is None:
            return 1
        c, k, a, b = n
        if c not in "RB":
            err.append("bad colour at %d" % k)
        if (lo is not None and not k > lo) or (hi is not None and not k < hi):
            err.append("order broken at key %d" % k)
        if c == "R" and parent_red:
            err.append("red node %d has a red parent" % k)
        ha = rec(a, lo, k, c == "R")
        keys.append(k)
        hb = rec(b, k, hi, c == "R")
        if ha != hb:
            err.append("black heights differ under %d (%d vs %d)" % (k, ha, hb))
        return ha + (1 if c == "B" else 0)
    if t is not None and t[0] != "B":
        err.append("root is not black")
    import sys
    sys.setrecursionlimit(max(sys.getrecursionlimit(), 10000))
    rec(t, None, None, False)
    return (err[0] if err else None), keys


class C19(Prop):
    id = "C19"
    lean_modules = ["EaselModel.Props.C19"]
    lean_exe = "c19_driver"
    harness = "h_containers.c"
    theorems = ["EaselModel.Props.C19." + t for t in (
        "keyhash_refines_partial", "keyhash_refines_cstrings", "keyhash_refines_mixed", "keyhash_nul_store_answer", "keyhash_string_paths", "keyhash_dump", "keyhash_cstr_of_nulfree", "keyhash_never_faults_partial", "keyhash_refines_jenkins_partial", "keyhash_ops_partial", "keyhash_upsize", "keyhash_fields_in_range_partial", "jenkins_in_range",
        "keyhash_embedded_nul_counterexample", "spec_store", "spec_lookup", "spec_get",
        "keyhash_refines", "keyhash_never_faults", "keyhash_refines_jenkins", "keyhash_ops", "keyhash_key_length", "keyhash_get_cstring", "keyhash_string_paths_repaired", "keyhash_dump_repaired", "keyhash_fields_in_range", "keyhash_embedded_nul_repaired", "keyhash_at_bound", "keyhash_below_bound", "keyhash_at_bound_default", "keyhash_kalloc_at_bound", "keyhash_hashsize_at_bound", "keyhash_growth_in_tree", "keyhash_growth_guarded_never_overflows", "keyhash_reuse_empties_every_slot", "keyhash_reuse_lookup_immediate",
        "heap_history", "heap_insert", "heap_extract", "heap_extract_null", "heap_extract_null_unguarded_faults", "heap_sorts", "heap_drain", "heap_validate", "heap_nalloc_in_range", "heap_grow", "heap_duplicates",
        "rb_insert", "rb_history", "rb_wf_iff", "rb_height", "rb_lookup", "rb_sorted_linked", "rb_linked_is_reverse_inorder", "rb_lookup_history", "rb_pool_never_twice", "rb_ptr_lookup", "rb_convert_doubly_linked", "rb_convert_null", "rb_convert_passes_list_test", "rb_ops_history", "rb_ptr_descend", "rb_ptr_insert_duplicate", "rb_ptr_insert_black_parent", "rb_ptr_insert_first", "rb_pool_give_take", "rb_ptr_insert_refines", "rb_ptr_rebalance_refines", "rb_ptr_insert_wf", "rb_ptr_history", "rb_ptr_history_converts", "rb_ptr_pool_history", "rb_ptr_pool_giveback", "rb_ptr_pool_giveback_history",
        "stack_history", "stack_history_shuffles", "stack_no_fault", "stack_threads_atomic", "stack_threads_conservation", "stack_threads_eod_only_after_release", "stack_threads_mutex_progress", "stack_threads_waiting_pop_completes", "stack_threads_stuck_only_when_all_asleep", "stack_threads_completes_after_release", "stack_push_pop", "stack_pop_empty", "stack_lifo", "stack_popAll_unfold", "stack_discardTopN", "stack_discardSelected",
        "stack_shuffle", "stack_convert2String", "stack_nalloc_in_range",
        "quicksort_sorts", "quicksort_unguarded_n0_faults")]
    claimed = True
    diverge_is_violation = True    # every op is a deterministic function of the history, specified exactly by the model
    quick_budget_s = 90
    thorough_budget_s = 900
    technique = ("Lean 4 proof (refinement of the insertion-ordered map by the chained hash table for any hash function; heap / red-black / "
                 "stack / quicksort invariants by induction) + exact differential correspondence of the executable models with the ASan/UBSan-built C code")
    level_text = ("Theorems for all histories / inputs (no bound): (1) the chained key hash (Store/Lookup/Get/Reuse/Clone, 8-fold key_upsize, arena and index reallocation) "
                  "refines the insertion-ordered list of distinct keys for ANY hash function into [0,size) and any initial sizes, with no out-of-bounds access and no endless chain walk - for ARBITRARY byte strings "
                  "(embedded NULs included; keyhash_refines, about the code after the repair 491f68d, which is the variant in the tree: regenerated flag KeyhashVariant.repaired), after Reuse EVERY slot is empty at any fill and any lookup answers not-found reading no record (keyhash_reuse_empties_every_slot, keyhash_reuse_lookup_immediate; raw slot walk op kh_slots compared exactly); (2) the integer heap refines the sorted-list priority queue for every interleaving of inserts / extractions / peeks (min and max), draining yields the sorted multiset; "
                  "(3) red-black insertion as coded never reaches esl_fatal and keeps BST order, black root, no red-red, equal black height, exactly the inserted keys, height <= 2 log2(n+1), and converts to the sorted list; POINTER LEVEL (records with small/large/parent pointers in a store): esl_red_black_doublekey_insert with rebalance - descent, linking, recolouring with its recursion up the parent pointers, the four rotations incl. root / great-grandparent relinking - REFINES the inductive insert for every laid-out tree, every key and every history (rb_ptr_insert_refines, rb_ptr_rebalance_refines, rb_ptr_history: same failure set, same keys and colours, correct child AND parent pointers, exactly the old records plus the new one, nothing else written), lookup, conversion to the doubly linked list passing the library's own list test, and the caller\'s loop with the node pool (take, write key, insert, give a refused record back: rb_ptr_pool_giveback - tree records + free records stay a permutation, none lost, none handed out twice); "
                  "(4) stacks refine the LIFO list for every history of push/pop/DiscardTopN/DiscardSelected/Reuse, shuffles permute for every generator state; in thread-communication mode (mutex + condition variable, blocking Pop, ReleaseCond) an interleaving transition system shows for EVERY schedule of any number of pusher / popper threads that no item is lost or duplicated, eslEOD is answered only after ReleaseCond, the only stuck state is 'all unfinished threads asleep on an empty stack before ReleaseCond', and after ReleaseCond every thread can run to completion; "
                  "(5) index quicksort (partition as written, incl. the no-op first swap) terminates without out-of-bounds access and returns a permutation of 0..n-1 ordering the data for any total preorder, every n>=0. "
                  "The hand-written models are tied to the working tree by an exact differential run over operation histories including internal state dumps; abstract-type monitors in Python give a concrete failing history.")
    level_note = ("Trusted: Lean kernel + propext/Classical.choice/Quot.sound; fidelity of the hand models is checked (not proved) by the differential run. "
                  "The keyhash embedded-NUL defect (keys stored by length compared with strlen-based routines), esl_quicksort n=0 and esl_heap_IExtractTop(hp,NULL) on an empty heap were found by this check and are fixed in the tree; regression cases kept, and the theorems about the code BEFORE each fix are kept as regression theorems "
                  "(keyhash_*_partial, keyhash_embedded_nul_counterexample are about the unrepaired key comparison, which the driver would run again if the tree went back to it). "
                  "C int arithmetic: below 2^30-1 keys / arena bytes no field overflows (keyhash_fields_in_range); AT the bound the growth code is modelled in the C types (KeyhashInt32.lean: keyhash_at_bound, keyhash_kalloc_at_bound, keyhash_hashsize_at_bound): the uint32 hashsize arithmetic never wraps below the 2^28 growth stop and the stop is a no-op (refinement holds for any table size); the int doubling of salloc / kalloc overflowed (UB) once the arena needed > 2^30 bytes (~3 GiB to reach: found by this modelling, outside the property's quantifier of <= 10^5 keys of <= 300 bytes, repaired in the tree by 6d58328 - the variant is regenerated every run: KeyhashGrowthVariant.growthGuarded, keyhash_growth_in_tree); the at-bound behaviour is proved, not exercised by the differential run (needs a 1 GiB key). Allocation failure is outside the model; red-black keys are integers (doubles without NaN).")
    trusted_base = ["hand models of esl_keyhash.c / esl_heap.c / esl_red_black.c / esl_stack.c / esl_quicksort.c tied by exact differential run "
                    "(h_containers.c, ASan+UBSan build of the working tree), including internal state dumps (heap array, tree shape and colours, stack array, table sizes)",
                    "Lean compiler/runtime for the executable driver", "gcc"]
    assumptions = ["keyhash: sentinel -1 modelled as Option.none; arena modelled as its used part smem[0..sn); int arithmetic modelled in Nat - justified by keyhash_fields_in_range_partial: while the table holds at most 2^30-1 keys and 2^30-1 arena bytes every int/uint32 field stays <= 2^31-1 (likewise nalloc of heaps and stacks: heap_nalloc_in_range, stack_nalloc_in_range)",
                   "keyhash API with n=-1 (C strings): the string hash loop and strlen as written, proved equal to the buffer API applied to the bytes before the first NUL (keyhash_string_paths_repaired; keyhash_string_paths for the strcmp walk of the unrepaired variant)",
                   "red-black: two models - the inductive tree (parent chain = recursion stack) and the pointer-level store (records with key, colour, parent, small, large; every record compared with the C records on every rp_nodes dump); the pointer-level insert is PROVED to refine the inductive one (rb_ptr_insert_refines); keys are integer-valued doubles",
                   "stacks: one model for the I/C/P variants; the mutex / condition-variable mode (esl_stack_UseMutex, UseCond, ReleaseCond) is exercised single-threaded by a third of the generated stack histories (a forgotten unlock blocks the next call: watchdog) and by real pusher / popper threads (op st_threads: up to 16+16 threads, poppers started first sleep in pthread_cond_wait; compared with the StackThreads transition system run under one schedule, which by stack_threads_conservation reports what every schedule reports); assumed: the pthread primitives behave as POSIX says; Shuffle's Roll loop has fuel 10^6 (terminates with probability 1)",
                   "keyhash: esl_keyhash_Get(kh, i) has no bounds check in C: an index that was never assigned is outside its contract (model: fault); generated histories only ask for assigned indices",
                   "red-black: a third of the generated trees take their nodes from esl_red_black_doublekey_pool_Create() blocks (1..64 nodes per block); the pool is a node supply only, the tree model is the same",
                   "quicksort: fuel >= n proved sufficient; comparison callback assumed a total preorder (as documented)",
                   "allocation failures (eslEMEM paths) are not exercised",
                   "the model's `jenkins` was measured identical to the static C jenkins_hash (buffer and string versions, bytes >= 0x80 included) on 60 keys during development; it is deliberately not compared on every run: the refinement theorem holds for every hash function, so a different hash is not a violation, and the harness does not depend on static names"]
    rule = ("cases = operation histories on one structure each; non-trivial = at least 3 answered ops none of which is bad-op; distinct by output trace")

    # ------------------------------------------------------------------ which variant of the key comparison is in the tree
    def repaired(self, ctx):
        """True when the working tree's esl_keyhash.c delimits stored keys by their offsets (key_length / key_matches: the
        repair of C19:keyhash:embedded-nul), False when it compares them with esl_memstrcmp / strcmp. Both variants are
        modelled and have their theorems; the driver runs the one selected here and the exact differential run decides
        whether the tree really behaves like it."""
        if getattr(self, "_rep_src", None) != ctx.src:
            import os, re
            txt = open(os.path.join(ctx.src, "esl_keyhash.c"), errors="replace").read()
            txt = re.sub(r"/\*.*?\*/", " ", txt, flags=re.S)
            self._rep = ("key_matches(" in txt) and ("key_length(" in txt) and ("esl_memstrcmp(" not in txt)
            self._rep_src = ctx.src
        return self._rep

    def growth_guarded(self, ctx):
        """True when esl_keyhash_Store() of the working tree refuses to double `kh->salloc` AND `kh->kalloc` past INT_MAX (the
        repair of C19:keyhash:salloc-int-overflow: a test against INT_MAX / 2 in front of each doubling), False when the
        doublings are unguarded. Selects which variant of `Keyhash.growC` / `doubleC` the `…_in_tree` theorems speak about."""
        import os, re
        txt = open(os.path.join(ctx.src, "esl_keyhash.c"), errors="replace").read()
        txt = re.sub(r"/\*.*?\*/", " ", txt, flags=re.S)
        m = re.search(r"\besl_keyhash_Store\s*\([^;{]*\)\s*\{(.*?)\n\}", txt, flags=re.S)
        body = m.group(1) if m else ""
        def guarded(field):
            d = re.search(r"kh->%s\s*(\*=\s*2|=\s*kh->%s\s*\*\s*2|\+=\s*kh->%s)" % (field, field, field), body)
            if not d: return False
            g = re.search(r"kh->%s\s*>=?\s*\(?\s*INT_MAX\s*/\s*2" % field, body[:d.start()])
            return bool(g)
        return guarded("salloc") and guarded("kalloc")

    def generated(self, ctx):
        rep = self.repaired(ctx)
        ctx.stats["keyhash_variant_in_tree"] = "repaired (key_length/key_matches)" if rep else "unrepaired (esl_memstrcmp/strcmp)"
        grd = self.growth_guarded(ctx)
        ctx.stats["keyhash_growth_variant_in_tree"] = ("guarded (eslEMEM before salloc/kalloc would pass INT_MAX)" if grd else
                                                       "unguarded (`salloc *= 2` / `kalloc *= 2` overflow int once the arena needs > 2^30 bytes / at 2^30 keys; outside the property's quantifier, reported as a finding only)")
        return {"EaselModel/Containers/KeyhashGrowthVariant.lean": (
            "/-! GENERATED by props/c19.py (`SPEC.generated`) from the working tree's esl_keyhash.c on every run — do not edit.\n"
            "Which of the two modelled variants of the allocation growth in `esl_keyhash_Store` the tree contains (`KeyhashInt32.lean`):\n"
            "`false`: `kh->salloc *= 2` / `kh->kalloc *= 2` unguarded (signed overflow at the bound);\n"
            "`true` : each doubling is preceded by `if (… > INT_MAX / 2) ESL_XEXCEPTION(eslEMEM, …)`. -/\n"
            "namespace EaselModel.Containers.Keyhash\n"
            "def growthGuarded : Bool := %s\n"
            "end EaselModel.Containers.Keyhash\n" % ("true" if grd else "false")),
                "EaselModel/Containers/KeyhashVariant.lean": (
            "/-! GENERATED by props/c19.py (`SPEC.generated`) from the working tree's esl_keyhash.c on every run — do not edit.\n"
            "Which of the two modelled variants of the key comparison the tree contains:\n"
            "`false`: stored keys are compared with `esl_memstrcmp` / `strcmp` and re-hashed as C strings (`Keyhash.lean`);\n"
            "`true` : stored keys are delimited by their offsets, `key_length()` / `key_matches()` (`KeyhashFixed.lean`).\n"
            "The driver runs the matching model; the exact differential run decides whether the tree really behaves like it. -/\n"
            "namespace EaselModel.Containers.Keyhash\n"
            "def repaired : Bool := %s\n"
            "end EaselModel.Containers.Keyhash\n" % ("true" if rep else "false"))}

    # ------------------------------------------------------------------ corpus
    def corpus(self, ctx):
        rep = self.repaired(ctx)
        nul_ops = ["kh_new size=2 kalloc=1 salloc=1", "store key=610062", "store key=610062", "lookup key=610062", "num"]
        if rep:
            # the former known finding, now a plain regression case: the key is one key, found again, also after the growth 2 -> 16
            # re-hashed it; distinct from "a" (n=-1 and n=1), from "a\0c" and from "a\0b\0"
            witness = {"name": "embedded-nul-regression", "sticky": 1,
                       "ops": nul_ops + ["lookup key=61 str=1", "lookup key=61", "store key=610063", "store key=61006200", "store key=00", "store key=0000", "store key=-",
                                         "lookup key=610062", "get i=0", "get i=3", "getall", "kh_dump", "kh_sizes", "store key=61", "lookup key=610062 str=1",
                                         "kh_clone", "kh_swap", "lookup key=610063", "lookup key=0000", "lookup key=00", "lookup key=000000", "kh_reuse", "lookup key=610062", "store key=610062", "num"]}
        else:
            witness = {"name": "embedded-nul-witness", "known_key": NUL_KEY, "sticky": 1, "ops": nul_ops}
        return [witness] + [
            # regression: esl_quicksort(n=0) used to read sorted_at[-1] (fixed by `if (n > 1)`)
            {"name": "quicksort-n0-regression", "sticky": 0, "ops": ["qsort mode=asc data=-", "qsort mode=desc data=7", "qsort mode=coarse data=-"]},
            # regression: esl_heap_IExtractTop(hp, NULL) on an empty heap used to store through NULL (fixed)
            {"name": "heap-extract-null-empty-regression", "sticky": 1, "ops": ["heap_new max=0", "hpop", "hins v=4,2", "hpop", "hpop", "hpop", "heap_new max=1", "hpop"]},
            {"name": "kh-basic", "sticky": 1,
             "ops": ["kh_new size=1 kalloc=1 salloc=1", "store key=61", "store key=62", "store key=61", "lookup key=62", "lookup key=63",
                     "store key=-", "lookup key=-", "store key=63", "store key=64", "get i=0", "get i=3", "getall", "kh_sizes",
                     "kh_clone", "lookup key=63", "store key=65", "kh_reuse", "lookup key=61", "store key=61", "num"]},
            {"name": "heap-basic", "sticky": 1,
             "ops": ["heap_new max=0", "hext", "hins v=5,3,8,1,9,2,3", "hdump", "hvalidate", "htop", "hext", "hdrain", "hext"]},
            {"name": "rb-basic", "sticky": 1,
             "ops": ["rb_new", "rb_list", "rb_ins k=5", "rb_dump", "rb_ins k=3,8,1,4,7,9,2,6,5", "rb_dump", "rb_lookup k=5,10,1", "rb_list", "rb_dump"]},
            {"name": "stack-basic", "sticky": 1,
             "ops": ["st_new t=c", "pop", "push v=104,105,33", "st_dump", "discardsel mode=eq p=105", "tostring",
                     "st_new t=p", "push v=1,2,3,4,5,6", "shuffle seed=42", "st_dump", "discardtop n=2", "popall"]},
            {"name": "stack-cond", "sticky": 1,
             "ops": ["st_new t=i mutex=1 cond=1", "push v=1,2,3", "pop", "discardtop n=1", "discardsel mode=even", "shuffle seed=3", "st_dump",
                     "st_reuse", "count", "st_release", "pop", "push v=9", "popall", "pop"]},
            {"name": "stack-threads", "sticky": 0,
             "ops": ["st_threads t=i pushers=1 poppers=1 popfirst=1 v=1,2,3", "st_threads t=c pushers=2 poppers=3 popfirst=0 v=5,5,7,0,255",
                     "st_threads t=p pushers=3 poppers=1 popfirst=1 v=-", "st_threads t=i pushers=16 poppers=16 popfirst=1 v=%s" % fmt_ints(list(range(-150, 150)))]},
            {"name": "rb-pool", "sticky": 1,
             "ops": ["rb_new exp=0 pool=2", "rb_ins k=5,3,8,3,1,4", "rb_dump", "rb_lookup k=3,7", "rb_list", "rb_ins k=2,1", "rb_dump",
                     "rb_new exp=-3 pool=1", "rb_ins k=1,1,2", "rb_dump"]},
            {"name": "rp-basic", "sticky": 1,
             "ops": ["rp_new pool=0", "rp_convert", "rp_ins k=5,3,8,3,1,4,7,9,2,6", "rp_nodes", "rp_hash", "rp_lookup k=3,10,1", "rp_pool",
                     "rp_convert", "rp_nodes", "rp_ltest", "rp_walk"]},
            {"name": "rp-pool", "sticky": 1,
             "ops": ["rp_new pool=3", "rp_ins k=1,2,3,4,5,6,7,8,9,10,5,11", "rp_pool", "rp_nodes", "rp_ins k=11,11,12", "rp_pool", "rp_convert", "rp_ltest", "rp_walk", "rp_nodes"]},
            {"name": "kh-api", "sticky": 1,
             "ops": ["kh_new size=3 kalloc=1 salloc=1", "kh_dump", "store key=6162", "store key=6163 str=1", "store key=616200 str=1", "lookup key=616200 str=1",
                     "lookup key=6100", "lookup key=610062", "kh_dump", "store key=64", "store key=65", "store key=66", "store key=67", "store key=68", "store key=69",
                     "store key=6a", "store key=6b", "kh_dump", "kh_sizes", "lookup key=6100", "lookup key=6b00ff str=1", "kh_clone", "kh_swap", "kh_dump", "kh_reuse", "kh_dump"]},
            {"name": "qsort-basic", "sticky": 0,
             "ops": ["qsort mode=asc data=5", "qsort mode=asc data=3,1,2", "qsort mode=desc data=1,1,1,1", "qsort mode=coarse data=9,1,17,2,10,3,-1"]},
        ]

    # ------------------------------------------------------------------ generators
    def rand_key(self, rng, pool):
        k = self.rand_key0(rng, pool)
        if getattr(self, "_nul", False) and rng.random() < 0.3:
            # the repaired code takes arbitrary bytes: embedded, leading, trailing and only NULs; keys differing after a NUL
            r = rng.random()
            if r < 0.3:
                k = bytes(rng.choice(b"a\0") for _ in range(rng.choice([1, 2, 3, 5, len(k) % 7])))
            elif r < 0.6 and k:
                i = rng.randrange(len(k)); k = k[:i] + b"\0" + k[i + rng.randrange(2):]
            elif r < 0.8:
                k = k + b"\0" * rng.choice([1, 1, 2])
            else:
                k = b"\0" + k
            k = k[:300]
        return k

    def rand_key0(self, rng, pool):
        r = rng.random()
        if pool and r < 0.25:
            k = rng.choice(pool)
            r2 = rng.random()
            if r2 < 0.4 and len(k) < 300:
                k = k + bytes([rng.randrange(1, 256)])       # shares a prefix with a stored key
            elif r2 < 0.6 and k:
                k = k[:-1]
            elif r2 < 0.8 and k:
                i = rng.randrange(len(k)); k = k[:i] + bytes([(k[i] % 255) + 1]) + k[i + 1:]
            return k
        L = rng.choice([0, 1, 1, 2, 3, 5, 8, 16, 40, 127, 128, 129, 255, 256, 299, 300, rng.randrange(0, 301), rng.randrange(0, 12), rng.randrange(0, 12)])
        style = rng.random()
        if style < 0.35:
            return bytes(rng.choice(b"ab") for _ in range(L))                      # tiny alphabet: many near-duplicates
        if style < 0.6:
            return bytes(rng.randrange(0x80, 0x100) for _ in range(L))            # high bytes: signed-char hashing
        if style < 0.8:
            return bytes(rng.randrange(1, 256) for _ in range(L))
        return bytes(rng.choice(b"abcdefghijklmnopqrstuvwxyz0123456789_.") for _ in range(L))

    def gen_keyhash(self, rng, nops, default=False, small_keys=False, pile=False):
        ops = []
        if default:
            ops.append("kh_default")
        else:
            # esl_keyhash_CreateCustom documents a power of two; the code masks with hashsize-1, which stays in range for ANY
            # hashsize > 0 (some slots are then never used): the theorems hold for every size > 0, so those are generated too
            size = rng.choice([1, 1, 2, 2, 3, 4, 5, 6, 7, 8, 12, 16, 64, 100, 128, 1 << rng.randrange(0, 17), rng.randrange(1, 1 << 16)])
            ops.append("kh_new size=%d kalloc=%d salloc=%d" % (size, rng.choice([1, 1, 2, 3, 7, 128]), rng.choice([1, 1, 2, 5, 64, 2048])))
        pool = []
        seen = set()
        cloned = False
        pool2, seen2 = [], set()
        # a long history must be able to pile up thousands of keys: few reuses per case
        p_clone = min(0.03, 3.0 / max(1, nops))
        p_reuse = 0.0 if pile else min(0.015, 1.2 / max(1, nops))
        serial = 0
        for _ in range(nops):
            r = rng.random()
            if r < 0.5:
                if pile:
                    # pile-up history: mostly brand-new keys, so that the table passes several growth thresholds
                    serial += 1
                    k = (b"%x" % serial) + bytes(rng.choice(b"xyz") for _ in range(rng.randrange(0, 3)))
                elif small_keys:
                    k = bytes(rng.choice(b"abcdefgh") for _ in range(rng.randrange(0, 7)))
                else:
                    k = self.rand_key(rng, pool)
                if pool and rng.random() < 0.15:
                    k = rng.choice(pool)
                strmode = " str=1" if rng.random() < 0.15 else ""
                ops.append("store key=%s%s" % (hx(k), strmode))
                if strmode:
                    k = k.split(b"\0")[0]           # the key really stored by an n=-1 call
                if k not in seen:
                    seen.add(k); pool.append(k)
            elif r < 0.8:
                k = rng.choice(pool) if pool and rng.random() < 0.55 else self.rand_key(rng, pool)
                strmode = " str=1" if rng.random() < 0.2 else ""
                ops.append("lookup key=%s%s" % (hx(k), strmode))
            elif r < 0.9:
                if pool:
                    ops.append("get i=%d" % rng.choice([0, len(pool) - 1, rng.randrange(len(pool))]))
                else:
                    ops.append("num")
            elif r < 0.93:
                ops.append(rng.choice(["getall", "num", "kh_sizes", "kh_dump", "kh_slots"]))
            elif r < 0.93 + p_clone:
                ops.append("kh_clone")
                pool2, seen2 = list(pool), set(seen)
                if rng.random() < 0.5:
                    ops.append("kh_swap")           # continue on the clone (the original stays alive in the other slot)
                cloned = True
            elif r < 0.93 + 2 * p_clone:
                if cloned and not pile:
                    ops.append("kh_swap")
                    pool, seen, pool2, seen2 = pool2, seen2, pool, seen
                else:
                    ops.append("num")
            elif r < 0.93 + 2 * p_clone + p_reuse:
                ops.append("kh_reuse"); ops.append("kh_slots"); ghosts = pool[-30:]; pool = []; seen = set()
                # keys from before the reuse must now be absent, and storable again from index 0
                for k in ghosts[:8]:
                    ops.append("lookup key=%s" % hx(k))
                for k in ghosts[8:12]:
                    ops.append("store key=%s" % hx(k))
                    if k not in seen:
                        seen.add(k); pool.append(k)
            else:
                ops.append(rng.choice(["getall", "num", "kh_sizes", "getall", "kh_dump", "kh_slots"]))
        ops.append("getall"); ops.append("kh_sizes"); ops.append("kh_dump"); ops.append("kh_slots")
        # look every stored key up once more at the end, and a few absent ones
        for k in pool[-40:]:
            ops.append("lookup key=%s" % hx(k))
        return ops

    def int_data(self, rng, n):
        style = rng.random()
        if style < 0.15:
            d = sorted(rng.randrange(-1000, 1000) for _ in range(n))
        elif style < 0.3:
            d = sorted((rng.randrange(-1000, 1000) for _ in range(n)), reverse=True)
        elif style < 0.5:
            d = [rng.randrange(0, 4) for _ in range(n)]                       # duplicate-heavy
        elif style < 0.6:
            d = [7] * n
        elif style < 0.7:
            d = [rng.choice([INT_MIN, INT_MAX, 0, -1, 1, INT_MAX - 1, INT_MIN + 1]) for _ in range(n)]
        elif style < 0.8:
            d = list(range(n)); rng.shuffle(d)
        else:
            d = [rng.randrange(INT_MIN, INT_MAX + 1) for _ in range(n)]
        return d

    def size_choice(self, rng, big):
        return rng.choice([0, 1, 2, 3, 4, 5, 7, 8, 15, 16, 17, 31, 100, 127, 128, 129, 255, 256, 257, rng.randrange(0, 40), rng.randrange(0, 40), rng.randrange(0, big)])

    def gen_heap(self, rng, nops, big):
        ops = ["heap_new max=%d" % rng.randrange(2)]
        cnt = 0
        for _ in range(nops):
            r = rng.random()
            if r < 0.4:
                d = self.int_data(rng, self.size_choice(rng, big)); cnt += len(d)
                ops.append("hins v=%s" % fmt_ints(d))
            elif r < 0.55:
                ops.append("hext"); cnt = max(0, cnt - 1)
            elif r < 0.6:
                ops.append("hpop"); cnt = max(0, cnt - 1)      # extraction with a NULL result pointer (also on an empty heap)
            elif r < 0.7:
                ops.append("hdump")
            elif r < 0.8:
                ops.append(rng.choice(["htop", "hcount", "hvalidate"]))
            elif r < 0.9:
                ops.append("hdrain"); cnt = 0
            elif r < 0.95:
                ops.append("hreuse"); cnt = 0
            else:
                ops.append("heap_new max=%d" % rng.randrange(2)); cnt = 0
        ops += ["hdump", "hvalidate", "hdrain", "hext"]
        return ops

    def gen_rb(self, rng, nops, big):
        # keys are sent as integers and stored as ldexp(k, exp): denormal, fractional and huge doubles with the same order
        exp = rng.choice([0, 0, 0, -1, -20, -1074 + 54, -1000, 100, 900, 970, rng.randrange(-1020, 970)])
        # a third of the trees take their nodes from esl_red_black_doublekey_pool_Create() blocks of a few nodes
        pool = rng.choice([0, 0, 1, 2, 7, 64])
        ops = ["rb_new exp=%d pool=%d" % (exp, pool)]
        present = []
        for _ in range(nops):
            r = rng.random()
            if r < 0.55:
                n = rng.choice([1, 1, 1, 2, 3, 5, 10, rng.randrange(1, big)])
                style = rng.random()
                base = rng.randrange(-2000, 2000)
                if style < 0.12:
                    ks = self.rb_keys(rng, n, present)
                elif style < 0.2:
                    ks = list(range(base, base + n))
                elif style < 0.4:
                    ks = list(range(base + n, base, -1))
                elif style < 0.55:
                    ks = [rng.randrange(-20, 20) for _ in range(n)]
                elif style < 0.65:
                    ks = [rng.choice([-(2**53) + 1, 2**53 - 1, 0, 2**40, -(2**40), 2**31, -(2**31)]) + rng.randrange(-3, 4) for _ in range(n)]
                    ks = [max(-(2**53) + 1, min(2**53 - 1, k)) for k in ks]
                else:
                    ks = [rng.randrange(-5000, 5000) for _ in range(n)]
                ops.append("rb_ins k=%s" % fmt_ints(ks)); present += ks
                ops.append("rb_dump" if len(present) < 400 and rng.random() < 0.8 else "rb_hash")
            elif r < 0.75:
                ks = [rng.choice(present) if present and rng.random() < 0.5 else rng.randrange(-5000, 5000) for _ in range(rng.randrange(1, 12))]
                ops.append("rb_lookup k=%s" % fmt_ints(ks))
            elif r < 0.9:
                ops.append("rb_dump" if len(present) < 1500 else "rb_hash")
            elif r < 0.96:
                ops.append("rb_list"); present = []
            else:
                ops.append("rb_new exp=%d pool=%d" % (exp, pool)); present = []
        ops += ["rb_hash", "rb_dump" if len(present) < 3000 else "rb_hash", "rb_list"]
        return ops

    def rb_keys(self, rng, n, present=()):
        """insertion orders: ascending / descending runs (only outer rotations), zig-zag and inward orders (inner rotations on
        both sides), duplicate-heavy, random"""
        style = rng.random()
        base = rng.randrange(-2000, 2000)
        if style < 0.15:
            return list(range(base, base + n))
        if style < 0.3:
            return list(range(base + n, base, -1))
        if style < 0.42:
            lo, hi, out = base, base + n, []              # outside-in zig-zag: lo, hi, lo+1, hi-1, ...
            while lo <= hi and len(out) < n:
                out.append(lo); lo += 1
                if len(out) < n: out.append(hi); hi -= 1
            return out
        if style < 0.54:
            mid = base; out = []                          # inside-out zig-zag: mid, mid+1, mid-1, mid+2, ...
            for j in range(n):
                out.append(mid + (j + 1) // 2 if j % 2 else mid - j // 2)
            return out
        if style < 0.62:
            step = rng.choice([2, 3, 5]); a = list(range(base, base + step * n, step))   # a comb, then the gaps (large side first or last)
            b = [x + 1 for x in a]
            if rng.random() < 0.5: b.reverse()
            return (a + b)[:max(1, n)]
        if style < 0.75:
            return [rng.randrange(-20, 20) for _ in range(n)]
        if style < 0.85 and present:
            return [rng.choice(present) + rng.choice([-1, 0, 0, 1]) for _ in range(n)]
        return [rng.randrange(-5000, 5000) for _ in range(n)]

    def gen_rp(self, rng, nops, big):
        """pointer-level red-black histories: every record (id = index in the model's store) with key, colour, parent, small,
        large is compared; node supply from Create() or from pool blocks of 1..64 records"""
        pool = rng.choice([0, 0, 1, 2, 3, 7, 64])
        ops = ["rp_new pool=%d" % pool]
        present = []
        for _ in range(nops):
            r = rng.random()
            if r < 0.55:
                n = rng.choice([1, 1, 2, 3, 5, 8, 9, 10, 16, 17, rng.randrange(1, big)])
                ks = self.rb_keys(rng, n, present)
                ops.append("rp_ins k=%s" % fmt_ints(ks)); present += ks
                ops.append("rp_nodes" if len(present) < 120 and rng.random() < 0.8 else "rp_hash")
            elif r < 0.72:
                ks = [rng.choice(present) if present and rng.random() < 0.5 else rng.randrange(-5000, 5000) for _ in range(rng.randrange(1, 12))]
                ops.append("rp_lookup k=%s" % fmt_ints(ks))
            elif r < 0.8:
                ops.append("rp_pool")
            elif r < 0.9:
                ops.append("rp_nodes" if len(present) < 400 else "rp_hash")
            elif r < 0.96:
                ops += ["rp_convert", "rp_nodes" if len(present) < 400 else "rp_hash", "rp_ltest", "rp_walk",
                        "rp_new pool=%d" % pool]; present = []
            else:
                pool = rng.choice([0, 1, 2, 5, 64])
                ops.append("rp_new pool=%d" % pool); present = []
        ops += ["rp_hash", "rp_pool", "rp_convert", "rp_nodes" if len(present) < 1000 else "rp_hash", "rp_ltest", "rp_walk"]
        return ops

    def gen_stack(self, rng, nops, big):
        t = rng.choice("icp")
        # a third of the stacks run in the thread-communication mode (mutex, and condition variable): sequentially the
        # behaviour must be the same. With an active condition variable Pop on an empty stack would wait for a pusher,
        # so there a Pop is only issued right after a non-empty push, or after esl_stack_ReleaseCond (`st_release`).
        mode = rng.choice(["", "", " mutex=1", " mutex=1 cond=1"])
        cond = "cond" in mode
        sure = False                    # the stack is certainly non-empty
        ops = ["st_new t=%s%s" % (t, mode)]

        def vals(n):
            if t == "c":
                return [rng.randrange(1, 256) if rng.random() < 0.97 else 0 for _ in range(n)]
            if t == "i":
                return self.int_data(rng, n)
            return [rng.randrange(0, 2**47) if rng.random() < 0.7 else rng.randrange(0, 6) for _ in range(n)]

        def pop():
            nonlocal cond, sure
            if cond and not sure:
                if rng.random() < 0.4:
                    ops.append("st_release"); cond = False; ops.append("pop")
                else:
                    ops.append("count")
            else:
                ops.append("pop")
            sure = False
        for _ in range(nops):
            r = rng.random()
            if r < 0.35:
                v = vals(self.size_choice(rng, big))
                ops.append("push v=%s" % fmt_ints(v)); sure = sure or len(v) > 0
            elif r < 0.5:
                pop()
            elif r < 0.6:
                ops.append("st_dump")
            elif r < 0.68:
                ops.append("discardtop n=%d" % rng.choice([0, 1, 2, 5, 127, 128, 129, rng.randrange(0, 300), 10**6])); sure = False
            elif r < 0.78:
                dmode = rng.choice(["even", "lt", "eq", "all", "none"])
                ops.append("discardsel mode=%s p=%d" % (dmode, rng.choice([0, 1, 2, 3, 7, 100, rng.randrange(-1000, 1000)]))); sure = False
            elif r < 0.88:
                ops.append("shuffle seed=%d" % rng.randrange(1, 2**32))
                ops.append("st_dump")
            elif r < 0.92:
                ops.append("count")
            elif r < 0.95:
                ops.append("popall"); sure = False
            elif r < 0.97:
                ops.append("st_reuse"); sure = False
            elif t == "c":
                ops.append("tostring")
                t = rng.choice("icp"); mode = rng.choice(["", " mutex=1", " mutex=1 cond=1"]); cond = "cond" in mode; sure = False
                ops.append("st_new t=%s%s" % (t, mode))
        ops += ["st_dump", "count"]
        if t == "c" and rng.random() < 0.7:
            ops.append("tostring")
        else:
            ops.append("popall"); sure = False
            if cond:
                ops.append("st_release"); cond = False
            ops.append("pop")
        return ops

    def gen_threads(self, rng, nops, big):
        """real concurrency: P pusher and Q popper threads on one stack in mutex + condition-variable mode; poppers started
        before the pushers sleep in pthread_cond_wait; sizes around the reallocation boundaries (growth under the mutex)"""
        ops = []
        for _ in range(nops):
            t = rng.choice("icp")
            n = rng.choice([0, 1, 2, 3, 127, 128, 129, 257, rng.randrange(0, 40), rng.randrange(0, big)])
            if t == "c":
                v = [rng.randrange(0, 256) for _ in range(n)]
            elif t == "i":
                v = self.int_data(rng, n)
            else:
                v = [rng.randrange(0, 2**47) if rng.random() < 0.7 else rng.randrange(0, 6) for _ in range(n)]
            ops.append("st_threads t=%s pushers=%d poppers=%d popfirst=%d v=%s" % (t, rng.choice([1, 1, 2, 3, 4, 8]), rng.choice([1, 1, 2, 3, 4, 8]), rng.randrange(2), fmt_ints(v)))
        return ops

    def gen_qsort(self, rng, nops, big):
        ops = []
        for _ in range(nops):
            n = self.size_choice(rng, big)
            ops.append("qsort mode=%s data=%s" % (rng.choice(["asc", "desc", "coarse"]), fmt_ints(self.int_data(rng, n))))
        return ops

    def _nul_ok(self):
        return bool(getattr(self, "_nul", False))

    def boundary_cases(self, rng):
        """directed cases at the reallocation / growth boundaries (128, 256, 512 elements; 3x table size keys)"""
        out = []
        for n in (127, 128, 129, 255, 256, 257, 512):
            vals = [rng.randrange(1, 256) for _ in range(n)]
            out.append({"name": "c2s-%d" % n, "sticky": 1, "ops": ["st_new t=c", "push v=%s" % fmt_ints(vals), "count", "tostring"]})
            t = rng.choice("ip")
            vals = [rng.randrange(0, 1000) for _ in range(n)]
            out.append({"name": "stk-%d" % n, "sticky": 1, "ops": ["st_new t=%s%s" % (t, rng.choice(["", " mutex=1"])), "push v=%s" % fmt_ints(vals), "discardtop n=%d" % rng.choice([0, 1, n - 1, n, n + 1]),
                                                                   "push v=%s" % fmt_ints(vals[:3]), "st_dump", "discardsel mode=even", "shuffle seed=%d" % rng.randrange(1, 2**32), "st_dump", "popall", "pop"]})
            vals = self.int_data(rng, n)
            out.append({"name": "heap-%d" % n, "sticky": 1, "ops": ["heap_new max=%d" % rng.randrange(2), "hins v=%s" % fmt_ints(vals), "hvalidate", "hext", "hins v=%s" % fmt_ints(vals[:2]), "hdump", "hdrain", "hext"]})
        for size in (1, 2, 4, 8):
            for extra in (0, 1, 2):
                n = 3 * size + extra               # growth happens when nkeys > 3*hashsize
                keys = [("k%d" % i).encode() for i in range(n)]
                ops = ["kh_new size=%d kalloc=%d salloc=%d" % (size, rng.choice([1, n, n + 1]), rng.choice([1, 4, 4096]))]
                ops += ["store key=%s" % hx(k) for k in keys] + ["kh_sizes", "getall"]
                ops += ["lookup key=%s" % hx(k) for k in keys] + ["store key=%s" % hx(keys[-1]), "lookup key=%s" % hx(b"k%d" % n), "kh_clone", "kh_swap"]
                ops += ["lookup key=%s" % hx(k) for k in keys[:3]] + ["store key=%s" % hx(b"k%d" % n), "getall", "kh_sizes"]
                out.append({"name": "kh-grow-%d-%d" % (size, extra), "sticky": 1, "ops": ops})
        # custom initial sizes incl. non powers of two: every growth crossing (3*size keys -> 8*size slots) twice over, with Reuse / Clone
        # in between (the clone keeps growing on its own; the reused table keeps its grown size)
        for size in (1, 2, 3, 5, 8):
            n1 = 3 * size + 1; n2 = 3 * 8 * size + 1
            keys = [("g%d" % i).encode() + bytes([rng.randrange(1, 256)]) for i in range(n2 + 2)]
            ops = ["kh_new size=%d kalloc=%d salloc=%d" % (size, rng.choice([1, 2, 3]), rng.choice([1, 2, 7]))]
            for i, k in enumerate(keys):
                ops.append("store key=%s%s" % (hx(k), " str=1" if i % 5 == 4 else ""))
                if i + 1 in (n1 - 1, n1, n2 - 1, n2):
                    ops += ["kh_sizes", "kh_dump", "getall", "lookup key=%s" % hx(keys[0]), "lookup key=%s str=1" % hx(keys[i] + b"\0zz"), "lookup key=%s" % hx(keys[i] + b"\0zz")]
                if i + 1 == n1:
                    ops += ["kh_clone", "kh_swap", "store key=%s" % hx(keys[i]), "store key=%s" % hx(b"only-in-clone"), "kh_swap", "lookup key=%s" % hx(b"only-in-clone")]
            ops += ["kh_reuse", "kh_dump", "kh_sizes"] + ["store key=%s" % hx(k) for k in keys[:n1 + 1]] + ["getall", "kh_dump", "kh_swap", "getall", "lookup key=%s" % hx(b"only-in-clone"), "kh_dump"]
            out.append({"name": "kh-cross-%d" % size, "sticky": 1, "ops": ops})
        # red-black: the four rotation cases and the recolouring that climbs, at depth >= 3, on both sides (pointer level + tree level)
        for name, ks in (("asc", list(range(1, 33))), ("desc", list(range(32, 0, -1))),
                         ("zig-out", [x for p in zip(range(1, 17), range(32, 16, -1)) for x in p]),
                         ("zig-in", [16 + ((j + 1) // 2 if j % 2 else -(j // 2)) for j in range(32)]),
                         ("comb-large", list(range(0, 40, 4)) + [1, 5, 9, 13, 17, 21, 25, 29, 33, 37, 38, 39, 34, 35, 30, 31, 2, 3]),
                         ("comb-small", list(range(40, 0, -4)) + [39, 35, 31, 27, 23, 19, 15, 11, 7, 3, 2, 1, 6, 5, 10, 9, 38, 37]),
                         ("dups", [5, 5, 3, 3, 8, 8, 5, 1, 1, 9, 9, 3, 4, 4, 7, 7, 2, 2, 6, 6, 5])):
            rp = ["rp_new pool=%d" % rng.choice([0, 2, 5])]
            rb = ["rb_new exp=0 pool=%d" % rng.choice([0, 3])]
            for k in ks:
                rp += ["rp_ins k=%d" % k, "rp_nodes"]
                rb += ["rb_ins k=%d" % k, "rb_dump"]
            rp += ["rp_lookup k=%s" % fmt_ints(sorted(set(ks)) + [0, 100, -1]), "rp_pool", "rp_convert", "rp_nodes", "rp_ltest", "rp_walk"]
            rb += ["rb_lookup k=%s" % fmt_ints(sorted(set(ks)) + [0, 100, -1]), "rb_list"]
            out.append({"name": "rp-%s" % name, "sticky": 1, "ops": rp})
            out.append({"name": "rb-%s" % name, "sticky": 1, "ops": rb})
        # ---- round 6: the boundaries the quantifier names -------------------------------------------------------------
        # (a) keys with bytes >= 0x80 and embedded / leading / trailing NULs, each presented BOTH by length and as a C string
        #     (n = -1: the bytes before the first NUL), in a 1-slot table (every key collides) and in a 2-slot one
        hi = [b"\x80", b"\xff", b"\x80\xff\x80", b"\xfe" * 7, b"a\x80", b"\x80a", b"\xff\x00", b"\x00\xff", b"\x80\x00\x80", b"\x80\x00\x81",
              b"\x00", b"\x00\x00", b"", b"a\x00b", b"a\x00c", b"a", b"a\x00", b"\xc3\xa9t\xc3\xa9", b"\xff" * 300, b"\x80" * 299 + b"\x00"]
        if not self._nul_ok():
            hi = [k for k in hi if b"\0" not in k]
        for size in (1, 2):
            ops = ["kh_new size=%d kalloc=1 salloc=1" % size]
            for k in hi:
                ops += ["store key=%s" % hx(k), "store key=%s str=1" % hx(k), "lookup key=%s" % hx(k), "lookup key=%s str=1" % hx(k)]
            ops += ["getall", "kh_dump", "kh_sizes", "kh_clone", "kh_swap"] + ["lookup key=%s" % hx(k) for k in hi] + ["kh_reuse"]
            ops += ["store key=%s str=1" % hx(k) for k in reversed(hi)] + ["getall", "kh_dump"]
            out.append({"name": "kh-high-nul-%d" % size, "sticky": 1, "ops": ops})
        # ---- round 6b: Reuse at SMALL fill (nkeys < hashsize/4, also 0 and 1 keys) and at large fill: raw slot walk right after
        #      Reuse (every slot -1), every old key absent (a stale slot would find it or walk a stale chain: watchdog), the SAME
        #      keys stored again get 0,1,2,… with status ok, found again, and again after a second Reuse; keys with embedded NULs
        #      are stored by length (repaired tree), the same bytes are also asked for as C strings
        for size in (8, 16, 64, 128, 1024, 4096, 65536):
            for nk in sorted({0, 1, 2, max(1, size // 8), max(1, size // 4 - 1), size // 4, min(3 * size, 300)}):
                ks = []
                for j in range(nk):
                    r = j % 5
                    if r == 0 and self._nul_ok(): k = b"r%d\0x%d" % (j, j % 3)
                    elif r == 1 and self._nul_ok(): k = b"\0" * (1 + j % 3) + b"%d" % j
                    elif r == 2: k = bytes([0x80 + j % 128]) + b"%d" % j
                    else: k = b"key%d" % j
                    ks.append(k)
                first = "kh_default" if size == 128 and nk % 2 == 0 else "kh_new size=%d kalloc=%d salloc=%d" % (size, rng.choice([1, 4, 128]), rng.choice([1, 16, 2048]))
                ops = [first, "kh_slots"] + ["store key=%s" % hx(k) for k in ks] + ["kh_slots", "kh_reuse", "kh_slots", "num", "kh_dump"]
                ops += ["lookup key=%s" % hx(k) for k in ks[:60]] + ["lookup key=%s str=1" % hx(k) for k in ks[:10]]
                ops += ["store key=%s" % hx(k) for k in ks] + ["kh_slots", "getall"] + ["lookup key=%s" % hx(k) for k in ks[:60]]
                ops += ["kh_reuse", "kh_slots"] + ["lookup key=%s" % hx(k) for k in ks[:20]] + ["store key=%s" % hx(k) for k in reversed(ks[:20])] + ["kh_slots", "getall", "kh_clone", "kh_swap", "kh_slots", "kh_reuse", "kh_slots", "kh_swap", "kh_slots"]
                out.append({"name": "kh-reuse-%d-%d" % (size, nk), "sticky": 1, "ops": ops})
        # (b) a 1-slot custom table and the default table across EVERY 8-fold growth (keys 3*size+1): sizes, dump and lookups
        #     at n-1, n, n+1 of each crossing; the quick tier goes through 4 crossings of the 1-slot table (1 -> 4096 slots) and
        #     both crossings of the default table reachable below 10^4 keys, the thorough tier adds the fifth (-> 32768 slots)
        for name, first, size0, ngrow in (("one", "kh_new size=1 kalloc=1 salloc=1", 1, 4 if getattr(self, "_quick", True) else 5),
                                          ("default", "kh_default", 128, 2)):
            marks = set()
            size = size0
            for _ in range(ngrow):
                marks |= {3 * size - 1, 3 * size, 3 * size + 1, 3 * size + 2}
                size *= 8
            total = max(marks) + 1
            ops = [first]
            for i in range(total):
                k = (b"%d" % i) + (b"\xe9" if i % 3 == 0 else b"")
                ops.append("store key=%s%s" % (hx(k), " str=1" if i % 7 == 6 else ""))
                if i + 1 in marks:
                    ops += ["kh_sizes", "num", "lookup key=%s" % hx(k), "lookup key=%s" % hx(b"0\xe9"), "lookup key=%s" % hx(b"%d" % (i + 1)), "get i=%d" % i, "get i=0"]
                    if i + 1 < 400: ops.append("kh_dump")
            ops += ["getall", "kh_sizes", "kh_clone", "kh_swap", "store key=%s" % hx(b"%d" % total), "kh_sizes", "kh_reuse", "kh_sizes", "store key=31", "getall"]
            out.append({"name": "kh-every-growth-%s" % name, "sticky": 1, "ops": ops})
        # (c) heaps with duplicates at the allocation boundaries (INITALLOC 128, doubling): all-equal, two-valued and
        #     boundary-valued multisets of n-1, n, n+1 elements, extraction interleaved with insertion across the boundary
        for n in (127, 128, 129, 255, 256, 257, 511, 512, 513):
            for style, vals in (("eq", [7] * n), ("two", [rng.choice([3, 4]) for _ in range(n)]),
                                ("ext", [rng.choice([INT_MIN, INT_MAX, 0]) for _ in range(n)])):
                mx = rng.randrange(2)
                ops = ["heap_new max=%d" % mx, "hins v=%s" % fmt_ints(vals[:n - 2]), "hcount", "hins v=%s" % fmt_ints(vals[n - 2:n - 1]), "hext",
                       "hins v=%s" % fmt_ints(vals[n - 1:] + vals[:2]), "hvalidate", "hdump", "hpop", "hins v=%s" % fmt_ints(vals[:3]), "htop", "hcount", "hdrain", "hext", "hcount"]
                out.append({"name": "heap-dup-%s-%d" % (style, n), "sticky": 1, "ops": ops})
        # (d) red-black histories of >= 200 insertions in adversarial orders, pointer level (every record compared) and tree level
        nrb = 256 if getattr(self, "_quick", True) else 1500
        orders = (("asc", list(range(nrb))), ("desc", list(range(nrb, 0, -1))),
                  ("zig-out", [x for p in zip(range(nrb // 2), range(nrb, nrb // 2, -1)) for x in p]),
                  ("zig-in", [nrb // 2 + ((j + 1) // 2 if j % 2 else -(j // 2)) for j in range(nrb)]),
                  ("asc-dup", [x for k in range(nrb // 2) for x in (k, k)]),
                  ("saw", [x for b in range(0, nrb, 16) for x in (list(range(b, b + 16)) if (b // 16) % 2 == 0 else list(range(b + 15, b - 1, -1)))]))
        for name, ks in orders:
            rp = ["rp_new pool=%d" % rng.choice([0, 7, 64])]
            rb = ["rb_new exp=%d pool=%d" % (rng.choice([0, -1074 + 54, 900]), rng.choice([0, 5]))]
            for i, k in enumerate(ks):
                rp += ["rp_ins k=%d" % k, "rp_nodes" if (i % 16 == 15 or i < 12) and i < 400 else "rp_hash"]
                rb += ["rb_ins k=%d" % k, "rb_dump" if (i % 16 == 15 or i < 12) and i < 400 else "rb_hash"]
            rp += ["rp_lookup k=%s" % fmt_ints(ks[:40] + [-5, nrb + 7]), "rp_pool", "rp_convert", "rp_hash", "rp_ltest", "rp_walk"]
            rb += ["rb_lookup k=%s" % fmt_ints(ks[:40] + [-5, nrb + 7]), "rb_dump" if nrb < 400 else "rb_hash", "rb_list"]
            out.append({"name": "rp-long-%s" % name, "sticky": 1, "ops": rp})
            out.append({"name": "rb-long-%s" % name, "sticky": 1, "ops": rb})
        for n in (0, 1, 2, 3):
            for mode in ("asc", "desc", "coarse"):
                out.append({"name": "qs-%d-%s" % (n, mode), "sticky": 0, "ops": ["qsort mode=%s data=%s" % (mode, fmt_ints(self.int_data(rng, n)))]})
        return out

    def cases(self, ctx):
        rng = ctx.rng
        quick = ctx.tier == "quick"
        import os
        self._quick = quick and not os.environ.get("VERIF_C19_THOROUGH_SHAPES")   # development aid: thorough-size directed cases in a quick run
        self._nul = self.repaired(ctx)       # the known region (NUL keys stored by length) is avoided only while the defect is in the tree
        out = list(self.boundary_cases(rng))
        import os
        scale = float(os.environ.get("VERIF_C19_SCALE", "1"))     # development aid (mutation campaigns); 1 in normal runs
        # time budget of the harness watchdog for timed-out / slow cases (see h_containers.c); inherited by the harness process
        os.environ["C19_TIME_BUDGET"] = "600" if quick else "3000"

        heavy = []

        def add(name, ops, sticky=1):
            (heavy if len(ops) > 5000 or sum(len(o) for o in ops) > 400000 else out).append({"name": name, "ops": ops, "sticky": sticky})
        nkh = int((1200 if quick else 12000) * scale)
        for c in range(nkh):
            add("kh%d" % c, self.gen_keyhash(rng, rng.choice([10, 40, 150, 400])))
        # growth of the default table: 128 -> 1024 (385 keys) -> 8192 (3073 keys); tiny tables with many small keys
        for c in range(int((16 if quick else 100) * scale) or 1):
            add("kh-default%d" % c, self.gen_keyhash(rng, 9000 if c == 0 else rng.choice([1200, 2500]), default=True, small_keys=(c % 2 == 0)))
        for c in range(int((16 if quick else 100) * scale) or 1):
            add("kh-small%d" % c, self.gen_keyhash(rng, 3000, small_keys=True))
        # pile-up histories: default table 128 -> 1024 -> 8192 (> 3072 keys); tiny table through five growths
        for c in range(2 if quick else 10):
            add("kh-pile%d" % c, self.gen_keyhash(rng, 8000 if quick else 30000, default=(c % 2 == 0), pile=True))
        if not quick:
            add("kh-long0", self.gen_keyhash(rng, 100000, default=True, pile=True))
            add("kh-long1", self.gen_keyhash(rng, 100000, pile=True))
            add("kh-long2", self.gen_keyhash(rng, 100000, small_keys=True))
        n = int((800 if quick else 8000) * scale)
        big = 600 if quick else 3000
        for c in range(n):
            add("heap%d" % c, self.gen_heap(rng, rng.choice([5, 15, 40]), big))
        for c in range(n):
            add("rb%d" % c, self.gen_rb(rng, rng.choice([5, 20, 60]), 60 if quick else 300))
        for c in range(n):
            add("rp%d" % c, self.gen_rp(rng, rng.choice([5, 20, 60]), 60 if quick else 300))
        for c in range(n):
            add("stack%d" % c, self.gen_stack(rng, rng.choice([5, 15, 40]), big))
        for c in range(n // 2):
            add("qsort%d" % c, self.gen_qsort(rng, rng.choice([3, 10, 30]), big), sticky=0)
        for c in range(n // 8):
            add("threads%d" % c, self.gen_threads(rng, rng.choice([1, 3, 6]), big), sticky=0)
        if not quick:
            add("heap-long", ["heap_new max=0", "hins v=%s" % fmt_ints(self.int_data(rng, 100000)), "hvalidate", "hdrain"])
            add("rp-long", ["rp_new pool=64", "rp_ins k=%s" % fmt_ints([rng.randrange(-10**6, 10**6) for _ in range(100000)]), "rp_hash", "rp_convert", "rp_ltest", "rp_hash"])
            add("rb-long", ["rb_new", "rb_ins k=%s" % fmt_ints([rng.randrange(-10**6, 10**6) for _ in range(100000)]), "rb_hash", "rb_list"])
            add("stack-long", ["st_new t=i", "push v=%s" % fmt_ints(self.int_data(rng, 100000)), "shuffle seed=7", "st_dump", "discardsel mode=even", "popall"])
            add("qsort-long", ["qsort mode=coarse data=%s" % fmt_ints(self.int_data(rng, 100000))], sticky=0)
        # the engine runs cases in batches of 400 per process with a per-batch time limit: spread the long histories
        for i, h in enumerate(heavy):
            out.insert(min(len(out), (i + 1) * 397), h)
        ctx.stats["input_distribution"] = self.input_distribution(out)
        return out

    # ------------------------------------------------------------------ comparison
    def canonical(self, line):
        if line.startswith("fault"):
            return "fault"
        if line.startswith("ok hashsize="):
            # table / allocation sizes are tuning constants, not part of the abstract behaviour (a different initial size or
            # growth factor keeps the property): recorded as evidence (growth really happened), not compared
            return "ok sizes"
        if line.startswith("ok slots "):
            # raw walk over hashtable[]: key count, records on the chains, bad pointers and cycles are functions of the abstract
            # content (compared exactly); how many slots are in use depends on the hash function EXCEPT for an empty table
            # (after Create / Reuse every slot is -1: compared exactly); the table size is a tuning constant
            w = line.split()
            d = dict(x.split("=") for x in w[2:] if "=" in x)
            used = d.get("used", "?") if d.get("nkeys") == "0" else "*"
            return "ok slots nkeys=%s used=%s chained=%s bad=%s cyc=%s" % (d.get("nkeys"), used, d.get("chained"), d.get("bad"), d.get("cyc"))
        if line.startswith("ok nkeys="):
            # esl_keyhash_Dump: the key count and the arena use are functions of the abstract content (compared); slot occupancy and
            # allocation sizes depend on the hash function and on tuning constants (checked for consistency by the monitor)
            return " ".join(line.split()[:3])
        return line

    def compare(self, ctx, case, impl_out, model_out):
        # after a fault the implementation is dead and the model answers `fault` to everything: compare up to there
        a = [self.canonical(l) for l in impl_out if not l.startswith("atexit ")]
        b = [self.canonical(l) for l in model_out]
        if "fault" in a:
            i = a.index("fault"); a = a[:i + 1]; b = b[:i + 1]
        n = max(len(a), len(b))
        for i in range(min(len(a), len(b), len(case["ops"]))):
            if case["ops"][i].startswith("jhash ") and a[i] == b[i]:
                ctx.stats["jenkins_model_agreements"] = ctx.stats.get("jenkins_model_agreements", 0) + 1
        for i in range(n):
            x = a[i] if i < len(a) else "<missing>"
            y = b[i] if i < len(b) else "<missing>"
            if x != y:
                # esl_quicksort specifies the result only up to the order of elements that compare equal: a difference
                # confined to ties is counted (evidence) but is not a divergence; the monitor checks permutation + order.
                if i < len(case["ops"]) and case["ops"][i].startswith("jhash "):
                    # the property does not depend on which hash function is used (theorem generic in H): agreement of the
                    # model's `jenkins` with the C `jenkins_hash` is measured and reported, a difference is not a violation
                    ctx.stats["jenkins_model_mismatches"] = ctx.stats.get("jenkins_model_mismatches", 0) + 1
                    continue
                if i < len(case["ops"]) and case["ops"][i].startswith("qsort ") and x.startswith("ok") and y.startswith("ok"):
                    kx, ky = self.qsort_keys(case["ops"][i], x), self.qsort_keys(case["ops"][i], y)
                    if kx is not None and kx == ky:
                        ctx.stats["qsort_tie_order_differences"] = ctx.stats.get("qsort_tie_order_differences", 0) + 1
                        continue
                return (i, x, y)
        return None

    @staticmethod
    def qsort_keys(op, line):
        try:
            _, kv = kv_of(op)
            data = ints(kv["data"]); mode = kv.get("mode", "asc")
            w = line.split()
            got = ints(w[1]) if len(w) > 1 else []
            if sorted(got) != list(range(len(data))):
                return None
            return [(data[j] // 8) if mode == "coarse" else data[j] for j in got]
        except Exception:
            return None

    def nontrivial(self, case, out):
        return len(out) >= 3 and not any(l == "bad-op" or l.startswith(("fault", "atexit")) for l in out)

    # ------------------------------------------------------------------ property monitor (the abstract types, in Python)
    def monitor(self, ctx, case, out):
        has_nul = False
        rep = self.repaired(ctx)
        keys, index = [], {}                 # insertion-ordered map (current slot)
        keys2, index2 = None, None           # the other slot (a clone or the original it was cloned from)
        heap, hmax = [], False               # sorted multiset
        rb = set()
        rp, rp_id2key, rp_list = set(), {}, None     # pointer-level tree: keys, record id -> key, (head, tail) after conversion
        st, st_ordered, stype = [], True, "i"

        def fail(i, msg):
            op = case["ops"][i]
            return Failure("monitor", "op %d %r -> %r: %s" % (i, op[:120], out[i][:120], msg),
                           key=NUL_KEY if has_nul else None)
        for i, (op, l) in enumerate(zip(case["ops"], out)):
            if l.startswith(("fault", "atexit")):
                break
            name, kv = kv_of(op)
            w = l.split()
            # ---------------- keyhash
            if name in ("kh_new", "kh_default"):
                keys, index = [], {}                # (the other slot, if any, is kept)
                if l != "ok": return fail(i, "create failed")
            elif name in ("store", "lookup"):
                k = unhx(kv["key"])
                if kv.get("str") == "1":
                    k = k.split(b"\0")[0]
                elif 0 in k and name == "store" and not rep:
                    has_nul = True               # only a Store by length of such a key is in the known region (keyhash_refines_mixed)
                if name == "store":
                    if k in index:
                        exp = "edup %d" % index[k]
                    else:
                        exp = "ok %d" % len(keys); index[k] = len(keys); keys.append(k)
                else:
                    exp = "ok %d" % index[k] if k in index else "enotfound -1"
                if l != exp: return fail(i, "insertion-ordered map says %r" % exp)
            elif name == "get":
                j = int(kv["i"])
                # (the harness reads the returned pointer as a C string: the key up to its first NUL)
                if j < len(keys) and l != "ok " + hx(keys[j].split(b"\0")[0]): return fail(i, "key %d is %s" % (j, hx(keys[j])[:60]))
            elif name == "num":
                if l != "ok %d" % len(keys): return fail(i, "%d keys were stored" % len(keys))
            elif name == "getall":
                if not l.startswith("ok n=%d " % len(keys)): return fail(i, "%d keys were stored" % len(keys))
            elif name == "kh_reuse":
                keys, index = [], {}
                if l != "ok": return fail(i, "reuse failed")
            elif name == "kh_sizes":
                try:
                    hs = int(l.split()[1].split("=")[1])
                    g = ctx.stats.setdefault("keyhash_table_sizes_seen", {})
                    g[str(hs)] = g.get(str(hs), 0) + 1
                    ctx.stats["keyhash_max_keys_in_a_table"] = max(ctx.stats.get("keyhash_max_keys_in_a_table", 0), len(keys))
                except Exception:
                    pass
            elif name == "kh_clone":
                if l != "ok": return fail(i, "clone failed")
                keys2, index2 = list(keys), dict(index)
            elif name == "kh_swap":
                if keys2 is None:
                    if l != "bad-op": return fail(i, "no clone to swap with")
                else:
                    if l != "ok": return fail(i, "swap failed")
                    keys, index, keys2, index2 = keys2, index2, keys, index
            elif name == "kh_dump":
                try:
                    d = dict(x.split("=") for x in w[1:]); d = {a: int(b) for a, b in d.items()}
                except Exception:
                    return fail(i, "unparsable Dump")
                n = len(keys)
                if d["nkeys"] != n: return fail(i, "%d keys were stored" % n)
                if d["sn"] != sum(len(k) + 1 for k in keys) and not has_nul: return fail(i, "arena use is not the sum of key lengths + 1")
                hs = d["hashsize"]
                if not (hs >= 1 and 0 <= d["nempty"] <= hs and d["kalloc"] >= n and d["salloc"] >= d["sn"]): return fail(i, "inconsistent Dump numbers")
                if d["size"] != 4 * hs + 8 * d["kalloc"] + d["salloc"]: return fail(i, "Sizeof is not the sum of the allocations")
                if not (d["min"] * hs <= n <= d["max"] * hs and d["min"] <= d["max"] and d["max"] <= n): return fail(i, "slot occupancies do not add up to the key count")
                if (d["nempty"] == hs) != (n == 0) or n > (hs - d["nempty"]) * d["max"]: return fail(i, "slot occupancies do not add up to the key count")
            elif name == "kh_slots":
                try:
                    d = {a: int(b) for a, b in (x.split("=") for x in w[2:])}
                except Exception:
                    return fail(i, "unparsable slot walk")
                n = len(keys)
                if d["nkeys"] != n: return fail(i, "%d keys were stored" % n)
                if d["bad"] or d["cyc"]: return fail(i, "hashtable[] / nxt[] hold a pointer outside [0,nkeys) or a chain longer than nkeys (stale slot or cycle)")
                if d["chained"] != n: return fail(i, "the chains hold %d records, %d keys are stored" % (d["chained"], n))
                if (d["used"] == 0) != (n == 0) or d["used"] > min(n, d["hashsize"]): return fail(i, "non-empty slots do not fit the key count (after Reuse every slot must be empty)")
            # ---------------- red-black, pointer level
            elif name == "rp_new":
                rp, rp_id2key, rp_list = set(), {}, None
            elif name == "rp_ins":
                if l == "bad-op": continue
                ks = ints(kv["k"])
                flags = [] if len(w) < 2 or w[1] == "-" else w[1].split(",")
                if w[0] != "ok" or len(flags) != len(ks): return fail(i, "one answer per key expected")
                for k, f in zip(ks, flags):
                    if (f[0] == "d") != (k in rp): return fail(i, "key %d: %s" % (k, "already present: must be refused" if k in rp else "new: must be inserted"))
                    if f[0] == "i":
                        rid = int(f[1:])
                        if rid in rp_id2key: return fail(i, "record %d handed out twice" % rid)
                        rp.add(k); rp_id2key[rid] = k
            elif name == "rp_lookup":
                if l == "bad-op": continue
                got = [] if len(w) < 2 else w[1].split(",")
                for k, g in zip(ints(kv["k"]), got):
                    if (g == "-") != (k not in rp): return fail(i, "lookup of %d" % k)
                    if g != "-" and rp_id2key.get(int(g)) != k: return fail(i, "lookup of %d returned the record of another key" % k)
            elif name == "rp_pool":
                free = ints(l.split("free=")[1]) if "free=" in l else None
                if free is None or len(set(free)) != len(free) or any(f in rp_id2key for f in free): return fail(i, "free list shares a record with the tree (or with itself)")
            elif name == "rp_nodes":
                try:
                    root = w[1].split("=")[1]; recs = {}
                    for x in w[3:]:
                        f = x.split(":"); recs[int(f[0])] = (int(f[1]), f[2], f[3], f[4], f[5])
                except Exception:
                    return fail(i, "unparsable record dump")
                if {r: v[0] for r, v in recs.items()} != rp_id2key: return fail(i, "records in the structure differ from the inserted ones")
                if rp_list is None:
                    def build(pid, parent):
                        if pid == "-": return None
                        k, c, pa, sm, lg = recs[int(pid)]
                        if pa != parent: raise ValueError("record %s: parent pointer is %s, should be %s" % (pid, pa, parent))
                        return (c, k, build(sm, pid), build(lg, pid))
                    try:
                        t = build(root, "-")
                    except (ValueError, KeyError, RecursionError) as e:
                        return fail(i, str(e) or "broken pointer structure")
                    err, ks = check_rb(t)
                    if err: return fail(i, err)
                    if ks != sorted(rp): return fail(i, "tree keys differ from the inserted distinct keys")
                else:
                    # a doubly linked list: small = predecessor, large = successor in key order; both ends NULL
                    order = sorted(recs, key=lambda r: recs[r][0])
                    for j, r in enumerate(order):
                        sm = str(order[j - 1]) if j > 0 else "-"
                        lg = str(order[j + 1]) if j + 1 < len(order) else "-"
                        if recs[r][3] != sm or recs[r][4] != lg: return fail(i, "record %d (key %d): small/large are %s/%s, sorted list needs %s/%s" % (r, recs[r][0], recs[r][3], recs[r][4], sm, lg))
            elif name == "rp_hash":
                if not (len(w) > 2 and w[2] == "n=%d" % len(rp)): return fail(i, "structure should hold %d records" % len(rp))
            elif name == "rp_convert":
                if l == "bad-op": continue
                if not rp:
                    if l != "fail": return fail(i, "empty tree: eslFAIL expected")
                else:
                    key2id = {k: r for r, k in rp_id2key.items()}
                    exp = "ok head=%d tail=%d" % (key2id[max(rp)], key2id[min(rp)])
                    if l != exp: return fail(i, "head/tail should be the records of the largest/smallest key: %s" % exp)
                    rp_list = True
            elif name == "rp_ltest":
                if l != ("ok" if rp_list else "bad-op"): return fail(i, "linked_list_test must accept the converted tree")
            elif name == "rp_walk":
                if rp_list:
                    key2id = {k: r for r, k in rp_id2key.items()}
                    asc = [key2id[k] for k in sorted(rp)]
                    if l != "ok desc=%s asc=%s" % (fmt_ints(asc[::-1]), fmt_ints(asc)): return fail(i, "not the records in key order (large->small, small->large)")
            # ---------------- heap
            elif name == "heap_new":
                heap, hmax = [], kv.get("max") == "1"
            elif name == "hins":
                for v in ints(kv["v"]): bisect.insort(heap, v)
                if l != "ok %d" % len(heap): return fail(i, "count should be %d" % len(heap))
            elif name == "hext":
                if not heap:
                    if l != "eod 0": return fail(i, "empty heap")
                else:
                    v = heap.pop(-1 if hmax else 0)
                    if l != "ok %d" % v: return fail(i, "best value is %d" % v)
            elif name == "hpop":
                if heap:
                    heap.pop(-1 if hmax else 0)
                    if l != "ok %d" % len(heap): return fail(i, "one element (the best) should have been deleted")
                elif l != "eod 0":
                    return fail(i, "empty heap: eslEOD expected")
            elif name == "hdrain":
                exp = list(reversed(heap)) if hmax else list(heap)
                heap = []
                if l != "ok " + fmt_ints(exp): return fail(i, "not the sorted multiset of the inserted values")
            elif name == "htop":
                exp = (heap[-1] if hmax else heap[0]) if heap else 0
                if l != "ok %d" % exp: return fail(i, "top is %d" % exp)
            elif name == "hcount":
                if l != "ok %d" % len(heap): return fail(i, "count is %d" % len(heap))
            elif name == "hreuse":
                heap = []
            elif name == "hvalidate":
                if l != "ok": return fail(i, "heap order broken")
            elif name == "hdump":
                d = ints(w[1]) if len(w) > 1 else []
                if sorted(d) != heap: return fail(i, "array is not a permutation of the inserted values")
                for j in range(1, len(d)):
                    p = d[(j - 1) // 2]
                    if (p < d[j]) if hmax else (p > d[j]): return fail(i, "heap order broken at index %d" % j)
            # ---------------- red-black
            elif name == "rb_new":
                rb = set()
            elif name == "rb_ins":
                flags = ""
                for k in ints(kv["k"]):
                    if k in rb: flags += "d"
                    else: rb.add(k); flags += "i"
                if l != "ok " + flags: return fail(i, "insert/duplicate pattern should be %s" % flags[:60])
            elif name == "rb_dump":
                if w[0] != "ok": return fail(i, "parent links inconsistent")
                try:
                    t = parse_tree(l[3:])
                except Exception as e:
                    return fail(i, "unparsable tree dump")
                err, ks = check_rb(t)
                if err: return fail(i, err)
                if ks != sorted(rb): return fail(i, "tree keys differ from the inserted distinct keys")
            elif name == "rb_hash":
                if not l.startswith("ok n=%d " % len(rb)): return fail(i, "tree should hold %d keys" % len(rb))
            elif name == "rb_lookup":
                exp = "".join("y" if k in rb else "n" for k in ints(kv["k"]))
                if l != "ok " + exp: return fail(i, "lookup pattern should be %s" % exp)
            elif name == "rb_list":
                if not rb:
                    if l != "fail": return fail(i, "empty tree")
                else:
                    s = sorted(rb)
                    exp = "ok desc=%s asc=%s" % (fmt_ints(s[::-1]), fmt_ints(s))
                    rb = set()
                    if l != exp: return fail(i, "not the sorted list of the inserted distinct keys")
            # ---------------- stacks
            elif name == "st_new":
                st, st_ordered, stype = [], True, kv.get("t", "i")
            elif name == "push":
                st += ints(kv["v"])
                if l != "ok %d" % len(st): return fail(i, "count should be %d" % len(st))
            elif name == "st_release":
                if l != "ok": return fail(i, "ReleaseCond failed")
            elif name == "pop":
                if l == "bad-op":
                    continue                   # (shrunk case) Pop on an empty stack with an active condition variable: not issued
                if not st:
                    if l != "eod 0": return fail(i, "empty stack")
                elif st_ordered:
                    v = st.pop()
                    if l != "ok %d" % v: return fail(i, "top is %d" % v)
                else:
                    v = int(w[1]) if w[0] == "ok" else None
                    if v not in st: return fail(i, "popped value was never pushed (or already removed)")
                    st.remove(v)
                    # order unknown after a shuffle: stay in multiset mode
            elif name == "popall":
                got = ints(w[1]) if len(w) > 1 else []
                if st_ordered:
                    if got != st[::-1]: return fail(i, "not the pushed values in reverse order")
                elif sorted(got) != sorted(st): return fail(i, "multiset changed")
                st, st_ordered = [], True
            elif name == "count":
                if l != "ok %d" % len(st): return fail(i, "count is %d" % len(st))
            elif name == "st_reuse":
                st, st_ordered = [], True
            elif name == "st_dump":
                got = ints(w[1]) if len(w) > 1 else []
                if st_ordered:
                    if got != st: return fail(i, "array differs from the pushed values")
                elif sorted(got) != sorted(st): return fail(i, "multiset changed")
                st, st_ordered = got, True
            elif name == "discardtop":
                n = int(kv["n"])
                if not st_ordered and 0 < n < len(st):
                    st_ordered = None          # cannot be followed without knowing the order
                st = st[:max(0, len(st) - n)] if st_ordered is not None else st
                if st_ordered is None:
                    return None                # (generator dumps after most shuffles; give up silently on this rare path)
                if l != "ok %d" % len(st): return fail(i, "count should be %d" % len(st))
            elif name == "discardsel":
                mode, p = kv.get("mode", "even"), int(kv.get("p", "0"))
                f = {"even": lambda x: x % 2 == 0, "lt": lambda x: x < p, "eq": lambda x: x == p, "all": lambda x: True}.get(mode, lambda x: False)
                st = [x for x in st if not f(x)]
                if l != "ok %d" % len(st): return fail(i, "count should be %d" % len(st))
            elif name == "shuffle":
                if l != "ok": return fail(i, "shuffle failed")
                if len(st) > 1: st_ordered = False
            elif name == "tostring":
                b = bytes(st).split(b"\0")[0] if st_ordered else None
                if b is not None and l != "ok " + hx(b): return fail(i, "string is not the pushed characters in order")
                st, st_ordered, stype = [], True, "i"
            elif name == "st_threads":
                if l == "bad-op": continue
                v = ints(kv["v"]); t = kv.get("t", "i")
                v = sorted((x % 256) if t == "c" else x for x in v)
                exp = "ok popped=%s left=0 eods=%s early=0" % (fmt_ints(v), kv.get("poppers", "1"))
                if l != exp: return fail(i, "threads lost / duplicated / invented an item, left one behind, or a popper did not end with exactly one eslEOD, or got eslEOD before ReleaseCond; expected %s" % exp[:100])
            # ---------------- quicksort
            elif name == "qsort":
                data = ints(kv["data"]); mode = kv.get("mode", "asc")
                got = ints(w[1]) if len(w) > 1 else []
                if sorted(got) != list(range(len(data))): return fail(i, "not a permutation of 0..n-1")
                key = (lambda v: v // 8) if mode == "coarse" else (lambda v: v)
                seq = [key(data[j]) for j in got]
                if mode == "desc": seq = [-x for x in seq]
                if any(a > b for a, b in zip(seq, seq[1:])): return fail(i, "data not ordered by the returned permutation")
        return None

    def input_distribution(self, cs):
        import collections
        opcount = collections.Counter()
        keylen = collections.Counter()
        maxops = 0
        for c in cs:
            maxops = max(maxops, len(c["ops"]))
            for op in c["ops"]:
                name, _, rest = op.partition(" ")
                opcount[name] += 1
                if name in ("store", "lookup"):
                    key = rest.split()[0][4:]
                    L = 0 if key == "-" else len(key) // 2
                    keylen["0" if L == 0 else "1-8" if L <= 8 else "9-64" if L <= 64 else "65-255" if L <= 255 else "256-300"] += 1
        return {"cases": len(cs), "max_ops_per_case": maxops, "ops": dict(opcount), "key_lengths": dict(keylen)}

    # ------------------------------------------------------------------ public API of the five anchored modules vs. ops + theorems
    API_THEOREMS = {
        "esl_keyhash_Create": ["keyhash_refines", "keyhash_ops"], "esl_keyhash_CreateCustom": ["keyhash_refines", "keyhash_ops", "keyhash_at_bound"],
        "esl_keyhash_Clone": ["keyhash_refines", "keyhash_ops"], "esl_keyhash_Get": ["keyhash_refines", "keyhash_get_cstring", "spec_get"],
        "esl_keyhash_GetNumber": ["keyhash_ops"], "esl_keyhash_Sizeof": [], "esl_keyhash_Reuse": ["keyhash_refines", "keyhash_ops", "keyhash_reuse_empties_every_slot", "keyhash_reuse_lookup_immediate"],
        "esl_keyhash_Destroy": [], "esl_keyhash_Dump": ["keyhash_dump_repaired"],
        "esl_keyhash_Store": ["keyhash_refines", "keyhash_key_length", "keyhash_string_paths_repaired", "spec_store", "keyhash_upsize", "keyhash_at_bound"],
        "esl_keyhash_Lookup": ["keyhash_refines", "keyhash_string_paths_repaired", "spec_lookup"],
        "esl_heap_ICreate": ["heap_history"], "esl_heap_GetCount": ["heap_history"], "esl_heap_IGetTopVal": ["heap_history"],
        "esl_heap_Reuse": ["heap_history"], "esl_heap_Destroy": [], "esl_heap_IInsert": ["heap_insert", "heap_history", "heap_grow", "heap_duplicates"],
        "esl_heap_IExtractTop": ["heap_extract", "heap_extract_null", "heap_sorts", "heap_drain"], "esl_heap_IGetTop": [],
        "esl_red_black_doublekey_Create": ["rb_ptr_history"], "esl_red_black_doublekey_Destroy": [], "esl_red_black_doublekey_linked_list_Destroy": [],
        "esl_red_black_doublekey_pool_Create": ["rb_pool_never_twice", "rb_pool_give_take", "rb_ptr_pool_history", "rb_ptr_pool_giveback", "rb_ptr_pool_giveback_history"],
        "esl_red_black_doublekey_insert": ["rb_ptr_insert_refines", "rb_ptr_rebalance_refines", "rb_ptr_insert_wf", "rb_ptr_history", "rb_insert", "rb_history", "rb_height"],
        "esl_red_black_doublekey_lookup": ["rb_ptr_lookup", "rb_lookup", "rb_lookup_history"],
        "esl_red_black_doublekey_convert_to_sorted_linked": ["rb_convert_doubly_linked", "rb_convert_passes_list_test", "rb_convert_null", "rb_ptr_history_converts", "rb_sorted_linked"],
        "esl_quicksort": ["quicksort_sorts", "quicksort_unguarded_n0_faults"],
        "esl_stack_ICreate": ["stack_history"], "esl_stack_CCreate": ["stack_history"], "esl_stack_PCreate": ["stack_history"],
        "esl_stack_Reuse": ["stack_history"], "esl_stack_Destroy": [],
        "esl_stack_IPush": ["stack_push_pop", "stack_history", "stack_nalloc_in_range"], "esl_stack_CPush": ["stack_push_pop", "stack_history"], "esl_stack_PPush": ["stack_push_pop", "stack_history"],
        "esl_stack_IPop": ["stack_push_pop", "stack_pop_empty", "stack_lifo"], "esl_stack_CPop": ["stack_push_pop", "stack_pop_empty", "stack_lifo"], "esl_stack_PPop": ["stack_push_pop", "stack_pop_empty", "stack_lifo"],
        "esl_stack_ObjectCount": ["stack_history"], "esl_stack_Convert2String": ["stack_convert2String"], "esl_stack_DiscardTopN": ["stack_discardTopN"],
        "esl_stack_DiscardSelected": ["stack_discardSelected"], "esl_stack_Shuffle": ["stack_shuffle", "stack_history_shuffles"],
        "esl_stack_UseMutex": ["stack_threads_atomic", "stack_threads_mutex_progress"], "esl_stack_UseCond": ["stack_threads_conservation", "stack_threads_waiting_pop_completes"],
        "esl_stack_ReleaseCond": ["stack_threads_eod_only_after_release", "stack_threads_completes_after_release"],
    }
    API_NOTES = {
        "esl_heap_IGetTop": "declared in esl_heap.h, defined nowhere (no code to model)",
        "esl_keyhash_Sizeof": "compared exactly (op kh_sizes); a size report, no property clause",
        "esl_keyhash_Destroy": "called at every case end under LeakSanitizer", "esl_heap_Destroy": "called at every case end under LeakSanitizer",
        "esl_stack_Destroy": "called at every case end under LeakSanitizer", "esl_red_black_doublekey_Destroy": "called at every case end under LeakSanitizer",
        "esl_red_black_doublekey_linked_list_Destroy": "called after every conversion under LeakSanitizer",
    }

    def api_coverage(self, ctx):
        """Mechanical list: every function declared in the five public headers of the working tree -> is it defined, which
        harness ops call it, how often the generated cases used those ops, which theorems of SPEC.theorems speak about it."""
        import os, re
        hdrs = ["esl_keyhash.h", "esl_heap.h", "esl_red_black.h", "esl_quicksort.h", "esl_stack.h"]
        syms = []
        for h in hdrs:
            txt = open(os.path.join(ctx.src, h), errors="replace").read()
            txt = re.sub(r"/\*.*?\*/", " ", txt, flags=re.S)
            for m in re.finditer(r"\b(esl_(?:keyhash|heap|stack|red_black_doublekey)_\w+|esl_quicksort)\s*\(", txt):
                if m.group(1) not in syms: syms.append(m.group(1))
        ctext = ""
        for c in ["esl_keyhash.c", "esl_heap.c", "esl_red_black.c", "esl_quicksort.c", "esl_stack.c"]:
            ctext += re.sub(r"/\*.*?\*/", " ", open(os.path.join(ctx.src, c), errors="replace").read(), flags=re.S)
        import vlib.engine as eng
        htxt = open(os.path.join(os.path.dirname(os.path.dirname(os.path.abspath(__file__))), "harness", self.harness)).read()
        # harness text cut at every `strcmp(op, "name")`: the symbols used until the next op name belong to that op
        cuts = [(m.start(), m.group(1)) for m in re.finditer(r'strcmp\(op, "(\w+)"\)', htxt)]
        ops_of = {}
        # helper functions of the harness (before the op dispatcher): the library functions they call, transitively
        pre = htxt[:cuts[0][0]] if cuts else htxt
        hpos = [(m.start(), m.group(1)) for m in re.finditer(r"^static[^\n;(]*?\b(\w+)\s*\(", pre, flags=re.M)]
        helper = {}
        for i, (pos, name) in enumerate(hpos):
            body = pre[pos:hpos[i + 1][0]] if i + 1 < len(hpos) else pre[pos:]
            helper[name] = (body, {sname for sname in syms if re.search(r"\b%s\s*\(" % re.escape(sname), body)})
        for _ in range(3):
            for name, (body, used) in helper.items():
                for other, (_, oused) in helper.items():
                    if other != name and re.search(r"\b%s\s*\(" % re.escape(other), body): used |= oused
        for i, (pos, name) in enumerate(cuts):
            seg = htxt[pos:cuts[i + 1][0]] if i + 1 < len(cuts) else htxt[pos:]
            for sname in syms:
                if re.search(r"\b%s\s*\(" % re.escape(sname), seg): ops_of.setdefault(sname, set()).add(name)
            for hname, (_, used) in helper.items():
                if re.search(r"\b%s\s*\(" % re.escape(hname), seg):
                    for sname in used: ops_of.setdefault(sname, set()).add(name)
        anywhere = {sname for sname in syms if re.search(r"\b%s\s*\(" % re.escape(sname), htxt)}
        opcount = (ctx.stats.get("input_distribution") or {}).get("ops", {})
        known = set(t.rsplit(".", 1)[1] for t in self.theorems)
        table, uncovered = [], []
        for sname in syms:
            defined = bool(re.search(r"\b%s\s*\([^;{}]*\)\s*\{" % re.escape(sname), ctext))
            ops = sorted(ops_of.get(sname, ()))
            ths = self.API_THEOREMS.get(sname)
            row = {"function": sname, "defined": defined, "harness_ops": ops, "called_in_harness": sname in anywhere,
                   "op_uses_this_run": sum(opcount.get(o, 0) for o in ops),
                   "theorems": [t for t in (ths or []) if t in known], "theorems_missing": [t for t in (ths or []) if t not in known]}
            if sname in self.API_NOTES: row["note"] = self.API_NOTES[sname]
            if ths is None: row["note"] = "NEW public function: not in the plug-in's table (no op, no theorem yet)"
            if defined and (sname not in anywhere or ths is None): uncovered.append(sname)
            table.append(row)
        return {"public_functions": len(syms), "defined": sum(1 for r in table if r["defined"]),
                "called_by_harness": sum(1 for r in table if r["called_in_harness"]),
                "with_theorem": sum(1 for r in table if r["theorems"]), "uncovered": uncovered, "table": table}

    def extra_evidence(self, ctx):
        ev = {"keyhash_variant_in_tree": ctx.stats.get("keyhash_variant_in_tree"),
              "keyhash_growth_variant_in_tree": ctx.stats.get("keyhash_growth_variant_in_tree")}
        try:
            ev["api_coverage"] = self.api_coverage(ctx)
        except Exception as e:                      # a coverage table must never turn a passing check into a failing one
            ev["api_coverage"] = {"error": repr(e)}
        for k in ("rb_long_histories", "keyhash_growth_boundary_cases"):
            if k in ctx.stats: ev[k] = ctx.stats[k]
        return ev


SPEC = C19()
