"""C16 — sequence weights (PB, BLOSUM, GSC), %id filtering, single-linkage clustering, pairwise identity.
Model: lean/EaselModel/Weights/*, theorems: Props/C16.lean, driver: Driver/C16.lean, harness: h_weights.c"""
import re
import struct
from fractions import Fraction
from vlib.engine import Prop, Failure


# ------------------------------------------------------------------ helpers (independent of the Lean model)
def dbits(x):
    return "%016x" % struct.unpack("<Q", struct.pack("<d", x))[0]

def undbits(s):
    return struct.unpack("<d", struct.pack("<Q", int(s, 16)))[0]

def f32bits(x):
    return "%08x" % struct.unpack("<I", struct.pack("<f", x))[0]

def f32(x):
    """round a python float to binary32 (division of two ints < 2^24 done in double then rounded = float division)"""
    return struct.unpack("<f", struct.pack("<f", x))[0]

ABC = {"amino": (20, 29), "dna": (4, 18), "rna": (4, 18)}
GAPCH = (45, 95, 46)

def is_alpha(c):
    return 65 <= c <= 90 or 97 <= c <= 122

def upper(c):
    return c - 32 if 97 <= c <= 122 else c

import operator

class Aln:
    """an alignment as the monitors see it; pairwise identity by its definition (independent of the Lean model)"""
    def __init__(self, mode):
        self.mode, self.rows, self.rf = mode, [], None
        self._mx = None
    def is_res(self, c):
        if self.mode == "text": return is_alpha(c)
        K, Kp = ABC[self.mode]
        return c < K or (K < c < Kp - 2)
    def key(self, c):
        return upper(c) if self.mode == "text" else c
    def pair(self, a, b):
        """(nid, n) by the definition: identical residue pairs, shorter ungapped length"""
        ra = [self.is_res(c) for c in a]; rb = [self.is_res(c) for c in b]
        nid = sum(1 for x, y, p, q in zip(a, b, ra, rb) if p and q and self.key(x) == self.key(y))
        return nid, min(sum(ra), sum(rb))
    def pid(self, a, b):
        nid, n = self.pair(a, b)
        return (nid / n) if n else 0.0
    def pmatch(self, a, b):
        """(nm, len): columns where both / either is a residue"""
        ra = [self.is_res(c) for c in a]; rb = [self.is_res(c) for c in b]
        return sum(1 for p, q in zip(ra, rb) if p and q), sum(1 for p, q in zip(ra, rb) if p or q)
    def jc_counts(self, a, b):
        if self.mode == "text": ok = is_alpha
        else: ok = lambda c: c < ABC[self.mode][0]
        n1 = sum(1 for x, y in zip(a, b) if ok(x) and ok(y) and self.key(x) == self.key(y))
        n2 = sum(1 for x, y in zip(a, b) if ok(x) and ok(y) and self.key(x) != self.key(y))
        return n1, n2
    def add_row(self, r):
        self.rows.append(r); self._mx = None
    def pairs(self):
        """all (nid, n) of the alignment, computed once per alignment: rows are re-keyed so that a non-residue never
        equals anything (two different fillers), then compared position-wise"""
        if self._mx is None or len(self._mx) != len(self.rows):
            ka = [bytes(self.key(c) if self.is_res(c) else 254 for c in r) for r in self.rows]
            kb = [bytes(self.key(c) if self.is_res(c) else 255 for c in r) for r in self.rows]
            ln = [sum(1 for c in r if self.is_res(c)) for r in self.rows]
            n = len(self.rows)
            mx = [[None] * n for _ in range(n)]
            for i in range(n):
                for j in range(i, n):
                    nid = sum(map(operator.eq, ka[i], kb[j]))
                    mx[i][j] = mx[j][i] = (nid, min(ln[i], ln[j]))
            self._mx = mx
        return self._mx
    def pidx(self, i, j):
        nid, n = self.pairs()[i][j]
        return (nid / n) if n else 0.0

class EaselMT:
    """esl_randomness_Create(seed) (Mersenne Twister with easel's Knuth-LCG seeding) + esl_rnd_Roll, written from esl_random.c
    independently of the Lean model; used to replay the sampling branch of esl_dst_*Average*"""
    def __init__(self, seed):
        self.mt = [seed & 0xffffffff]
        for _ in range(623): self.mt.append((69069 * self.mt[-1]) & 0xffffffff)
        self.mti = 624
    def u32(self):
        mt = self.mt
        if self.mti >= 624:
            for z in range(624):
                y = (mt[z] & 0x80000000) | (mt[(z + 1) % 624] & 0x7fffffff)
                mt[z] = mt[(z + 397) % 624] ^ (y >> 1) ^ (0x9908b0df if y & 1 else 0)
            self.mti = 0
        x = mt[self.mti]; self.mti += 1
        x ^= x >> 11; x ^= (x << 7) & 0x9d2c5680; x ^= (x << 15) & 0xefc60000; x ^= x >> 18
        return x & 0xffffffff
    def roll(self, n):
        factor = 0xffffffff // n
        while True:
            u = self.u32() // factor
            if u < n: return u

def components(n, link):
    """union-find over all pairs"""
    p = list(range(n))
    def find(x):
        while p[x] != x:
            p[x] = p[p[x]]; x = p[x]
        return x
    for i in range(n):
        for j in range(i + 1, n):
            if link(i, j):
                a, b = find(i), find(j)
                if a != b: p[a] = b
    return [find(i) for i in range(n)]

def close(a, b, rel=1e-9):
    return abs(a - b) <= rel * max(1.0, abs(a), abs(b))


GSC_KEY = "C16:gsc:identical-rows-split-by-zero-distance-ties"
GSC_KEY2 = "C16:gsc:relisting-changes-weights-on-derived-distance-ties"

def gsc_exact(d, n):
    """GSC weights over exact fractions, written from the published algorithm + the C code's conventions (first minimum in
    row-major order of the compacted matrix; joined rows moved to the end) — a second, independent reading of
    esl_tree.c:cluster_engine / esl_msaweight_GSC besides the Lean model. d = full n x n distance matrix of Fractions."""
    if n == 1: return [Fraction(1)]
    D = [row[:] for row in d]
    idx = [-i for i in range(n)]; nin = [1] * n
    height = [Fraction(0)] * (n - 1); left = [0] * (n - 1); right = [0] * (n - 1)
    ld = [Fraction(0)] * (n - 1); rd = [Fraction(0)] * (n - 1)
    for N in range(n, 1, -1):
        mn, i, j = D[0][1], 0, 1
        for r in range(N):
            for c in range(r + 1, N):
                if D[r][c] < mn: mn, i, j = D[r][c], r, c
        k = N - 2
        left[k], right[k] = idx[i], idx[j]
        height[k] = mn / 2
        ld[k] = rd[k] = height[k]
        if idx[i] > 0: ld[k] = max(Fraction(0), ld[k] - height[idx[i]])
        if idx[j] > 0: rd[k] = max(Fraction(0), rd[k] - height[idx[j]])
        def move(p, t):
            if p == t: return
            for r in range(N): D[r][t], D[r][p] = D[r][p], D[r][t]
            D[t], D[p] = D[p], D[t]
            idx[p], idx[t] = idx[t], idx[p]; nin[p], nin[t] = nin[t], nin[p]
        move(j, N - 1); move(i, N - 2)
        i, j = N - 2, N - 1
        for c in range(N):
            D[i][c] = (nin[i] * D[i][c] + nin[j] * D[j][c]) / (nin[i] + nin[j])
            D[c][i] = D[i][c]
        nin[i] += nin[j]; idx[i] = N - 2
    cs = [0] * (n - 1); x = [Fraction(0)] * (n - 1)
    for k in range(n - 2, -1, -1):
        cs[k] = (1 if left[k] <= 0 else cs[left[k]]) + (1 if right[k] <= 0 else cs[right[k]])
        x[k] = ld[k] + rd[k] + (x[left[k]] if left[k] > 0 else 0) + (x[right[k]] if right[k] > 0 else 0)
    w = [Fraction(0)] * n
    x[0] = Fraction(0)
    for k in range(n - 1):
        lw = ld[k] + (x[left[k]] if left[k] > 0 else 0)
        rw = rd[k] + (x[right[k]] if right[k] > 0 else 0)
        if lw + rw == 0:
            lx = x[k] * Fraction(cs[left[k]], cs[k]) if left[k] > 0 else x[k] / cs[k]
            rx = x[k] * Fraction(cs[right[k]], cs[k]) if right[k] > 0 else x[k] / cs[k]
        else:
            lx = x[k] * lw / (lw + rw); rx = x[k] * rw / (lw + rw)
        if left[k] <= 0: w[-left[k]] = lx + ld[k]
        else: x[left[k]] = lx + ld[k]
        if right[k] <= 0: w[-right[k]] = rx + rd[k]
        else: x[right[k]] = rx + rd[k]
    S = sum(w)
    return [Fraction(1)] * n if S == 0 else [v / S * n for v in w]

def merge_rule(link, na, nb, da, db):
    """cluster_engine's four rules: UPGMA, WPGMA, single, complete linkage"""
    if link == 0: return (na * da + nb * db) / (na + nb)
    if link == 1: return (da + db) / 2
    if link == 2: return min(da, db)
    return max(da, db)

def upgma_exact(d, n, link=0):
    """the tree part of gsc_exact, for each mode of cluster_engine: (left, right, ld, rd) in C layout over exact fractions"""
    D = [row[:] for row in d]
    idx = [-i for i in range(n)]; nin = [1] * n
    height = [Fraction(0)] * (n - 1); left = [0] * (n - 1); right = [0] * (n - 1)
    ld = [Fraction(0)] * (n - 1); rd = [Fraction(0)] * (n - 1)
    for N in range(n, 1, -1):
        mn, i, j = D[0][1], 0, 1
        for r in range(N):
            for c in range(r + 1, N):
                if D[r][c] < mn: mn, i, j = D[r][c], r, c
        k = N - 2
        left[k], right[k] = idx[i], idx[j]
        height[k] = mn if link >= 2 else mn / 2
        ld[k] = rd[k] = height[k]
        if link < 2:
            if idx[i] > 0: ld[k] = max(Fraction(0), ld[k] - height[idx[i]])
            if idx[j] > 0: rd[k] = max(Fraction(0), rd[k] - height[idx[j]])
        def move(p, t):
            if p == t: return
            for r in range(N): D[r][t], D[r][p] = D[r][p], D[r][t]
            D[t], D[p] = D[p], D[t]
            idx[p], idx[t] = idx[t], idx[p]; nin[p], nin[t] = nin[t], nin[p]
        move(j, N - 1); move(i, N - 2)
        i, j = N - 2, N - 1
        for c in range(N):
            D[i][c] = merge_rule(link, nin[i], nin[j], D[i][c], D[j][c])
            D[c][i] = D[i][c]
        nin[i] += nin[j]; idx[i] = N - 2
    return left, right, ld, rd

def upgma_tie_free(d, n, link=0):
    """UPGMA over exact fractions (independent of the Lean model): True iff at every merge the minimum distance is
    attained by exactly one pair, i.e. the tree does not depend on how ties are broken"""
    cl = {i: 1 for i in range(n)}                       # cluster id -> size
    D = {(i, j): d[i][j] for i in range(n) for j in range(i + 1, n)}
    nxt = n
    while len(cl) > 1:
        m = min(D.values())
        best = [k for k, v in D.items() if v - m <= Fraction(1, 10**9)]     # "tie" includes near-ties that binary64 might not resolve
        if len(best) > 1: return False
        a, b = best[0]
        new = {}
        for c in cl:
            if c in (a, b): continue
            da = D[(min(a, c), max(a, c))]; db = D[(min(b, c), max(b, c))]
            new[(c, nxt)] = merge_rule(link, cl[a], cl[b], da, db)
        D = {k: v for k, v in D.items() if a not in k and b not in k}
        D.update(new)
        cl[nxt] = cl[a] + cl[b]; del cl[a]; del cl[b]
        nxt += 1
    return True

class C16(Prop):
    id = "C16"
    lean_modules = ["EaselModel.Props.C16"]
    lean_exe = "c16_driver"
    harness = "h_weights.c"
    theorems = ["EaselModel.Props.C16." + t for t in (
        "pairId_spec", "pairId_unaligned", "pairId_symm", "pairId_self", "pairId_empty", "pairId_range",
        "singleLinkage_components", "singleLinkage_assignment", "singleLinkage_numbering", "msaSingleLinkage_components",
        "idFilter_independent_maximal", "idFilterText_spec",
        "pb_sum", "pb_nonneg", "pb_formula", "pb_identical_rows",
        "singleLinkage_sizes", "idFilterDigital_spec", "quicksort_permutation", "blosum_formula", "blosum_sum_nonneg",
        "pb_counts_digital", "pb_counts_text", "pb_relisting_digital", "pb_relisting_text", "gsc_sum_nonneg",
        "gsc_identical_rows_fails_at", "blosum_identical_rows", "pairIdMx_spec", "blosum_relisting",
        "singleLinkage_numbering_not_first_seen", "gsc_relisting_fails_at", "pbText_is", "pbDigital_is",
        "upgma_joins_minimum", "threshold_at_attained_identity", "idFilter_dropped_by_earlier", "idFilterText_keeps_earlier",
        "idFilterDigital_keeps_better_ranked", "gsc_relisting_tie_free", "gsc_identical_rows_tie_free", "tieFree_checkable",
        "pbAdv_is", "pbAdv_sum_nonneg", "pbAdv_identical_rows", "pbAdv_formula", "pbAdv_no_sampling",
        "pb_relisting_fails_with_sampling", "idFilterAdv_spec", "idFilterAdv_preference_picks_representative",
        "upgma_well_formed", "upgma_parent_child", "upgma_heights", "diffMx_in_unit_interval", "upgma_cladesizes",
        "cladesizes_count_leaves", "gscTree_sum_nonneg", "gsc_is_gscTree_of_upgma",
        "pairMatch_spec", "pairMatch_symm_range", "jukesCantor_symm", "jukescantor_spec", "average_spec", "averageId_range",
        "linkage_is_upgma", "linkage_well_formed", "linkage_parent_child", "linkage_cladesizes", "linkage_heights",
        "linkage_merge_reducible", "linkage_branch_lengths_nonneg", "linkage_branch_lengths_negative_at",
        "cPairId_xPairId_symm_range_empty", "pairMatch_empty", "jukesCantor_empty", "jukescantor_infinite_iff", "diffMx_spec",
        "jukesCantorMx_spec", "avgConnectivity_spec", "avgSubsetConnectivity_is",
        "quicksort_sorts", "quicksort_decreasing_weights", "idFilterAdv_keeps_preferred", "idFilterAdv_conscover", "idFilterAdv_random",
        "idFilterAdv_origorder", "consensus_by_all_selects", "consensus_by_rf_selects", "consensus_by_sample_selects",
        "pbAdv_consensus_cascade", "average_sampling_in_bounds", "average_all_empty", "linkage_additive_ultrametric", "idFilterAdv_consensus_cascade", "linkage_cladesizes_root", "fragment_rule_documented", "pairId_text_digital_agree", "pairId_text_digital_agree_dna", "msaSingleLinkage_one_cluster_at_zero", "idFilterText_keeps_first_at_zero", "blosum_all_one_at_zero", "idFilterDigital_keeps_top_at_zero",
        "gsc_tieRule_family_contains_code", "gsc_tieRule_irrelevant_without_ties", "gsc_no_tieRule_is_relisting_invariant", "gsc_sum_nonneg_any_join_order",
        "simulate_roll_names_active_branch", "simulate_invariant", "simulate_step_in_bounds", "simulate_finish_in_bounds", "compare_self_ok",
        "threshold_linked_rounded_eq_exact", "singleLinkage_rounded_threshold_components", "idFilter_rounded_threshold", "blosum_rounded_threshold_clusters",
        "toDistanceMatrix_is_path_metric", "lcaLoop_path_and_terminates")]
    claimed = True
    technique = ("Lean 4 proof over the exact (Q) instance of a numeric-class-polymorphic executable model of esl_distance/esl_cluster/"
                 "esl_msacluster/esl_quicksort/esl_msaweight/esl_tree(UPGMA) + bit-exact differential correspondence of the Float instance "
                 "of the same definitions with the ASan/UBSan-built C code + independent python monitors (fractions, union-find, clade sets, path lengths)")
    level_text = ("Theorems for every alignment (any size), both text and digital mode, any threshold, any symmetric link function, any "
                  "consensus rule / fragment threshold / RF line: PairId = identical pairs / shorter ungapped length (symmetric, 1 on equal "
                  "non-empty rows, 0 on empty, EINVAL when unaligned); single linkage = exactly the connected components, clusters "
                  "numbered 0..nc-1 all non-empty; the greedy %id filter keeps an independent set to which no dropped row can be added; "
                  "PB weights are >= 0, sum to N, equal the 1/(r*c) formula (true column counts, whatever the fragment rule) normalised by the "
                  "row's residue count, agree on identical rows and follow the rows under relisting; BLOSUM weights = (N/#clusters)/|cluster|, "
                  ">= 0, sum N, agree on identical rows, follow the rows under relisting; GSC weights >= 0 and sum N; esl_quicksort returns a "
                  "permutation for any comparator (so the digital filter tries every row once, any preference rule); cluster sizes/count "
                  "consistent with the assignment; UPGMA joins a minimum pair each pass; rounded threshold tests at attained identities "
                  "decide like exact ones for any monotone rounding with error < 1/(2nq). "
                  "Round 4: cluster_engine in ALL FOUR modes (UPGMA, WPGMA, single, complete linkage) returns, for every matrix, a well-formed "
                  "rooted binary tree (parent/child/taxaparent/cladesize consistent) whose recorded join values never decrease (all four merge "
                  "rules are reducible) and whose branch lengths are the linkage value resp. EXACT height differences (the 0-clamp never acts over Q), "
                  ">= 0 whenever no distance is negative (counter-example with a negative entry proved); esl_quicksort SORTS for every reflexive, "
                  "total, transitive comparison, hence each preference rule of IDFilter_adv keeps a representative it prefers at least as much "
                  "(conscover: spans >= as many consensus columns; random: larger draw; origorder: IS the text rule 'keep the earlier row'); the "
                  "consensus columns of PB_adv/IDFilter_adv are exactly those meeting the documented rule (RF / counts over all rows / counts over "
                  "ANY sample, with the fragment rule; rejected sample <=> more than maxfrag fragments; cascade RF|sample -> all rows -> all columns); "
                  "every public function of esl_distance.c in text and digital mode: PairId/PairMatch symmetric, in [0,1], 0 as soon as EITHER "
                  "sequence has no residue; JukesCantor formula + variance over R, infinite iff identity fraction <= 1/K, eslEDIVZERO on a residue-free "
                  "sequence; DiffMx = 1 - pid, symmetric, in [0,1], =1 against an empty row; JukesCantorMx symmetric, fails iff some pair fails; "
                  "XAvgConnectivity = (XAverageId, fraction of pairs strictly above the threshold in [0,1]); XAvgSubsetConnectivity = the same on the "
                  "rows V names; the sampling branches draw, for EVERY generator state, at most max_comparisons pairs of two different rows inside the alignment. "
                  "Round 6: cluster_engine with the pair to join as a parameter (gscWith): the code is the instance 'first minimum'; where no pass ties "
                  "EVERY tie rule gives the code's weights; NO tie rule (any function of the whole engine state returning a minimum pair) makes GSC weights "
                  "follow the rows under relisting (every rule fails on AAAA/AABB/BBBB reversed); GSC weights are N numbers >= 0 summing to N whatever pair "
                  "each pass joins (so also along the binary64 code's own tie decisions). esl_tree_Simulate (over the stream of draws): for every generator "
                  "state each branch index names an active branch and every unchecked array index of the loop and of the final pass is in range. "
                  "esl_tree_{SetTaxaParents,SetCladesizes,VerifyUltrametric,ToDistanceMatrix,RenumberNodes,Compare,Simulate} are modelled in the C array "
                  "layout and compared bit-exactly on cluster_engine trees (all four modes) and simulated trees. "
                  "Round 6b: over a carrier with ROUNDED division (any monotone rounding exact at 0 with error eps on [0,1], 2*eps*B^2 < 1) a threshold that is a rounded "
                  "attained identity fl(p/q) links exactly the pairs of exact identity >= p/q, so single linkage (= components of the exact graph), the BLOSUM clusters and both "
                  "identity filters run with rounded quotients return what the exact run returns; esl_tree_ToDistanceMatrix always terminates on a parents-first numbered tree and "
                  "each entry is the two terminal branches plus a tree-path length between the parent nodes (specification TreePath, independent of the loop). "
                  "The hand model is tied to the working tree by an exact differential run (weights as bit patterns, thresholds equal to "
                  "attained identities) and property monitors recompute every claim independently on the implementation's output.")
    level_note = ("Theorems are about exact rational arithmetic (L1); the binary64 results differ by rounding (L0, monitors use 1e-9). "
                  "Model fidelity is checked, not proved. GSC is modelled and compared bit-exactly; proved: >= 0 and sum N for every alignment; "
                  "'identical rows => identical weights' and 'relisting permutes the weights when no pairwise distances tie' are FALSE for the "
                  "code (two known findings with Lean-proved witnesses: position-dependent tie-breaking in cluster_engine; round 6: proved that no tie rule "
                  "for pairwise joins can restore relisting-invariance, gsc_no_tieRule_is_relisting_invariant, so the repair is another algorithm); both are PROVED "
                  "under the hypothesis that is actually needed, no tie for the minimum in any UPGMA pass (gsc_relisting_tie_free, "
                  "gsc_identical_rows_tie_free), and monitored there as well (exact-fraction UPGMA in the monitor). The UPGMA model keeps "
                  "distances keyed by cluster identity (append-only rows) and the C position table separately; same operands, same order. "
                  "consensus_by_sample is modelled (the sampler esl_rand64_Deal in binary64, bit-exact) and driven through ESL_MSAWEIGHT_CFG with "
                  "lowered sampthresh; with a sampled consensus PB weights keep sum/non-negativity/identical-rows/formula (proved for every "
                  "sample) but are NOT equivariant under relisting (pb_relisting_fails_with_sampling; outside the stated range for the "
                  "default sampthresh 50000).")
    trusted_base = ["hand model of esl_distance.c (every public function: C/X PairId, PairMatch, JukesCantor, PairIdMx, DiffMx, JukesCantorMx, AverageId/AverageMatch, XAvgConnectivity, XAvgSubsetConnectivity incl. their sampling branches), esl_rand64.c (Deal), esl_cluster.c, esl_msacluster.c, esl_quicksort.c, esl_msaweight.c "
                    "(PB text/digital, BLOSUM, GSC, IDFilter text/adv), esl_tree.c (cluster_engine in all four modes: UPGMA, WPGMA, single, complete linkage; SetTaxaParents, SetCladesizes, VerifyUltrametric, ToDistanceMatrix, RenumberNodes, Compare without labels, Simulate), esl_vectorops.c "
                    "(DSum/DNorm/DScale) tied by exact differential run (h_weights.c, ASan+UBSan build of the working tree)",
                    "Lean compiler/runtime for the executable driver; Float/Float32 = IEEE binary64/binary32 as in gcc -O1 -ffp-contract=off",
                    "python monitors (props/c16.py) as independent oracle on implementation output"]
    assumptions = ["theorems are over Q (Jukes-Cantor: over R with Real.log/Real.exp): float rounding of the results is not covered (L0)",
                   "esl_dst_*Average*: the exhaustive-branch test `N <= sqrt(2.*max_comparisons)` is modelled as N*N <= 2*max_comparisons "
                   "(equal for N < 2^20); max_comparisons >= 1 (0 divides 0 by 0)",
                   "GSC with tied distances: the binary64 code can break a tie differently from exact arithmetic (two distances equal over Q "
                   "need not round to the same double), so its tree, and its weights, may differ from the Q instance by more than rounding; "
                   "the independent exact-fraction GSC oracle in the monitor is therefore applied only where no UPGMA step ties",
                   "GSC: equal weights for identical rows and equivariance under relisting are false in general (known findings) and proved "
                   "when no UPGMA pass has a tie for its minimum",
                   "not covered in the anchored files: esl_tree.c Newick I/O (WriteNewick/ReadNewick, esl_tree_Grow, CreateFromString), SetTaxonlabels and the "
                   "labelled branch of esl_tree_Compare, Validate (called, its verdict compared, not modelled); benchmark/stats drivers",
                   "the tree functions added in round 6 are tied (bit-exact) and monitored; theorems exist for Simulate's index safety, Compare(T,T) and (round 6b) ToDistanceMatrix = path metric on parents-first numbered trees (the path "
                   "length of the specification TreePath is not proved unique) — no theorem yet that "
                   "VerifyUltrametric accepts every additive cluster_engine tree, that cluster_engine / Simulate trees are numbered parents-first, or that Compare decides equality of clade sets "
                   "(each is checked by an independent python monitor on the implementation's output); loops the C code leaves unbounded on a malformed tree take fuel in the model",
                   "esl_tree_RenumberNodes does not renumber T->cladesize[] (the harness recomputes it); esl_tree_Simulate: -log of a uniform deviate is the libm value on both sides",
                   "esl_dst_XAvgSubsetConnectivity: every V[i] < N (the C code only asserts it at debug level)",
                   "unaligned input (sequences of different length) is driven through every matrix / averaging routine (op ragged: status, NULL "
                   "outputs), since round 6 including esl_dst_{C,X}Average{Id,Match} in their sampling branch (repaired by 640fa96: eslEINVAL, output 0, generator freed)",
                   "the FORM of the consensus test (gap fraction < symfrac, as coded, vs residue fraction >= symfrac, as documented) is read "
                   "from the working tree each run (Weights/SymfracRule.lean); the theorems hold for any rule predicate; the binary32 evaluation is the driver's",
                   "cluster_engine: theorems over Q for every finite matrix; +inf entries ('unlinked' in linkage trees) are compared "
                   "bit-exactly in the single/complete modes but are outside the Q theorems",
                   "esl_msa_SequenceSubset is exercised (rows of the filtered MSA compared with the originals) but not modelled",
                   "allocation never fails; cfg->nsamp >= 1 and cfg->seed != 0 (nsamp <= 0 asks for a zero-size allocation, seed 0 = arbitrary seed)",
                   "esl_rand64_Deal (Vitter D/A) is modelled in binary64 with the libm exp/log/floor/round the C code calls; no theorem about "
                   "the sample itself — the weighting/filter theorems quantify over every sampler function",
                   "RF characters are ASCII (esl_abc_CIsGap indexes inmap[] with a signed char)"]
    rule = ("cases = alignments (random / evolved / redundant / fragment / mixed styles, all-gap columns, empty rows, duplicates, degenerate "
            "and non-residue symbols, +-RF) x ops (pairid, pairmatch, jc, avgid / avgmatch with max_comparisons around the exhaustive/sampling boundary, pairidmx, slink, blosum, pb, pbadv, gsc, idfilter, idfilteradv) with thresholds "
            "including attained identities +-1ulp, followed by the same ops on a row-permuted copy; alignments with residue-free rows (all-gap / all-missing / non-residue symbols only, first / middle / last / several / only) "
            "and degenerate-only rows x EVERY op in text and digital mode incl. jcmx, avgconn, avgsub; explicit-graph clustering; quicksort; esl_rand64_Deal; esl_tree_{UPGMA,WPGMA,SingleLinkage,CompleteLinkage} on explicit matrices "
            "(ties, zeros, ultrametric, negative entries, +inf = unlinked), whole ESL_TREE compared; optional-output call modes (opt= masks: any subset of the "
            "optional results requested), ESL_MSAWEIGHT_DAT reused across configurations, all its diagnostic fields compared, thresholds outside [0,1] and NaN, "
            "sequences of unequal length through the matrix / averaging routines (op ragged); "
            "free-standing PairId incl. unaligned; round 6: esl_msacluster_SingleLinkage with every combination of its optional outputs (NULL / allocated / caller-provided x3), "
            "tree functions (VerifyUltrametric, ToDistanceMatrix, SetCladesizes, Compare, RenumberNodes) on the tree of every tree case and esl_tree_Simulate for N = 2..64 x seeds, "
            "boundary alignments by construction (fragment span = minspan-1 / minspan / minspan+1 for fragthresh 0.5 / 0.3 / 0.75 / 1.0 in binary32, sampthresh = nseq-2..nseq+1, "
            "maxfrag around the fragment count, N = 1, 2, inner all-gap columns, two-letter alignments of 1..4 columns where every UPGMA pass ties). "
            "non-trivial = at least 3 successful computing ops; distinct by output trace")
    diverge_is_violation = True    # every op is a deterministic function of the alignment that the model specifies bit-exactly
    quick_budget_s = 90

    # ------------------------------------------------------------------ regenerated from the working tree
    RULE_GAP = re.compile(r"\(float\)\s*ct\[apos\]\[msa->abc->K\]\s*/\s*\(float\)\s*tot\s*\)\s*<\s*symfrac")
    RULE_RES = re.compile(r"\(float\)\s*\(\s*tot\s*-\s*ct\[apos\]\[msa->abc->K\]\s*\)\s*/\s*\(float\)\s*tot\s*\)\s*>=\s*symfrac")

    def generated(self, ctx):
        """the FORM of the consensus-column test in consensus_by_all()/consensus_by_sample(): the code as it stands tests the gap
        fraction `gaps/tot < symfrac`; the header documents `residues/tot >= symfrac` (they differ when a column is exactly at
        the threshold and for every symfrac != 0.5 — see /var/tmp/fixes-proposed/C16-symfrac-rule.patch). Whichever of the two
        the working tree contains is what the driver and the monitor follow; an unrecognised form keeps the gap-fraction rule
        and leaves the verdict to the differential run."""
        import os
        try: src = open(os.path.join(ctx.src, "esl_msaweight.c"), errors="replace").read()
        except OSError: src = ""
        self._residue_form = len(self.RULE_RES.findall(src)) >= 2 and not self.RULE_GAP.search(src)
        body = ("/-! GENERATED by props/c16.py from esl_msaweight.c of the working tree — do not edit.\n"
                "    Which consensus-column test `consensus_by_all` / `consensus_by_sample` contain:\n"
                "    `false`: `(float) ct[apos][K] / (float) tot < symfrac` (gap fraction below symfrac);\n"
                "    `true`:  `tot > 0 && (float) (tot - ct[apos][K]) / (float) tot >= symfrac` (residue fraction at least symfrac, as documented). -/\n"
                "namespace EaselModel.Weights\n"
                "def symfracResidueForm : Bool := %s\n"
                "end EaselModel.Weights\n") % ("true" if self._residue_form else "false")
        return {"EaselModel/Weights/SymfracRule.lean": body}

    # ------------------------------------------------------------------ generators
    def _symbols(self, rng, mode):
        if mode == "text":
            k = rng.choice([2, 3, 4, 20, 26])
            letters = rng.sample(range(65, 91), k)
            return letters, [45, 46, 95, 126, 42, 45, 45], [ord("x"), 48, 32 + 1, 200]
        K, Kp = ABC[mode]
        k = rng.choice([2, 3, 4, K]) if K > 4 else rng.choice([2, 3, 4])
        return rng.sample(range(K), k), [K, K, K, K, Kp - 1, Kp - 2], list(range(K + 1, Kp - 2))

    def gen_alignment(self, rng, mode, nseq, alen):
        res, gaps, odd = self._symbols(rng, mode)
        style = rng.choice(["random", "evolved", "evolved", "redundant", "fragments", "mixed"])
        self._tally("style", style)
        pgap = rng.choice([0.0, 0.05, 0.2, 0.5, 0.8])
        podd = rng.choice([0.0, 0.0, 0.02, 0.1])
        def cell():
            r = rng.random()
            if r < pgap: return rng.choice(gaps)
            if r < pgap + podd: return rng.choice(odd)
            c = rng.choice(res)
            if mode == "text" and rng.random() < 0.3: c += 32
            return c
        rows = []
        if style == "random":
            rows = [[cell() for _ in range(alen)] for _ in range(nseq)]
        else:
            mu = rng.choice([0.0, 0.02, 0.1, 0.3])
            rows.append([cell() for _ in range(alen)])
            while len(rows) < nseq:
                par = rng.choice(rows)
                r = rng.random()
                if style == "redundant" and r < 0.5:
                    rows.append(list(par))
                elif style in ("fragments", "mixed") and r < 0.4:
                    a = rng.randrange(alen); b = rng.randrange(a, alen)
                    if rng.random() < 0.3: b = min(alen - 1, a + alen // 2 + rng.choice([-1, 0, 1]))
                    g = rng.choice(gaps)
                    rows.append([par[i] if a <= i <= b else g for i in range(alen)])
                elif style == "mixed" and r < 0.5:
                    rows.append([rng.choice(gaps)] * alen)           # empty row
                else:
                    rows.append([cell() if rng.random() < mu else par[i] for i in range(alen)])
        if rng.random() < 0.3 and alen > 1:                           # all-gap columns
            for col in rng.sample(range(alen), rng.randrange(1, max(2, alen // 3))):
                g = rng.choice(gaps)
                for r in rows: r[col] = g
        if rng.random() < 0.15:
            rows[rng.randrange(nseq)] = [rng.choice(gaps)] * alen     # an empty row
        if rng.random() < 0.2 and nseq > 1:
            rows[rng.randrange(nseq)] = list(rows[rng.randrange(nseq)])  # an exact duplicate
        rf = None
        if rng.random() < (0.45 if mode != "text" else 0.1):
            k = rng.random()
            if k < 0.15: rf = [rng.choice(GAPCH)] * alen
            elif k < 0.3: rf = [ord("x")] * alen
            else:
                p = rng.choice([0.3, 0.6, 0.9])
                rf = [rng.choice([ord("x"), ord("x"), ord("X"), 200, 255]) if rng.random() < p else rng.choice([46, 46, 45, 95, 126, 128]) for _ in range(alen)]
        return rows, rf

    def thresholds(self, rng, aln, k):
        out = []
        n = len(aln.rows)
        for _ in range(k):
            r = rng.random()
            if r < 0.45 and n >= 2:
                i, j = rng.sample(range(n), 2)
                t = aln.pid(aln.rows[i], aln.rows[j])                    # an attained identity
                if rng.random() < 0.25:
                    u = struct.unpack("<Q", struct.pack("<d", t))[0]
                    u = u + rng.choice([-1, 1]) if u > 0 else u + 1
                    t = struct.unpack("<d", struct.pack("<Q", u))[0]
                out.append(t)
            elif r < 0.75:
                out.append(rng.choice([0.0, 1.0, 0.5, 0.62, 0.8, 0.25, 0.9, 1.0 / 3, 2.0 / 3, 0.1, 0.0, 1.0,
                                       -0.25, 1.5, 5e-324, float("nan")]))     # outside [0,1] / NaN: nothing or everything is linked
            else:
                out.append(rng.random())
        return out

    def cfg_args(self, rng, n):
        """the public fields of ESL_MSAWEIGHT_CFG: defaults, boundary values (sampthresh = nseq-1 / nseq, maxfrag around the
        number of sampled fragments, nsamp below / at / above nseq), and the sampling branch made reachable for small inputs"""
        ft = rng.choice([0.5, 0.5, 0.0, 1.0, 0.3, 0.75, 0.9, rng.random()])
        sf = rng.choice([0.5, 0.5, 0.0, 1.0, 0.3, 0.75, 0.1, rng.random()])
        a = "irf=%d ft=%s sf=%s" % (rng.choice([0, 0, 1]), f32bits(ft), f32bits(sf))
        r = rng.random()
        if r < 0.25:
            self._tally("cfg", "defaults"); return a
        ns = rng.choice([1, 2, 3, 4, max(1, n // 2), max(1, n - 1), n, n + 5, 10000])
        k = min(ns, n)
        st = rng.choice([n - 1, n - 1, n - 1, 0, n, 50000, n // 2, -1])
        mf = rng.choice([0, 0, 1, 2, 5000, k, max(0, k - 1), k // 2, -1])
        al = rng.choice([1, 1, 1, 1, 0])
        self._tally("cfg", "sampling" if (al and n > st) else "no-sampling")
        return a + " as=%d st=%d ns=%d mf=%d seed=%d" % (al, st, ns, mf, rng.choice([42, 1, 7, rng.randrange(1, 1 << 62)]))

    def aln_ops(self, mode, rows, rf):
        ops = ["row h=" + bytes(r).hex() for r in rows]
        if rf is not None: ops.append("rf h=" + bytes(rf).hex())
        return ops

    def compute_ops(self, rng, mode, aln, big):
        n = len(aln.rows)
        ops = []
        th = self.thresholds(rng, aln, 3)
        if n >= 2:
            for _ in range(rng.randrange(1, 4)):
                i, j = rng.randrange(n), rng.randrange(n)
                ops += ["pairid i=%d j=%d" % (i, j), "pairid i=%d j=%d" % (j, i)]
        ops.append("pairid i=%d j=%d" % (rng.randrange(n), rng.randrange(n)))
        if rng.random() < 0.3:          # the optional outputs: any subset may be requested, the rest is passed NULL
            i, j = rng.randrange(n), rng.randrange(n)
            kk = "" if mode != "text" else " k=%d" % rng.choice([4, 20])
            ops += ["pairid i=%d j=%d opt=%d" % (i, j, rng.randrange(8)), "pairmatch i=%d j=%d opt=%d" % (i, j, rng.randrange(8)),
                    "jc i=%d j=%d%s opt=%d" % (i, j, kk, rng.randrange(4))]
        for _ in range(rng.randrange(0, 3)):
            i, j = rng.randrange(n), rng.randrange(n)
            kk = "" if mode != "text" else " k=%d" % rng.choice([4, 20, 2, 26, 3])
            ops += ["pairmatch i=%d j=%d" % (i, j), "pairmatch i=%d j=%d" % (j, i), "jc i=%d j=%d%s" % (i, j, kk), "jc i=%d j=%d%s" % (j, i, kk)]
        if rng.random() < 0.6:
            half = n * n // 2
            cands = [1, 2, 3, n, half - 1, half, half + 1, (n * n + 1) // 2, n * (n - 1) // 2, n * (n - 1) // 2 - 1, 10, 50, 1000000]
            for _ in range(rng.randrange(1, 3)):
                mx = max(1, rng.choice(cands))
                if mx > 3000 and n * n > 2 * mx: mx = 3000        # sampling branch: bounded work
                ops.append("%s max=%d" % (rng.choice(["avgid", "avgid", "avgmatch"]), mx))
        if n <= 40 and rng.random() < 0.35:
            ops.append("jcmx" + ("" if mode != "text" else " k=%d" % rng.choice([4, 20, 2, 26, 3])) + rng.choice(["", "", " opt=1", " opt=2", " opt=0"]))
        if mode != "text" and rng.random() < 0.5:
            ops += self.conn_ops(rng, n, th)
        if n <= 40 and rng.random() < 0.5: ops.append("pairidmx")
        if n <= 40 and rng.random() < 0.2: ops.append("diffmx")
        if rng.random() < 0.25 and not big:
            ops.append("multi seq=%s maxid=%s" % ("".join(rng.choice("pgb") for _ in range(rng.randrange(2, 5))), dbits(th[1])))
        ops.append("slink maxid=" + dbits(th[0]) + rng.choice(["", "", " pre=1", " pre=2", " pre=3"] +
                   [" modes=%d%d%d" % (rng.randrange(3), rng.randrange(3), rng.randrange(2)) for _ in range(5)]))   # every combination of the optional outputs
        ops.append("blosum maxid=" + dbits(th[rng.randrange(2)]))
        if n > 255:      # everything linked: the stacks of the clustering routine hold more than 255 vertices at once
            ops += ["slink maxid=" + dbits(0.0), "blosum maxid=" + dbits(0.0), "idfilter maxid=" + dbits(0.0)]
        ops.append("pb")
        if mode != "text":
            ops.append("pbadv " + self.cfg_args(rng, n))
            if rng.random() < 0.3: ops.append("pbadv " + self.cfg_args(rng, n))
            if rng.random() < 0.3: ops.append("pbadv %s reuse=%d" % (self.cfg_args(rng, n), rng.choice([1, 2, 3])))   # ESL_MSAWEIGHT_DAT reused
        if not big or rng.random() < 0.3: ops.append("gsc")
        ops.append("idfilter maxid=" + dbits(th[2]))
        if mode != "text":
            for pref in ([rng.choice([1, 1, 2, 3])] if rng.random() < 0.7 else [1, 2, 3]):
                c = self.cfg_args(rng, n)
                if "seed=" not in c: c += " seed=%d" % rng.choice([42, 1, rng.randrange(1, 1 << 62)])
                ops.append("idfilteradv maxid=%s pref=%d %s" % (dbits(th[rng.randrange(3)]), pref, c))
        return ops, th

    def conn_ops(self, rng, n, th):
        """esl_dst_XAvgConnectivity / XAvgSubsetConnectivity: thresholds at / around attained identities, 0, 1, below 0; subsets
        empty, single, with repeats, whole, in another order; max_comparisons around the exhaustive / sampling boundary"""
        ops = []
        def mx(k):
            half = k * k // 2
            m = max(1, rng.choice([1, 2, k, half - 1, half, half + 1, k * (k - 1) // 2, 10, 50, 1000000]))
            return 3000 if (m > 3000 and k * k > 2 * m) else m
        t = rng.choice(list(th) + [0.0, 1.0, -1.0, 0.5, 0.25])
        ops.append("avgconn max=%d th=%s" % (mx(n), dbits(t)))
        r = rng.random()
        if r < 0.1: V = []
        elif r < 0.2: V = [rng.randrange(n)]
        elif r < 0.4: V = list(range(n)); rng.shuffle(V)
        elif r < 0.6: V = [rng.randrange(n) for _ in range(rng.randrange(2, 8))]        # repeats allowed: V is only an index list
        else: V = sorted(rng.sample(range(n), rng.randrange(1, n + 1)))
        ops.append("avgsub max=%d th=%s v=%s" % (mx(len(V)), dbits(t), ",".join(map(str, V)) or "-"))
        return ops

    EMPTY_KINDS = ("gap", "missing", "nonres", "mixed")

    def empty_row(self, rng, mode, alen, kind):
        """a row without any residue: all gaps, all missing-data, only non-residue symbols, or a mixture"""
        if mode == "text":
            pool = {"gap": [45], "missing": [126], "nonres": [42, 48, 33, 64, 91, 96, 123], "mixed": [45, 46, 95, 126, 42, 48, 200]}[kind]
            if kind == "gap": pool = [rng.choice([45, 46, 95])]
        else:
            K, Kp = ABC[mode]
            pool = {"gap": [K], "missing": [Kp - 1], "nonres": [Kp - 2], "mixed": [K, Kp - 1, Kp - 2]}[kind]
        return [rng.choice(pool) for _ in range(alen)]

    def empty_case(self, rng, name, mode=None):
        """alignments with rows that have no residue (all-gap / all-missing / non-residue symbols only) in the FIRST, a MIDDLE
        and the LAST position (the pairwise functions are not symmetric in their code: which argument is empty matters), rows of
        degenerate codes only (residues for PairId/PairMatch, not for Jukes-Cantor/PB), and EVERY op on them"""
        mode = mode or rng.choice(["text", "amino", "dna", "rna"])
        res, gaps, odd = self._symbols(rng, mode)
        alen = rng.choice([1, 2, 3, 5, 8, 12, rng.randrange(1, 30)])
        nfull = rng.randrange(1, 6)
        def full():
            return [rng.choice(res) + (32 if mode == "text" and rng.random() < 0.3 else 0) if rng.random() < 0.8 else rng.choice(gaps) for _ in range(alen)]
        base = full()
        rows = [base] + [[c if rng.random() < 0.7 else f for c, f in zip(base, full())] for _ in range(nfull - 1)]
        where = rng.choice(["first", "middle", "last", "first+last", "all-three", "two-adjacent", "only-empty"])
        def er(): return self.empty_row(rng, mode, alen, rng.choice(self.EMPTY_KINDS))
        if where == "first": rows = [er()] + rows
        elif where == "last": rows = rows + [er()]
        elif where == "middle":
            k = rng.randrange(1, len(rows)) if len(rows) > 1 else 1
            rows = rows[:k] + [er()] + rows[k:]
            if len(rows) == 2: rows.append(full())
        elif where == "first+last": rows = [er()] + rows + [er()]
        elif where == "all-three":
            k = rng.randrange(1, len(rows) + 1)
            rows = [er()] + rows[:k] + [er()] + rows[k:] + [er()]
        elif where == "two-adjacent":
            k = rng.randrange(0, len(rows) + 1)
            rows = rows[:k] + [er(), er()] + rows[k:]
        else: rows = [er() for _ in range(rng.randrange(1, 4))]
        if rng.random() < 0.35:                                  # a row of degenerate codes only
            deg = odd if mode != "text" else [ord("X"), ord("n"), ord("B")]
            rows.insert(rng.randrange(len(rows) + 1), [rng.choice(deg) for _ in range(alen)])
        self._tally("empty_where", where); self._tally("mode", mode)
        rf = None
        if mode != "text" and rng.random() < 0.3: rf = [rng.choice([ord("x"), 46]) for _ in range(alen)]
        aln = Aln(mode); aln.rows = rows; aln.rf = rf
        n = len(rows)
        z = dbits(0.0)
        ops = ["abc t=" + mode] + self.aln_ops(mode, rows, rf)
        kk = "" if mode != "text" else " k=%d" % rng.choice([4, 20, 2, 26])
        pairs = [(i, j) for i in range(n) for j in range(n)]
        if len(pairs) > 16: pairs = rng.sample(pairs, 16)
        for i, j in pairs:
            ops += ["pairid i=%d j=%d" % (i, j), "pairmatch i=%d j=%d" % (i, j), "jc i=%d j=%d%s" % (i, j, kk)]
        th = self.thresholds(rng, aln, 2)
        for m in (1000000, 1, max(1, n * n // 2 - 1)):
            ops += ["avgid max=%d" % m, "avgmatch max=%d" % m]
        ops += ["pairidmx", "diffmx", "jcmx" + kk, "jcmx" + kk + " opt=%d" % rng.randrange(3)]
        i, j = rng.randrange(n), rng.randrange(n)
        ops += ["pairid i=%d j=%d opt=%d" % (i, j, rng.randrange(7)), "pairmatch i=%d j=%d opt=%d" % (i, j, rng.randrange(7)),
                "jc i=%d j=%d%s opt=%d" % (i, j, kk, rng.randrange(3))]
        for t in (z, dbits(th[0]), dbits(1.0)):
            ops += ["slink maxid=" + t, "blosum maxid=" + t, "idfilter maxid=" + t]
        ops += ["pb", "gsc", "multi seq=pgb maxid=" + z, "multi seq=bpg maxid=" + z]
        if mode != "text":
            ops += ["avgconn max=1000000 th=" + z, "avgconn max=1 th=" + dbits(-1.0), "avgconn max=1000000 th=" + dbits(th[1])]
            ops += self.conn_ops(rng, n, th)
            ops.append("pbadv " + self.cfg_args(rng, n))
            for pref in (1, 2, 3):
                c = self.cfg_args(rng, n)
                if "seed=" not in c: c += " seed=%d" % rng.choice([42, 1, rng.randrange(1, 1 << 62)])
                ops.append("idfilteradv maxid=%s pref=%d %s" % (rng.choice([z, dbits(th[0])]), pref, c))
        return {"name": name, "ops": ops, "sticky": 1}

    def _tally(self, key, val):
        d = self._dist.setdefault(key, {})
        d[val] = d.get(val, 0) + 1

    def one_case(self, rng, name, nseq, alen, mode=None):
        mode = mode or rng.choice(["text", "amino", "amino", "dna", "rna"])
        rows, rf = self.gen_alignment(rng, mode, nseq, alen)
        self._tally("mode", mode); self._tally("with_rf", rf is not None)
        self._tally("nseq", "1" if nseq == 1 else "2-6" if nseq <= 6 else "7-30" if nseq <= 30 else "31-60" if nseq <= 60 else "61-256" if nseq <= 256 else "257-300")
        self._tally("alen", "1" if alen == 1 else "2-12" if alen <= 12 else "13-60" if alen <= 60 else "61-100" if alen <= 100 else "101-256" if alen <= 256 else "257-400")
        self._tally("duplicate_rows", len(set(map(tuple, rows))) < len(rows))
        self._tally("empty_rows", any(not any(Aln(mode).is_res(c) for c in r) for r in rows))
        aln = Aln(mode); aln.rows = rows; aln.rf = rf
        big = nseq * nseq * alen > 400000
        ops = ["abc t=" + mode] + self.aln_ops(mode, rows, rf)
        comp, th = self.compute_ops(rng, mode, aln, big)
        ops += comp
        # second block: the same alignment with its rows permuted, same weighting ops
        if nseq >= 2 and rng.random() < 0.6:
            perm = list(range(nseq)); rng.shuffle(perm)
            ops.append("clear")
            ops += self.aln_ops(mode, [rows[p] for p in perm], rf)
            ops += [o for o in comp if o.split()[0] in ("pb", "pbadv", "blosum", "gsc", "slink")]
        return {"name": name, "ops": ops, "sticky": 1}

    def boundary_case(self, rng, name):
        """round 6, the boundaries the quantifier names, each by construction rather than by chance:
          * fragments whose span (first..last residue, inner gaps allowed) is exactly minspan-1 / minspan / minspan+1 for
            minspan = (int) ceil(fragthresh * (float) alen), fragthresh in {0.5 default, 0.3, 0.75, 1.0} evaluated in binary32, no RF
            (or RF ignored), full-length rows beside them so that the fragment rule changes the column counts;
          * sampthresh = nseq-2 .. nseq+1 with allow_samp on/off, nsamp around nseq, maxfrag around the number of fragments;
          * N = 1, 2;  * all-gap columns;  * alignments over two residues in 1..4 columns: every UPGMA pass ties."""
        import math
        kind = rng.choice(["frag", "frag", "samp", "ties", "ties"])
        mode = rng.choice(["amino", "dna", "amino", "text"]) if kind == "ties" else rng.choice(["amino", "dna", "rna"])
        res, gaps, odd = self._symbols(rng, mode)
        self._tally("boundary_kind", kind)
        if kind == "ties":
            n = rng.choice([2, 3, 3, 4, 5, 6, 8, 12]); alen = rng.choice([1, 2, 2, 3, 4])
            two = res[:2]
            rows = [[rng.choice(two) if rng.random() < 0.85 else rng.choice(gaps) for _ in range(alen)] for _ in range(n)]
            rf = None
        else:
            alen = rng.choice([1, 2, 3, 4, 5, 9, 10, 11, 16, 17, 33, rng.randrange(2, 41)])
            ft = rng.choice([0.5, 0.5, 0.5, 0.3, 0.75, 1.0])
            ms = int(math.ceil(f32(f32(ft) * f32(float(alen)))))
            nfull = rng.choice([0, 1, 2, 3]) if kind == "frag" else rng.randrange(1, 5)
            rows = [[rng.choice(res) for _ in range(alen)] for _ in range(nfull)]
            for _ in range(rng.choice([1, 1, 2, 3, 5])):
                span = max(1, min(alen, ms + rng.choice([-1, -1, 0, 0, 1])))
                a = rng.randrange(0, alen - span + 1)
                base = rng.choice(rows) if rows and rng.random() < 0.6 else [rng.choice(res) for _ in range(alen)]
                g = rng.choice(gaps)
                r = [g] * alen
                for i in range(a, a + span):
                    r[i] = base[i] if (i in (a, a + span - 1) or rng.random() < 0.8) else rng.choice(gaps)   # inner gaps do not shorten the span
                rows.insert(rng.randrange(len(rows) + 1), r)
            if kind == "samp" and alen >= 6 and rng.random() < 0.6:
                # two groups of rows covering the left / the right part with a short overlap, low fragthresh (nobody is a fragment):
                # the consensus of all rows and that of a 1-2 row sample differ, and so do the conscover keys of IDFilter_adv
                ft = rng.choice([0.0, 0.3]); ms = int(math.ceil(f32(f32(ft) * f32(float(alen)))))
                a_ = rng.randrange(alen // 2, alen - 1); b_ = rng.randrange(1, a_)
                g = gaps[0]; core = [rng.choice(res[:3]) for _ in range(alen)]
                rows = []
                for k in range(rng.randrange(3, 9)):
                    left = k % 2 == 0 or rng.random() < 0.3
                    rows.append([(core[i] if rng.random() < 0.8 else rng.choice(res[:3])) if ((i < a_) if left else (i >= b_)) else g for i in range(alen)])
            if rng.random() < 0.3 and alen > 2:                     # all-gap column strictly inside
                col = rng.randrange(1, alen - 1)
                for r in rows: r[col] = rng.choice(gaps)
            if rng.random() < 0.25: rows = rows[:rng.choice([1, 2])]     # N = 1, 2
            n = len(rows)
            rf = [rng.choice([ord("x"), 46]) for _ in range(alen)] if rng.random() < 0.25 else None
        aln = Aln(mode); aln.rows = rows; aln.rf = rf
        ops = ["abc t=" + mode] + self.aln_ops(mode, rows, rf)
        th = self.thresholds(rng, aln, 3)
        comp = ["pb", "gsc", "blosum maxid=" + dbits(th[0]), "slink maxid=" + dbits(th[0]), "idfilter maxid=" + dbits(th[1])]
        if mode != "text":
            if kind == "ties":
                comp.append("pbadv " + self.cfg_args(rng, n))
            else:
                nfr = sum(1 for r in rows if (lambda ix: (ix[-1] - ix[0] + 1 < ms) if ix else True)([i for i, c in enumerate(r) if aln.is_res(c)]))
                for _ in range(3):
                    a = "irf=%d ft=%s sf=%s" % (1 if rf is not None and rng.random() < 0.7 else 0, f32bits(ft), f32bits(rng.choice([0.5, 0.5, 0.0, 1.0, 0.3])))
                    if kind == "samp" or rng.random() < 0.4:
                        st = n + rng.choice([-2, -1, -1, 0, 0, 1])
                        # nsamp small as well as around nseq: a sample of 1-2 rows gives a consensus (hence conscover keys) unlike that of all rows
                        a += " as=%d st=%d ns=%d mf=%d seed=%d" % (rng.choice([1, 1, 1, 0]), st, max(1, rng.choice([1, 1, 2, n // 2, n - 1, n, n + 1, n + 5])),
                                                                   max(0, nfr + rng.choice([-1, 0, 0, 1])), rng.choice([42, 1, 7, rng.randrange(1, 1 << 62)]))
                    comp.append("pbadv " + a)
                    comp.append("idfilteradv maxid=%s pref=%d %s%s" % (dbits(th[2]), rng.choice([1, 1, 2, 3]), a, "" if "seed=" in a else " seed=42"))
        ops += comp
        if n >= 2 and rng.random() < 0.7:
            perm = list(range(n)); rng.shuffle(perm)
            ops.append("clear")
            ops += self.aln_ops(mode, [rows[q] for q in perm], rf)
            ops += [o for o in comp if o.split()[0] in ("pb", "pbadv", "blosum", "gsc", "slink")]
        return {"name": name, "ops": ops, "sticky": 1}

    def graph_case(self, rng, name):
        n = rng.choice([1, 2, 3, 4, 5, 6, 8, 12, 20, rng.randrange(1, 60)])
        p = rng.choice([0.0, 0.05, 0.1, 0.3, 0.7, 1.0, 1.5 / max(n, 1)])
        m = [["0"] * n for _ in range(n)]
        sym = rng.random() < 0.8
        for i in range(n):
            for j in range(i if sym else 0, n):
                if rng.random() < p:
                    m[i][j] = "1"
                    if sym: m[j][i] = "1"
        ops = ["abc t=text", "cluster n=%d adj=%s" % (n, "".join("".join(r) for r in m))]
        for _ in range(rng.randrange(1, 4)):
            k = rng.choice([1, 2, 3, 5, 8, 17, rng.randrange(1, 80)])
            vals = [float(rng.randrange(0, rng.choice([2, 3, 5, 100]))) for _ in range(k)]
            if rng.random() < 0.3: vals = [rng.random() for _ in range(k)]
            ops.append("qsort w=" + ",".join(dbits(v) for v in vals))
        for _ in range(rng.randrange(0, 3)):     # esl_rand64_Deal by itself: method A (n <= 13m), method D, m = 1, m = n
            nn = rng.choice([1, 2, 5, 14, 27, 60, 300, 1000, rng.randrange(1, 5000), rng.randrange(1, 200000)])
            m = rng.choice([1, 1, 2, 3, nn, max(1, nn // 13), max(1, nn // 14), max(1, nn // 2), rng.randrange(1, nn + 1)])
            m = min(m, 400)
            ops.append("deal64 m=%d n=%d seed=%d" % (m, nn, rng.choice([42, 1, rng.randrange(1, 1 << 62)])))
        return {"name": name, "ops": ops, "sticky": 1, "symmetric": sym}

    def tree_case(self, rng, name):
        """esl_tree_UPGMA on explicit symmetric matrices: generic, ultrametric, few distinct values (ties), zeros, d > 1"""
        ops = ["abc t=text"]
        for _ in range(rng.randrange(1, 4)):
            n = rng.choice([2, 2, 3, 4, 5, 6, 8, 12, rng.randrange(2, 41)])
            link = rng.choice([0, 0, 1, 2, 3])
            style = rng.choice(["random", "random", "dyadic", "ties", "zeros", "equal", "clock", "large", "negative", "sparse"])
            if style == "sparse" and link < 2: style = "random"     # +inf = "unlinked" is the convention of the linkage trees only
            self._tally("tree_style", style); self._tally("tree_link", link)
            d = [[0.0] * n for _ in range(n)]
            pos = [rng.random() for _ in range(n)]
            for i in range(n):
                for j in range(i + 1, n):
                    if style == "random": v = rng.random()
                    elif style == "dyadic": v = rng.randrange(0, 1025) / 1024.0
                    elif style == "ties": v = rng.choice([0.0, 0.25, 0.5, 0.75, 1.0])
                    elif style == "zeros": v = 0.0 if rng.random() < 0.7 else rng.random()
                    elif style == "equal": v = 0.5
                    elif style == "clock": v = abs(pos[i] - pos[j])
                    elif style == "negative": v = rng.randrange(-8, 9) / 8.0 if rng.random() < 0.5 else rng.random() - 0.5
                    elif style == "sparse": v = float("inf") if rng.random() < 0.5 else rng.randrange(0, 9) / 8.0
                    else: v = rng.random() * rng.choice([1, 10, 1e6])
                    d[i][j] = d[j][i] = v
            dls = ",".join(dbits(d[i][j]) for i in range(n) for j in range(i + 1, n))
            ops.append("upgma n=%d%s d=%s" % (n, "" if link == 0 and rng.random() < 0.5 else " link=%d" % link, dls))
            if rng.random() < 0.6:
                # round 6: the esl_tree.c functions that take a finished tree (VerifyUltrametric, ToDistanceMatrix, SetCladesizes,
                # Compare, RenumberNodes) on the same matrix; link2 = the tree it is compared with (same mode: equal topology)
                ops.append("treeops n=%d link=%d link2=%d d=%s" % (n, link, rng.choice([link, link, 0, 1, 2, 3]), dls))
        for _ in range(rng.choice([0, 1, 1, 2])):
            ops.append("simulate n=%d seed=%d" % (rng.choice([2, 2, 3, 4, 5, 8, 16, 17, 33, rng.randrange(2, 65)]),
                                                  rng.choice([42, 1, 7, rng.randrange(1, 2 ** 32)])))
        return {"name": name, "ops": ops, "sticky": 1}

    def pairstr_case(self, rng, name):
        mode = rng.choice(["text", "amino", "dna"])
        aln = Aln(mode)
        res, gaps, odd = self._symbols(rng, mode)
        ops = ["abc t=" + mode]
        for _ in range(rng.randrange(1, 6)):
            la = rng.choice([0, 1, 2, 5, rng.randrange(0, 40)])
            lb = la if rng.random() < 0.7 else rng.choice([0, 1, la + 1, max(0, la - 1), rng.randrange(0, 40)])
            a = [rng.choice(res + gaps[:2] + odd[:1]) for _ in range(la)]
            b = [x if rng.random() < 0.6 else rng.choice(res + gaps[:1]) for x in (a + a)[:lb]]
            if len(b) < lb: b += [rng.choice(res) for _ in range(lb - len(b))]
            ops.append("pairstr a=%s b=%s" % (bytes(a).hex() or "-", bytes(b).hex() or "-"))
            if rng.random() < 0.7:
                ops.append("distpair a=%s b=%s%s" % (bytes(a).hex() or "-", bytes(b).hex() or "-", "" if mode != "text" else " k=%d" % rng.choice([4, 20, 2, 26])))
        for _ in range(rng.randrange(1, 3)):
            # the matrix / averaging routines on N sequences of which one (first / middle / last / none / several) has another length
            n = rng.choice([1, 2, 3, 4, 5, 6])
            L = rng.choice([0, 1, 3, 8, rng.randrange(0, 20)])
            seqs = [[rng.choice(res + gaps[:1]) for _ in range(L)] for _ in range(n)]
            for k in rng.sample(range(n), rng.choice([0, 1, 1, 1, 2]) if n > 1 else 0):
                seqs[k] = [rng.choice(res) for _ in range(rng.choice([0, L + 1, max(0, L - 1), rng.randrange(0, 25)]))]
            half = n * n // 2
            mx = max(1, rng.choice([1, 2, n, half - 1, half, half + 1, 10, 1000]))
            ops.append("ragged seqs=%s max=%d%s th=%s" % (",".join(bytes(q).hex() or "-" for q in seqs), mx,
                       "" if mode != "text" else " k=%d" % rng.choice([4, 20]), dbits(rng.choice([0.0, 0.5, 0.25, 1.0]))))
        return {"name": name, "ops": ops, "sticky": 1}

    def corpus(self, ctx):
        if not hasattr(self, "_dist"): self._dist = {}
        c = []
        # textbook cases of esl_msaweight_utest + boundary shapes
        def mk(name, mode, rows, extra, rf=None):
            ops = ["abc t=" + mode] + ["row h=" + (r.encode().hex() if isinstance(r, str) else bytes(r).hex()) for r in rows]
            if rf: ops.append("rf h=" + rf.encode().hex())
            return {"name": name, "ops": ops + extra, "sticky": 1}
        std = ["pb", "gsc", "blosum maxid=" + dbits(0.62), "slink maxid=" + dbits(0.62), "idfilter maxid=" + dbits(0.62), "pairidmx"]
        c.append(mk("gerstein4", "text", ["AAAAAAAAAA", "CCCCCCCCCC", "CCCCCAAAAA", "CCCCCCAAAA"][:4], std))
        c.append(mk("henikoff", "text", ["AAAAAAAAAA", "AAAAAAAAAA", "CCCCCCCCCC", "CCCCCCCCCC"][:4], std))
        c.append(mk("single", "text", ["ACDEFGHIKL"], std))
        c.append(mk("identical", "text", ["ACDEFGHIKL"] * 5, std))
        c.append(mk("allgap", "text", ["----------"] * 3, std))
        c.append(mk("one-col", "text", ["A", "a", "C", "-"], std))
        c.append(mk("frag-subseq", "text", ["ACDEFGHI", "ACDE----", "ACDEFGHI", "----FGHI", "----FGHI"], std))
        k = mk("gsc-known-finding", "text", ["--DE----", "ACDEFGHI", "---EF---", "---EFGH-", "ACDEFGHI"], ["gsc"])
        k["known_key"] = GSC_KEY
        c.append(k)
        w4 = ["CEDAADEADEAA", "EACADADEDAED", "DAEADDEADEDD", "EAADDDAACEDD"]
        k = mk("gsc-known-finding-relisting", "text", w4, ["gsc", "clear"] +
               ["row h=" + w4[i].encode().hex() for i in (1, 0, 2, 3)] + ["gsc"])
        k["known_key"] = GSC_KEY2
        c.append(k)
        am = lambda s: ["ACDEFGHIKLMNPQRSTVWY-BJZOUX*~".index(ch) for ch in s]
        dstd = std + ["pbadv irf=0 ft=%s sf=%s" % (f32bits(0.5), f32bits(0.5)), "pbadv irf=1 ft=%s sf=%s" % (f32bits(0.5), f32bits(0.5)),
                      "idfilteradv maxid=%s pref=1" % dbits(0.62), "idfilteradv maxid=%s pref=2 seed=42" % dbits(0.62),
                      "idfilteradv maxid=%s pref=3" % dbits(0.62)]
        c.append(mk("dig-basic", "amino", [am("ACDEFGHIKL"), am("ACDEFGH---"), am("--DEFGHIKL"), am("ACXEFBHIK*"), am("~~~EFG~~~~")], dstd))
        c.append(mk("dig-rf", "amino", [am("ACDEFGHIKL"), am("ACDEFGH---"), am("--DEFGHIKL")], dstd, rf="xx..xxxx.x"))
        c.append(mk("dig-rf-allgap", "amino", [am("ACDEFGHIKL"), am("ACDEFGH---"), am("--DEFGHIKL")], dstd, rf=".........."))
        c.append(mk("dig-empty-rows", "amino", [am("----------"), am("~~~~~~~~~~"), am("ACDEFGHIKL")], dstd))
        c.append(mk("dig-single", "amino", [am("ACDEFGHIKL")], dstd))
        samp = ["pbadv st=2 ns=3 mf=5000 seed=42", "pbadv st=2 ns=3 mf=0 seed=42", "pbadv st=2 ns=10 mf=2 seed=7", "pbadv st=5 ns=3",
                "pbadv st=2 ns=3 as=0", "pbadv st=4 ns=1 mf=1 seed=1", "pbadv irf=1 st=0 ns=2 mf=1 seed=3",
                "idfilteradv maxid=%s pref=1 st=2 ns=3 mf=0 seed=42" % dbits(0.62), "idfilteradv maxid=%s pref=1 st=2 ns=2 mf=5 seed=9" % dbits(0.5),
                "idfilteradv maxid=%s pref=2 st=2 ns=2 seed=9" % dbits(0.5), "idfilteradv maxid=%s pref=3 st=2 ns=2 seed=9" % dbits(0.5)]
        c.append(mk("dig-sampling", "amino", [am("ACDEFGHIKL"), am("ACDEFGH---"), am("--DEFGHIKL"), am("ACXEFBHIK*"), am("~~~EFG~~~~")], samp))
        c.append(mk("dig-sampling-rf", "amino", [am("ACDEFGHIKL"), am("ACDEFGH---"), am("--DEFGHIKL")], samp, rf="xx..xxxx.x"))
        c.append(mk("dig-sampling-frags", "dna", [[0, 1, 2, 3, 4, 4, 4, 4, 4, 4], [4, 4, 4, 4, 4, 4, 0, 1, 2, 3], [4, 4, 4, 0, 1, 4, 4, 4, 4, 4],
                                                  [0, 1, 2, 3, 0, 1, 2, 3, 0, 1], [4, 4, 4, 4, 4, 4, 4, 4, 4, 4], [17, 17, 0, 1, 16, 16, 4, 4, 4, 4]], samp))
        c.append({"name": "deal64", "sticky": 1, "ops": ["abc t=text"] + ["deal64 m=%d n=%d seed=%d" % t for t in
                  [(1, 1, 42), (1, 10, 42), (5, 52, 42), (3, 300, 42), (10, 10, 1), (20, 100000, 7), (200, 2000, 9), (7, 91, 3), (7, 92, 3)]]})
        c.append(mk("slink-optional-outputs", "text", ["ACDEFGHIKL", "ACDEFGHIKV", "WWWWWWWWWW", "ACDEFGHIKL", "WWWWWYYYYY", "----------"],
                    ["slink maxid=%s modes=%d%d%d" % (dbits(t), a_, b_, c_) for t in (0.5, 0.0) for a_ in range(3) for b_ in range(3) for c_ in range(2)]))
        mx = lambda vals: ",".join(dbits(v) for v in vals)
        c.append({"name": "treeops", "sticky": 1, "ops": ["abc t=text",
                  "treeops n=2 link=0 link2=0 d=" + mx([0.5]),
                  "treeops n=3 link=0 link2=1 d=" + mx([0.5, 1.0, 0.5]),                 # AAAA/AABB/BBBB: the tie-rule witness
                  "treeops n=4 link=0 link2=2 d=" + mx([5/6, 1/2, 3/4, 7/12, 2/3, 5/12]),   # the derived-tie witness
                  "treeops n=4 link=1 link2=3 d=" + mx([0.1, 0.9, 0.8, 0.85, 0.95, 0.2]),  # ((0,1),(2,3)): renumbering moves nodes
                  "treeops n=5 link=2 link2=3 d=" + mx([0.0] * 10),
                  "treeops n=5 link=3 link2=3 d=" + mx([1, 2, 3, 4, 5, 6, 7, 8, 9, 10]),
                  "treeops n=4 link=0 link2=0 d=" + mx([-1.0, 0.5, 0.25, 0.5, -0.5, 1.0])] +
                 ["simulate n=%d seed=%d" % t for t in [(2, 42), (3, 42), (4, 1), (8, 7), (16, 42), (17, 4294967295), (33, 12345), (64, 2)]]})
        return c

    def extra_evidence(self, ctx):
        return {"input_distribution": getattr(self, "_dist", {})}

    def cases(self, ctx):
        rng = ctx.rng
        self._dist = {}
        out = []
        quick = ctx.tier == "quick"
        nal = 700 if quick else 5000
        for c in range(nal):
            r = rng.random()
            if r < 0.25:   nseq, alen = rng.randrange(1, 7), rng.randrange(1, 13)
            elif r < 0.85: nseq, alen = rng.randrange(1, 31), rng.randrange(1, 61)
            else:          nseq, alen = rng.randrange(20, 61), rng.randrange(20, 101)
            out.append(self.one_case(rng, "aln%d" % c, nseq, alen))
        # sizes beyond one byte, cheaply: many short rows / few long rows (both tiers)
        for c in range(2 if quick else 10):
            out.append(self.one_case(rng, "tall%d" % c, rng.randrange(257, 301), rng.randrange(2, 25)))
            out.append(self.one_case(rng, "wide%d" % c, rng.randrange(2, 8), rng.randrange(257, 401)))
        if not quick:
            for c in range(120):
                out.append(self.one_case(rng, "big%d" % c, rng.randrange(60, 301), rng.randrange(100, 401)))
            out.append(self.one_case(rng, "max", 300, 400))
        # GSC equivariance needs tie-free distances: few rows, many columns, noisy copies
        for c in range(120 if quick else 800):
            out.append(self.one_case(rng, "tiefree%d" % c, rng.randrange(2, 7), rng.randrange(50, 101), mode=rng.choice(["amino", "text"])))
        for c in range(80 if quick else 600):
            out.append(self.empty_case(rng, "empty%d" % c, mode=("text", "amino", "dna", "rna")[c % 4]))
        for c in range(300 if quick else 2000):
            out.append(self.graph_case(rng, "graph%d" % c))
        for c in range(150 if quick else 1000):
            out.append(self.pairstr_case(rng, "pairstr%d" % c))
        for c in range(200 if quick else 1500):
            out.append(self.tree_case(rng, "tree%d" % c))
        for c in range(150 if quick else 1200):
            out.append(self.boundary_case(rng, "boundary%d" % c))
        # spread the expensive cases evenly, so that no batch of the engine (400 cases, one 300 s timeout per batch and side)
        # carries all of them: a loaded machine must not turn a slow batch into a "hang"
        heavy = [c for c in out if c["name"].startswith(("big", "tall", "wide", "max"))]
        light = [c for c in out if not c["name"].startswith(("big", "tall", "wide", "max"))]
        if heavy:
            step = max(1, len(light) // len(heavy))
            merged, h = [], 0
            for i, c in enumerate(light):
                if i % step == 0 and h < len(heavy):
                    merged.append(heavy[h]); h += 1
                merged.append(c)
            merged += heavy[h:]
            out = merged
        return out

    # ------------------------------------------------------------------ comparison
    DIAG = ()     # the diagnostic fields of ESL_MSAWEIGHT_DAT are modelled too and compared exactly (round 4)

    def compare(self, ctx, case, impl_out, model_out):
        """exact, except for freedoms the property leaves open (the monitors judge the implementation's own output in every
        such case):
          * a weight vector may differ from the model's in rounding only (bit-equal or within 1e-9 relative);
          * (since round 4 the diagnostic fields of ESL_MSAWEIGHT_DAT — how the consensus was found, fragment counts — ARE compared);
          * eslMSA_HASWGTS may be raised where the model leaves it down (single-sequence early return);
          * cluster numbering, order among equal sort keys, the kept set of the filter (see _tolerated)."""
        def bump(k): ctx.stats[k] = ctx.stats.get(k, 0) + 1
        if any(l.startswith(("fault ", "atexit ")) for l in model_out):
            # the MODEL process did not answer this case (batch timeout on a loaded machine): nothing to compare against
            # beyond the lines it completed; the monitors still judge the implementation's output
            bump("model_side_no_answer")
            if ctx.stats["model_side_no_answer"] > 25:      # not load: the driver itself is broken
                return (0, "<implementation answered>", "<model driver died or hung on more than 25 cases>")
            model_out = model_out[:max(0, [i for i, l in enumerate(model_out) if l.startswith(("fault ", "atexit "))][0] - 1)]
            impl_out = impl_out[:len(model_out)]
        n = max(len(impl_out), len(model_out))
        for i in range(n):
            a = impl_out[i] if i < len(impl_out) else "<missing>"
            b = model_out[i] if i < len(model_out) else "<missing>"
            if a == b: continue
            op = case["ops"][i].split()[0] if i < len(case["ops"]) else ""
            if " w=" in a and " w=" in b and a.startswith("ok ") and b.startswith("ok "):
                pa, wa = a.rsplit(" w=", 1); pb, wb = b.rsplit(" w=", 1)
                fa = [x for x in pa.split() if not x.startswith(self.DIAG)]
                fb = [x for x in pb.split() if not x.startswith(self.DIAG)]
                notes = []
                if fa != fb and pa != pb and [x for x in pa.split() if x.startswith(self.DIAG)] != [x for x in pb.split() if x.startswith(self.DIAG)]:
                    notes.append("pbadv_diagnostics_differ")
                if fa != fb and "hw=1" in fa and "hw=0" in fb and [x for x in fa if x != "hw=1"] == [x for x in fb if x != "hw=0"]:
                    notes.append("haswgts_raised_where_model_leaves_it_down"); fa = fb
                try:
                    xa = [undbits(x) for x in wa.split(",")]; xb = [undbits(x) for x in wb.split(",")]
                except ValueError:
                    return (i, a, b)
                if fa == fb and len(xa) == len(xb) and all(close(x, y) for x, y in zip(xa, xb)):
                    if wa != wb: notes.append("weights_equal_up_to_rounding_only")
                    for k in notes: bump(k)
                    continue
                return (i, a, b)
            tol = self._tolerated(op, a, b, case["ops"][i] if i < len(case["ops"]) else "", case["ops"][0])
            if tol:
                bump(tol)
                continue
            return (i, a, b)
        return None

    @staticmethod
    def _relabel(line):
        """cluster numbering is not part of the property: renumber in order of first appearance, carry nin along"""
        f = dict(x.split("=", 1) for x in line.split()[1:] if "=" in x)
        if f["c"] == "-":
            return (f["nc"], None, sorted(f["nin"].split(",")))
        c = [int(x) for x in f["c"].split(",")]
        m = {}
        for x in c: m.setdefault(x, len(m))
        nin = None
        if "nin" in f and f["nin"] != "-":
            old = [int(x) for x in f["nin"].split(",")]
            nin = [0] * len(old)
            for k, v in m.items():
                if 0 <= k < len(old) and v < len(old): nin[v] = old[k]
        return (f["nc"], [m[x] for x in c], nin)

    def _tolerated(self, op, a, b, full="", first=""):
        try:
            if op in ("slink", "cluster") and a.startswith("ok nc=") and b.startswith("ok nc="):
                if self._relabel(a) == self._relabel(b): return "same_partition_other_numbering"
            if op in ("idfilter", "idfilteradv") and a.startswith("ok same=1 kept=") and b.startswith("ok same=1 kept="):
                # the "conscover" preference has ties, and which of two equally preferred rows survives is esl_quicksort's
                # business, not the property's (independence + maximality are checked by the monitor). The other rules
                # (text mode / origorder: lower index first; random: distinct doubles) determine the kept set: compared exactly.
                if (op == "idfilter" and first != "abc t=text") or (op == "idfilteradv" and (" pref=1" in full or " pref=" not in full)):
                    return "kept_set_differs_from_model_preference"
            if op == "qsort" and a.startswith("ok ") and b.startswith("ok "):
                if sorted(a.split()[1].split(",")) == sorted(b.split()[1].split(",")): return "other_order_among_ties"
        except Exception:
            return None
        return None

    # ------------------------------------------------------------------ monitors
    def nontrivial(self, case, out):
        return sum(1 for l in out if l.startswith("ok ")) >= 3

    def monitor(self, ctx, case, out):
        try:
            return self._monitor(ctx, case, out)
        except Exception as e:   # a malformed output line is itself a finding
            import traceback
            return Failure("monitor", "monitor could not interpret implementation output: %r %s" % (e, traceback.format_exc()[-400:]))

    def _monitor(self, ctx, case, out):
        st = ctx.stats.setdefault("monitor_counts", {})
        def cnt(k): st[k] = st.get(k, 0) + 1
        aln = None
        blocks = []          # per alignment block: dict op -> weights, for the permutation check
        cur = None
        for op, l in zip(case["ops"], out):
            w = op.split()
            kv = dict(x.split("=", 1) for x in w[1:] if "=" in x)
            if l.startswith(("fault", "atexit")): continue
            if w[0] == "abc":
                aln = Aln(kv["t"]); cur = {"rows": aln.rows, "res": {}}; blocks.append(cur); continue
            if aln is None: continue
            if w[0] == "clear":
                aln = Aln(aln.mode); cur = {"rows": aln.rows, "res": {}}; blocks.append(cur); continue
            if w[0] == "row":
                if l.startswith("ok"): aln.add_row(list(bytes.fromhex(kv["h"])))
                continue
            if w[0] == "rf":
                if l.startswith("ok"): aln.rf = list(bytes.fromhex(kv["h"]))
                continue
            if l == "bad-op": continue
            n = len(aln.rows)
            rows = aln.rows
            if w[0] == "pairstr":
                a = list(bytes.fromhex(kv["a"])) if kv["a"] != "-" else []
                b = list(bytes.fromhex(kv["b"])) if kv["b"] != "-" else []
                f = l.split()
                if len(a) != len(b):
                    if f[0] != "einval": return Failure("monitor", "PairId on unaligned strings returned %s" % l)
                    continue
                nid, nn = aln.pair(a, b)
                exp = "ok %s %d %d" % (dbits(nid / nn if nn else 0.0), nid, nn)
                if l != exp: return Failure("monitor", "PairId: got %r, definition gives %r" % (l, exp))
                cnt("pairstr"); continue
            if w[0] in ("pairmatch", "jc", "distpair"):
                if w[0] == "distpair":
                    a = list(bytes.fromhex(kv["a"])) if kv["a"] != "-" else []
                    b = list(bytes.fromhex(kv["b"])) if kv["b"] != "-" else []
                    parts = l.split(" / ")
                else:
                    a, b = rows[int(kv["i"])], rows[int(kv["j"])]
                    parts = [l, None] if w[0] == "pairmatch" else [None, l]
                K = int(kv.get("k", 4)) if aln.mode == "text" else ABC[aln.mode][0]
                r_ = self._check_distpair(aln, a, b, K, parts, int(kv.get("opt", 7 if w[0] != "jc" else 3)) if w[0] != "distpair" else None)
                if r_: return Failure("monitor", r_)
                cnt(w[0]); continue
            if w[0] == "ragged":
                r_ = self._check_ragged(aln, kv, l)
                if r_: return Failure("monitor", "unaligned input: " + r_)
                cnt("ragged"); continue
            if w[0] in ("avgconn", "avgsub"):
                V = list(range(len(rows))) if w[0] == "avgconn" else ([int(x) for x in kv["v"].split(",")] if kv["v"] != "-" else [])
                r_ = self._check_conn(aln, V, int(kv["max"]), undbits(kv["th"]), l)
                if r_: return Failure("monitor", "%s: %s" % (w[0], r_))
                cnt(w[0]); continue
            if w[0] == "jcmx":
                K = int(kv.get("k", 4)) if aln.mode == "text" else ABC[aln.mode][0]
                r_ = self._check_jcmx(aln, K, l, int(kv.get("opt", 3)))
                if r_: return Failure("monitor", "JukesCantorMx: " + r_)
                cnt("jcmx"); continue
            if w[0] in ("avgid", "avgmatch"):
                r_ = self._check_average(aln, w[0], int(kv["max"]), l)
                if r_: return Failure("monitor", r_)
                cnt(w[0]); continue
            if w[0] == "pairid":
                i, j = int(kv["i"]), int(kv["j"])
                nid, nn = aln.pair(rows[i], rows[j])
                pid = nid / nn if nn else 0.0
                opt = int(kv.get("opt", 7))
                exp = "ok %s %d %d" % (dbits(pid if opt & 1 else -1.0), nid if opt & 2 else -1, nn if opt & 4 else -1)
                if l != exp: return Failure("monitor", "PairId(%d,%d)%s: got %r, definition gives %r" % (i, j, "" if opt == 7 else " with outputs %d requested" % opt, l, exp))
                if rows[i] == rows[j] and nn > 0 and pid != 1.0: return Failure("monitor", "PairId of equal rows is not 1")
                cnt("pairid"); continue
            if not l.startswith("ok "):
                return Failure("monitor", "operation %r returned %r" % (op, l))
            f = dict(x.split("=", 1) for x in l.split()[1:] if "=" in x)
            if w[0] == "pairidmx":
                v = [undbits(x) for x in l.split()[1].split(",")]
                for i in range(n):
                    for j in range(n):
                        e = 1.0 if i == j else aln.pidx(i, j)
                        if v[i * n + j] != e or v[i * n + j] != v[j * n + i]:
                            return Failure("monitor", "PairIdMx[%d][%d] = %r, definition gives %r" % (i, j, v[i * n + j], e))
                cnt("pairidmx"); continue
            if w[0] == "upgma":
                r = self._check_tree(int(kv["n"]), [undbits(x) for x in kv["d"].split(",")], f, cnt, int(kv.get("link", 0)))
                if r: return Failure("monitor", "esl_tree_%s: %s" % (("UPGMA", "WPGMA", "SingleLinkage", "CompleteLinkage")[int(kv.get("link", 0))], r))
                cnt("upgma"); continue
            if w[0] == "treeops":
                r = self._check_treeops(int(kv["n"]), [undbits(x) for x in kv["d"].split(",")], f, int(kv.get("link", 0)), int(kv.get("link2", 0)))
                if r: return Failure("monitor", "tree functions on the esl_tree_%s tree: %s" % (("UPGMA", "WPGMA", "SingleLinkage", "CompleteLinkage")[int(kv.get("link", 0))], r))
                cnt("treeops"); continue
            if w[0] == "simulate":
                r = self._check_simulate(int(kv["n"]), f)
                if r: return Failure("monitor", "esl_tree_Simulate(seed=%s, N=%s): %s" % (kv.get("seed"), kv["n"], r))
                cnt("simulate"); continue
            if w[0] == "deal64":
                m_, n_ = int(kv["m"]), int(kv["n"])
                d = [int(x) for x in l.split()[1].split(",")]
                if len(d) != m_ or any(not (0 <= x < n_) for x in d) or any(a >= b for a, b in zip(d, d[1:])):
                    return Failure("monitor", "esl_rand64_Deal(%d,%d) is not a sorted sample of distinct indices: %r" % (m_, n_, d[:10]))
                cnt("deal64"); continue
            if w[0] == "cluster":
                nn = int(kv["n"]); adj = kv["adj"]
                c = [int(x) for x in f["c"].split(",")]
                nc = int(f["nc"])
                if case.get("symmetric", False):
                    comp = components(nn, lambda i, j: adj[i * nn + j] == "1")
                    r = self._check_partition(c, nc, comp)
                    if r: return Failure("monitor", "esl_cluster_SingleLinkage: " + r)
                    cnt("cluster")
                continue
            if w[0] == "qsort":
                vals = [undbits(x) for x in kv["w"].split(",")]
                ordr = [int(x) for x in l.split()[1].split(",")]
                if sorted(ordr) != list(range(len(vals))): return Failure("monitor", "esl_quicksort result is not a permutation")
                if any(vals[a] < vals[b] for a, b in zip(ordr, ordr[1:])): return Failure("monitor", "esl_quicksort result is not sorted")
                cnt("qsort"); continue
            if w[0] == "slink":
                maxid = undbits(kv["maxid"])
                comp = components(n, lambda i, j: aln.pidx(i, j) >= maxid)
                if "wrote-past-nc" in l: return Failure("monitor", "esl_msacluster_SingleLinkage wrote more than nc entries into the caller's nin[]")
                nc = int(f["nc"]) if f["nc"] != "-" else len(set(comp))      # opt_nc == NULL: the other outputs are still judged
                if f["nin"] == "?": f["nin"] = "-"
                if nc != len(set(comp)): return Failure("monitor", "single linkage at %r: %d clusters reported, the link graph has %d components" % (maxid, nc, len(set(comp))))
                if f["c"] != "-":
                    c = [int(x) for x in f["c"].split(",")]
                    r = self._check_partition(c, nc, comp)
                    if r: return Failure("monitor", "single linkage at %r: %s" % (maxid, r))
                if f["nin"] != "-":
                    nin = [int(x) for x in f["nin"].split(",")]
                    if sorted(nin) != sorted(comp.count(k) for k in set(comp)): return Failure("monitor", "cluster sizes %r are not the component sizes" % nin)
                    if f["c"] != "-" and nin != [c.count(k) for k in range(nc)]: return Failure("monitor", "cluster sizes %r inconsistent with assignment" % nin)
                cnt("slink"); continue
            if w[0] in ("idfilter", "idfilteradv"):
                maxid = undbits(kv["maxid"])
                kept = [int(x) for x in f["kept"].split(",")]
                if f["same"] != "1" or kept != sorted(set(kept)) or any(not (0 <= k < n) for k in kept):
                    return Failure("monitor", "filtered alignment is not a sub-alignment of the input: %s" % l[:80])
                for x in range(len(kept)):
                    for y in range(x + 1, len(kept)):
                        if aln.pidx(kept[x], kept[y]) >= maxid:
                            return Failure("monitor", "IDFilter at %r kept rows %d and %d with identity %r" % (
                                maxid, kept[x], kept[y], aln.pidx(kept[x], kept[y])))
                ks = set(kept)
                for r_ in range(n):
                    if r_ not in ks and not any(aln.pidx(r_, k) >= maxid for k in kept):
                        return Failure("monitor", "IDFilter at %r dropped row %d although it reaches the threshold with no kept row" % (maxid, r_))
                r_ = self._check_pref(aln, kv if w[0] == "idfilteradv" else {}, (int(kv.get("pref", 1)) if w[0] == "idfilteradv" else 1) if aln.mode != "text" else 3, kept, maxid, cnt)
                if r_: return Failure("monitor", "%s at %r: %s" % (w[0], maxid, r_))
                cnt(w[0]); continue
            if w[0] == "diffmx":
                v = [undbits(x) for x in l.split()[1].split(",")]
                for i in range(n):
                    for j in range(n):
                        e = 0.0 if i == j else 1.0 - aln.pidx(i, j)
                        if v[i * n + j] != e: return Failure("monitor", "DiffMx[%d][%d] = %r, definition gives %r" % (i, j, v[i * n + j], e))
                cnt("diffmx"); continue
            if w[0] == "multi":
                w = [{"p": "pb", "g": "gsc", "b": "blosum"}[kv["seq"][-1]]] + w[1:]
                cnt("multi")
            if w[0] in ("pb", "pbadv", "blosum", "gsc"):
                wt = [undbits(x) for x in f["w"].split(",")]
                if len(wt) != n: return Failure("monitor", "%s returned %d weights for %d sequences" % (w[0], len(wt), n))
                if n >= 2 and f.get("hw") != "1": return Failure("monitor", "%s did not raise eslMSA_HASWGTS" % w[0])
                if any(not (x >= 0.0) for x in wt): return Failure("monitor", "%s weight is negative or NaN: %r" % (w[0], [x for x in wt if not x >= 0][:3]))
                if abs(sum(Fraction(x) for x in wt) - n) > Fraction(n, 10**6): return Failure("monitor", "%s weights sum to %r, not %d" % (w[0], float(sum(wt)), n))
                # identical rows => identical weights
                seen = {}
                for i, r_ in enumerate(rows):
                    k = tuple(r_)
                    if k in seen:
                        a, b = wt[seen[k]], wt[i]
                        if w[0] == "gsc" and not close(a, b) and self._gsc_zero_ties(aln):
                            # known finding: reported (with its key) on the corpus witness only, counted elsewhere
                            cnt("gsc-identical-rows-differ-under-zero-ties")
                            if case.get("known_key") == GSC_KEY:
                                return Failure("monitor", "gsc: identical rows %d and %d have weights %r and %r" % (seen[k], i, a, b), key=GSC_KEY)
                            continue
                        if (w[0] != "gsc" and a != b) or (w[0] == "gsc" and not close(a, b)):
                            return Failure("monitor", "%s: identical rows %d and %d have weights %r and %r" % (w[0], seen[k], i, a, b))
                    else: seen[k] = i
                if w[0] == "blosum":
                    maxid = undbits(kv["maxid"])
                    comp = components(n, lambda i, j: aln.pidx(i, j) >= maxid)
                    ncomp = len(set(comp))
                    for i in range(n):
                        e = Fraction(n, ncomp * comp.count(comp[i]))
                        if not close(wt[i], float(e)): return Failure("monitor", "BLOSUM weight %d is %r, expected N/(#clusters*size) = %r" % (i, wt[i], float(e)))
                        st["L0_max_abs_dev_blosum"] = max(st.get("L0_max_abs_dev_blosum", 0.0), abs(float(Fraction(wt[i]) - e)))
                if w[0] == "gsc" and n <= 36:
                    mx = aln.pairs()
                    dm = [[(Fraction(1) - (Fraction(*mx[i][j]) if mx[i][j][1] else 0)) if i != j else Fraction(0) for j in range(n)] for i in range(n)]
                    # with ties the binary64 code may break them differently from exact arithmetic (two distances equal
                    # over Q need not round to the same double): the exact oracle applies where no step of UPGMA ties
                    e = gsc_exact(dm, n) if upgma_tie_free(dm, n) else None
                    if e is None: cnt("gsc-exact-oracle-skipped-ties")
                    for i in range(n if e is not None else 0):
                        if not close(wt[i], float(e[i])): return Failure("monitor", "GSC weight %d is %r, the tree-based rule over exact fractions gives %r" % (i, wt[i], float(e[i])))
                        st["L0_max_abs_dev_gsc"] = max(st.get("L0_max_abs_dev_gsc", 0.0), abs(float(Fraction(wt[i]) - e[i])))
                    if e is not None: cnt("gsc-exact-oracle")
                if w[0] in ("pb", "pbadv"):
                    e = self._pb_expected(aln, kv if w[0] == "pbadv" else {}, f if w[0] == "pbadv" else None)
                    if isinstance(e, str): return Failure("monitor", e)
                    for i in range(n):
                        if not close(wt[i], float(e[i])): return Failure("monitor", "PB weight %d is %r, the 1/(r*c) formula gives %r" % (i, wt[i], float(e[i])))
                        st["L0_max_abs_dev_pb"] = max(st.get("L0_max_abs_dev_pb", 0.0), abs(float(Fraction(wt[i]) - e[i])))
                cur["res"][op] = wt
                if w[0] == "pbadv" and f.get("samp") == "1": cur.setdefault("sampled", set()).add(op)
                cnt(w[0]); continue
        # permutation equivariance between the two blocks of the case
        if len(blocks) == 2 and len(blocks[0]["rows"]) == len(blocks[1]["rows"]) and blocks[0]["rows"]:
            r0, r1 = blocks[0]["rows"], blocks[1]["rows"]
            for op, w1 in blocks[1]["res"].items():
                w0 = blocks[0]["res"].get(op)
                if w0 is None: continue
                name = op.split()[0]
                derived_tie = False
                if op in blocks[0].get("sampled", ()) or op in blocks[1].get("sampled", ()):
                    # consensus_by_sample draws row INDICES: the consensus, hence the weights, depend on the listing order
                    # (Lean: pb_relisting_fails_with_sampling); sum / non-negativity / identical rows are still checked above
                    cnt("perm-skipped-sampled-consensus"); continue
                if name == "gsc":
                    a0 = Aln(case["ops"][0].split("=")[1]); a0.rows = r0
                    if not self._tie_free(a0): continue
                    cnt("gsc-perm-tiefree")
                    n0 = len(r0); mx = a0.pairs()
                    dm = [[(Fraction(1) - (Fraction(*mx[i][j]) if mx[i][j][1] else 0)) if i != j else Fraction(0) for j in range(n0)] for i in range(n0)]
                    derived_tie = not upgma_tie_free(dm, n0)
                # match rows of block 1 to rows of block 0 by content (identical rows have identical weights)
                first = {}
                for i, r_ in enumerate(r0): first.setdefault(tuple(r_), i)
                for i, r_ in enumerate(r1):
                    j = first.get(tuple(r_))
                    if j is None: break
                    if not close(w1[i], w0[j], 1e-9 if name != "gsc" else 1e-7):
                        if derived_tie:
                            # known finding: pairwise distances are distinct but averaged distances tie during UPGMA
                            cnt("gsc-relisting-differs-under-derived-ties")
                            if case.get("known_key") == GSC_KEY2:
                                return Failure("monitor", "gsc: relisting the rows changed the weight of a sequence: %r vs %r" % (w0[j], w1[i]), key=GSC_KEY2)
                            break
                        return Failure("monitor", "%s: relisting the rows changed the weight of a sequence: %r vs %r" % (name, w0[j], w1[i]))
                cnt("perm-" + name)
        return None

    def _check_distpair(self, aln, a, b, K, parts, opt=None):
        import math
        inf = dbits(float("inf"))
        if parts[0] is not None:
            if len(a) != len(b): exp = "einval %s 0 0" % dbits(0.0)
            else:
                nm, ln = aln.pmatch(a, b)
                exp = "ok %s %d %d" % (dbits(nm / ln if ln else 0.0), nm, ln)
            if opt is not None and opt != 7:
                e = exp.split()
                exp = " ".join([e[0], e[1] if opt & 1 else dbits(-1.0), e[2] if opt & 2 else "-1", e[3] if opt & 4 else "-1"])
            if parts[0] != exp: return "PairMatch: got %r, definition (both residues / either residue) gives %r" % (parts[0], exp)
        if parts[1] is not None and opt is not None and opt != 3:
            # an output that was not requested must stay untouched; the requested one is judged below through a completed line
            f = parts[1].split()
            m1 = dbits(-1.0)
            if len(f) != 3 or (not opt & 1 and f[1] != m1) or (not opt & 2 and f[2] != m1): return "JukesCantor wrote an output that was not requested: %r" % parts[1]
            if opt == 0: return None
            n1, n2 = aln.jc_counts(a, b) if len(a) == len(b) else (0, 0)
            if len(a) != len(b) or n1 + n2 == 0 or Fraction(n2, n1 + n2) * K >= K - 1:
                want = [("einval" if len(a) != len(b) else "edivzero" if n1 + n2 == 0 else "ok"), inf if opt & 1 else m1, inf if opt & 2 else m1]
                return None if f == want else "JukesCantor (outputs %d requested) returned %r, expected %r" % (opt, parts[1], " ".join(want))
            D = Fraction(n2, n1 + n2)
            ed = -math.log(1.0 - float(D) * K / (K - 1.0)) * K / (K - 1.0)
            ev = math.exp(2.0 * K * ed / (K - 1.0)) * float(D) * (1.0 - float(D)) / (n1 + n2)
            if f[0] != "ok" or (opt & 1 and not close(undbits(f[1]), ed, 1e-9)) or (opt & 2 and not close(undbits(f[2]), ev, 1e-9)):
                return "JukesCantor (outputs %d requested) = %r; formula gives %r, %r" % (opt, parts[1], ed, ev)
            return None
        if parts[1] is not None:
            f = parts[1].split()
            if len(a) != len(b):
                if parts[1] != "einval %s %s" % (inf, inf): return "JukesCantor on unaligned strings returned %r" % parts[1]
                return None
            n1, n2 = aln.jc_counts(a, b)
            if n1 + n2 == 0:
                if parts[1] != "edivzero %s %s" % (inf, inf): return "JukesCantor with no comparable column returned %r" % parts[1]
                return None
            if f[0] != "ok": return "JukesCantor returned %r" % parts[1]
            d, v = undbits(f[1]), undbits(f[2])
            D = Fraction(n2, n1 + n2)
            if D * K >= K - 1:                       # saturation: 1 - D*K/(K-1) <= 0
                if not (d == float("inf") and v == float("inf")): return "JukesCantor at saturation (D=%s, K=%d) returned %r" % (D, K, parts[1])
                return None
            ed = -math.log(1.0 - float(D) * K / (K - 1.0)) * K / (K - 1.0)
            ev = math.exp(2.0 * K * ed / (K - 1.0)) * float(D) * (1.0 - float(D)) / (n1 + n2)
            if not (close(d, ed, 1e-9) and close(v, ev, 1e-9)) or d < 0 or v < 0:
                return "JukesCantor(n1=%d,n2=%d,K=%d) = %r, %r; formula gives %r, %r" % (n1, n2, K, d, v, ed, ev)
            if n2 == 0 and not (d == 0.0 and v == 0.0): return "JukesCantor of sequences without substitutions is %r, %r" % (d, v)
        return None

    def _check_ragged(self, aln, kv, l):
        """documented error behaviour: eslEINVAL (outputs NULL / 0) as soon as a pair the routine LOOKS AT differs in length; else the value"""
        seqs = [list(bytes.fromhex(t)) if t != "-" else [] for t in kv["seqs"].split(",")]
        n, maxc, th = len(seqs), int(kv["max"]), undbits(kv["th"])
        K = int(kv.get("k", 4)) if aln.mode == "text" else ABC[aln.mode][0]
        f = dict(x.split("=", 1) for x in l.split()[1:] if "=" in x)
        allp = [(i, j) for i in range(n) for j in range(i + 1, n)]
        bad = lambda pairs: any(len(seqs[i]) != len(seqs[j]) for i, j in pairs)
        e_mx = "einval" if bad(allp) else "ok"
        if f["pidmx"] != e_mx or f["diffmx"] != e_mx: return "PairIdMx/DiffMx returned %s/%s, expected %s" % (f["pidmx"], f["diffmx"], e_mx)
        e_jc = "ok"
        for i, j in allp:
            if len(seqs[i]) != len(seqs[j]): e_jc = "einval"; break
            if sum(aln.jc_counts(seqs[i], seqs[j])) == 0: e_jc = "edivzero"; break
        if f["jcmx"] != e_jc: return "JukesCantorMx returned %s, expected %s" % (f["jcmx"], e_jc)
        import math
        pairs, den = self._avg_pairs(n, maxc)
        z = dbits(0.0)
        sampling = n > 1 and not (n <= maxc and n <= math.sqrt(2.0 * maxc) and n * (n - 1) // 2 <= maxc)
        skip = False                       # 640fa96: the sampling branch reports an unaligned pair like the exhaustive one (was: not driven)
        if skip and (f["avgid"] != "skip" or f["avgmatch"] != "skip"): return "harness protocol: expected skip, got %s" % f["avgid"]
        if pairs is not None and bad(pairs):
            want = {"avgid": "einval:" + z, "avgmatch": "einval:" + z, "conn": "einval:%s:%s" % (z, z) if aln.mode != "text" else "-"}
            for k_, v in want.items():
                if skip and k_ != "conn": continue
                if f[k_] != v: return "%s returned %s although a compared pair is not aligned (expected %s)" % (k_, f[k_], v)
            return None
        def mean(fn):
            if pairs is None: return Fraction(1)
            return sum(fn(seqs[i], seqs[j]) for i, j in pairs) / den
        fid = lambda a, b: (lambda p: Fraction(p[0], p[1]) if p[1] else Fraction(0))(aln.pair(a, b))
        fpm = lambda a, b: (lambda p: Fraction(p[0], p[1]) if p[1] else Fraction(0))(aln.pmatch(a, b))
        for k_, fn in (("avgid", fid), ("avgmatch", fpm)):
            if skip: continue
            st, v = f[k_].split(":")
            if st != "ok" or not close(undbits(v), float(mean(fn)), 1e-9): return "%s = %s, definition gives %r" % (k_, f[k_], float(mean(fn)))
        if aln.mode != "text":
            st, v, c = f["conn"].split(":")
            ec = Fraction(1) if pairs is None else Fraction(sum(1 for i, j in pairs if aln.pid(seqs[i], seqs[j]) > th), den)
            if st != "ok" or not close(undbits(v), float(mean(fid)), 1e-9) or not close(undbits(c), float(ec), 1e-12): return "connectivity = %s, definition gives %r, %r" % (f["conn"], float(mean(fid)), float(ec))
        return None

    def _avg_pairs(self, n, maxc):
        """the pairs esl_dst_*Average* / *Connectivity visit for n rows, and the denominator; None for n <= 1"""
        import math
        if n <= 1: return None, 1
        if n <= maxc and n <= math.sqrt(2.0 * maxc) and n * (n - 1) // 2 <= maxc:
            return [(i, j) for i in range(n) for j in range(i + 1, n)], n * (n - 1) // 2
        mt = EaselMT(42); out = []
        for _ in range(maxc):
            while True:
                i = mt.roll(n); j = mt.roll(n)
                if j != i: break
            out.append((i, j))
        return out, maxc

    def _check_conn(self, aln, V, maxc, th, l):
        """average identity and fraction of pairs with identity > idthresh over the rows V"""
        f = l.split()
        if f[0] != "ok": return "returned %r" % l
        avgid, avgconn = undbits(f[1]), undbits(f[2])
        pairs, den = self._avg_pairs(len(V), maxc)
        if pairs is None: eid, econn = Fraction(1), Fraction(1)
        else:
            ids = [aln.pidx(V[i], V[j]) if V[i] != V[j] else aln.pid(aln.rows[V[i]], aln.rows[V[j]]) for i, j in pairs]
            eid = sum(Fraction(x) for x in ids) / den
            econn = Fraction(sum(1 for x in ids if x > th), den)
        if not close(avgid, float(eid), 1e-9) or not (-1e-12 <= avgid <= 1 + 1e-12): return "average identity %r, definition gives %r" % (avgid, float(eid))
        if not close(avgconn, float(econn), 1e-12) or not (0.0 <= avgconn <= 1.0): return "average connectivity at threshold %r is %r, definition gives %r" % (th, avgconn, float(econn))
        return None

    def _check_jcmx(self, aln, K, l, opt=3):
        import math
        rows, n = aln.rows, len(aln.rows)
        cnts = {(i, j): aln.jc_counts(rows[i], rows[j]) for i in range(n) for j in range(i + 1, n)}
        if any(a + b == 0 for a, b in cnts.values()):
            if l != "edivzero": return "a pair has no comparable column, expected eslEDIVZERO with NULL matrices, got %r" % l[:60]
            return None
        f = dict(x.split("=", 1) for x in l.split()[1:] if "=" in x)
        if not l.startswith("ok ") or "d" not in f or "v" not in f: return "returned %r" % l[:60]
        D = [undbits(x) for x in f["d"].split(",")] if f["d"] != "-" else None
        V = [undbits(x) for x in f["v"].split(",")] if f["v"] != "-" else None
        if (D is None) != (not opt & 1) or (V is None) != (not opt & 2): return "matrices returned do not match those requested (%d): %s" % (opt, l[:60])
        if (D is not None and len(D) != n * n) or (V is not None and len(V) != n * n): return "matrix sizes"
        if D is None or V is None:
            # judge the one that was returned against the other's formula-free properties only: diagonal 0, symmetric, >= 0
            M = D if D is not None else V
            for i in range(n if M is not None else 0):
                if M[i * n + i] != 0.0: return "diagonal entry %d is not 0" % i
                for j in range(i + 1, n):
                    if M[i * n + j] != M[j * n + i] or not M[i * n + j] >= 0: return "entry %d,%d not symmetric / negative" % (i, j)
            return None
        for i in range(n):
            if D[i * n + i] != 0.0 or V[i * n + i] != 0.0: return "diagonal entry %d is not 0" % i
            for j in range(i + 1, n):
                d, v = D[i * n + j], V[i * n + j]
                if D[j * n + i] != d or V[j * n + i] != v: return "matrices not symmetric at %d,%d" % (i, j)
                n1, n2 = cnts[(i, j)]
                Dq = Fraction(n2, n1 + n2)
                if Dq * K >= K - 1:
                    if not (d == float("inf") and v == float("inf")): return "entry %d,%d at saturation is %r, %r" % (i, j, d, v)
                    continue
                ed = -math.log(1.0 - float(Dq) * K / (K - 1.0)) * K / (K - 1.0)
                ev = math.exp(2.0 * K * ed / (K - 1.0)) * float(Dq) * (1.0 - float(Dq)) / (n1 + n2)
                if not (close(d, ed, 1e-9) and close(v, ev, 1e-9)) or d < 0 or v < 0: return "entry %d,%d = %r, %r; formula gives %r, %r" % (i, j, d, v, ed, ev)
        return None

    def _check_average(self, aln, op, maxc, l):
        import math
        n = len(aln.rows)
        if not l.startswith("ok "): return "%s returned %r" % (op, l)
        got = undbits(l.split()[1])
        if op == "avgid": val = lambda i, j: (lambda p: Fraction(p[0], p[1]) if p[1] else Fraction(0))(aln.pairs()[i][j])
        else:
            def val(i, j):
                nm, ln = aln.pmatch(aln.rows[i], aln.rows[j])
                return Fraction(nm, ln) if ln else Fraction(0)
        if n <= 1: exp = Fraction(1)
        elif n <= maxc and n <= math.sqrt(2.0 * maxc) and n * (n - 1) // 2 <= maxc:
            exp = sum(val(i, j) for i in range(n) for j in range(i + 1, n)) / (n * (n - 1) // 2)
        else:
            mt = EaselMT(42); tot = Fraction(0)
            for _ in range(maxc):
                while True:
                    i = mt.roll(n); j = mt.roll(n)
                    if j != i: break
                tot += val(i, j)
            exp = tot / maxc
        if not close(got, float(exp), 1e-9) or not (-1e-12 <= got <= 1 + 1e-12):
            return "%s(max_comparisons=%d) over %d rows = %r, the documented average is %r" % (op, maxc, n, got, float(exp))
        return None

    def _check_tree(self, n, dl, f, cnt, link=0):
        """the returned ESL_TREE (any mode of cluster_engine) is a rooted binary tree on the n taxa, arrays consistent, clade sizes =
        leaves below, join values monotone; additive trees (UPGMA/WPGMA): branch lengths = height differences, >= 0 when the
        distances are; linkage trees: ld == rd == linkage value; where no step ties: the tree over exact fractions"""
        import math
        il = lambda k: [int(x) for x in f[k].split(",")]
        left, right, parent, tp, cs = il("left"), il("right"), il("parent"), il("tp"), il("cs")
        ld = [undbits(x) for x in f["ld"].split(",")]; rd = [undbits(x) for x in f["rd"].split(",")]
        additive = link < 2
        finite = all(math.isfinite(v) for v in dl)
        nonneg = min(dl) >= 0
        if nonneg and f["valid"] != "1": return "esl_tree_Validate rejects the tree"
        if int(f["N"]) != n: return "T->N = %s for %d taxa" % (f["N"], n)
        if f["lt"] != ("0" if additive else "1"): return "is_linkage_tree = %s in mode %d" % (f["lt"], link)
        if not (len(left) == len(right) == len(parent) == len(ld) == len(rd) == len(cs) == n - 1 and len(tp) == n): return "array lengths"
        taxa, nodes = [], []
        for k in range(n - 1):
            for ch in (left[k], right[k]):
                if ch > 0:
                    if not (k < ch <= n - 2): return "child node %d of node %d not in preorder" % (ch, k)
                    nodes.append(ch)
                    if parent[ch] != k: return "parent[%d] = %d but it is a child of %d" % (ch, parent[ch], k)
                else:
                    if not (0 <= -ch < n): return "taxon out of range"
                    taxa.append(-ch)
                    if tp[-ch] != k: return "taxaparent[%d] = %d but it hangs off node %d" % (-ch, tp[-ch], k)
        if sorted(taxa) != list(range(n)): return "taxa below the nodes are %r, not each of 0..%d once" % (sorted(taxa)[:10], n - 1)
        if sorted(nodes) != list(range(1, n - 1)): return "internal nodes are not each a child exactly once"
        if parent[0] != 0: return "parent of the root is not 0"
        h = [0.0] * (n - 1); leaves = [0] * (n - 1)
        scale = max([1.0] + [abs(v) for v in dl if math.isfinite(v)])
        for k in range(n - 2, -1, -1):
            hl = h[left[k]] if left[k] > 0 else 0.0; hr = h[right[k]] if right[k] > 0 else 0.0
            if math.isnan(ld[k]) or math.isnan(rd[k]): return "NaN branch length at node %d" % k
            if nonneg and not (ld[k] >= 0.0 and rd[k] >= 0.0): return "negative branch length at node %d although no distance is negative" % k
            if additive:
                if finite and not abs((ld[k] + hl) - (rd[k] + hr)) <= 1e-9 * scale: return "node %d: left and right depth differ (%r vs %r): branch lengths are not height differences" % (k, ld[k] + hl, rd[k] + hr)
                h[k] = ld[k] + hl
            else:
                if ld[k] != rd[k]: return "linkage tree: ld[%d] = %r but rd[%d] = %r" % (k, ld[k], k, rd[k])
                h[k] = ld[k]
            for ch in (left[k], right[k]):
                if ch > 0 and finite and h[ch] > h[k] + (1e-9 * scale if additive else 0.0): return "node %d joins at %r below its child %d at %r: join values are not monotone" % (k, h[k], ch, h[ch])
            leaves[k] = (leaves[left[k]] if left[k] > 0 else 1) + (leaves[right[k]] if right[k] > 0 else 1)
            if cs[k] != leaves[k]: return "cladesize[%d] = %d, leaves below = %d" % (k, cs[k], leaves[k])
        if cs[0] != n: return "cladesize of the root is %d" % cs[0]
        if additive and max(dl) <= 1.0 and nonneg and h[0] > 0.5 + 1e-12: return "root height %r > 1/2 with all distances <= 1" % h[0]
        if not additive and finite and not (min(dl) <= h[0] <= max(dl)): return "root linkage value %r outside the range of the distances" % h[0]
        if n <= 30 and finite:
            it = iter(dl); dm = [[Fraction(0)] * n for _ in range(n)]
            for i in range(n):
                for j in range(i + 1, n):
                    dm[i][j] = dm[j][i] = Fraction(next(it))
            if upgma_tie_free(dm, n, link):
                el, er, eld, erd = upgma_exact(dm, n, link)
                if el != left or er != right: return "topology differs from the clustering over exact fractions (no step ties): %r/%r vs %r/%r" % (left, right, el, er)
                for k in range(n - 1):
                    if not close(ld[k], float(eld[k])) or not close(rd[k], float(erd[k])): return "branch lengths at node %d differ from the exact clustering" % k
                cnt("tree-exact-oracle-link%d" % link)
            else: cnt("tree-exact-oracle-skipped-ties")
        return None

    @staticmethod
    def _tree_shape(n, left, right, parent, preorder=True):
        """None if (left, right, parent) is a rooted binary tree on taxa 0..n-1 with root 0 (and, if asked, numbered in preorder)"""
        if not (len(left) == len(right) == len(parent) == n - 1): return "array lengths"
        taxa, nodes = [], []
        for k in range(n - 1):
            for ch in (left[k], right[k]):
                if ch > 0:
                    if not (0 < ch <= n - 2): return "child node %d out of range" % ch
                    nodes.append(ch)
                    if parent[ch] != k: return "parent[%d] = %d but it is a child of %d" % (ch, parent[ch], k)
                else:
                    if not (0 <= -ch < n): return "taxon out of range"
                    taxa.append(-ch)
        if sorted(taxa) != list(range(n)): return "taxa below the nodes are %r, not each of 0..%d once" % (sorted(taxa)[:10], n - 1)
        if sorted(nodes) != list(range(1, n - 1)): return "internal nodes are not each a child exactly once"
        if parent[0] != 0: return "parent of the root is not 0"
        if preorder:
            order, stack = [], [0]
            while stack:
                v = stack.pop(); order.append(v)
                if right[v] > 0: stack.append(right[v])
                if left[v] > 0: stack.append(left[v])
            if order != list(range(n - 1)): return "nodes are not numbered in preorder: visit order %r" % order[:12]
        return None

    @staticmethod
    def _clades(n, left, right):
        """set of the taxon sets below the internal nodes (numbering-independent description of the rooted topology)"""
        memo = {}
        def node(v):          # v = an internal node (0 is the root, not taxon 0)
            if v not in memo: memo[v] = child(left[v]) | child(right[v])
            return memo[v]
        def child(c): return frozenset([-c]) if c <= 0 else node(c)
        import sys
        sys.setrecursionlimit(max(sys.getrecursionlimit(), 4 * n + 100))
        return set(node(v) for v in range(n - 1)) if n > 1 else set()

    def _check_treeops(self, n, dl, f, link, link2):
        """VerifyUltrametric / ToDistanceMatrix / SetCladesizes / Compare / RenumberNodes on a cluster_engine tree, judged on the
        implementation's own output: the renumbered tree is a preorder-numbered tree; the distance matrix is the path length
        between the taxa in it (renumbering changes no distance); an additive tree from non-negative distances is ultrametric
        (linkage_additive_ultrametric); Compare(T, T) succeeds, and comparing with the tree of the SAME mode succeeds, before and
        after renumbering; renumbering changes neither the ultrametric verdict nor any comparison"""
        import math
        il = lambda k: [int(x) for x in f[k].split(",")]
        left, right, parent, tp, cs = il("left"), il("right"), il("parent"), il("tp"), il("cs")
        ld = [undbits(x) for x in f["ld"].split(",")]; rd = [undbits(x) for x in f["rd"].split(",")]
        finite = all(math.isfinite(v) for v in dl); nonneg = min(dl) >= 0
        if f["rn"] != "ok": return "RenumberNodes returned %s" % f["rn"]
        r = self._tree_shape(n, left, right, parent, preorder=True)
        if r: return "after RenumberNodes: " + r
        for k in range(n - 1):
            for ch in (left[k], right[k]):
                if ch <= 0 and tp[-ch] != k: return "after RenumberNodes taxaparent[%d] = %d but the taxon hangs off node %d" % (-ch, tp[-ch], k)
        if nonneg and finite and f["valid"] != "1": return "esl_tree_Validate rejects the renumbered tree"
        if f["cmpself"] != "ok": return "esl_tree_Compare(T, T) = %s" % f["cmpself"]
        if f["cmp2"] != f["cmp"]: return "Compare with the second tree gives %s before and %s after renumbering" % (f["cmp"], f["cmp2"])
        if link2 == link and f["cmp"] != "ok": return "Compare with the tree built again in the same mode = %s" % f["cmp"]
        same = self._clades(n, left, right) == self._clades(n, il("l2"), il("r2"))
        if (f["cmp"] == "ok") != same: return "esl_tree_Compare says %s, the two trees have %s clade sets" % (f["cmp"], "the same" if same else "different")
        if f["vu2"] != f["vu"]: return "VerifyUltrametric gives %s before and %s after renumbering" % (f["vu"], f["vu2"])
        if link < 2 and nonneg and finite and f["vu"] != "ok": return "the additive tree of non-negative distances is reported not ultrametric (%s)" % f["vu"]
        if sorted(cs) != sorted(len(c) for c in self._clades(n, left, right)) and len(self._clades(n, left, right)) == n - 1:
            return "cladesizes %r are not the sizes of the clades" % cs[:12]
        if cs[0] != n: return "cladesize[0] = %d" % cs[0]
        if f["dmsym"] != "1": return "ToDistanceMatrix is not symmetric / failed"
        if finite and f["dm"] not in ("loop",):
            dm = [undbits(x) for x in f["dm"].split(",")]
            if len(dm) != n * (n - 1) // 2: return "distance matrix has %d entries" % len(dm)
            # path length between two taxa in the (renumbered) tree: up from each to the root, common part cancels
            up = {}
            for k in range(n - 1):
                for ch, b in ((left[k], ld[k]), (right[k], rd[k])): up[ch if ch > 0 else ("t", -ch)] = (k, b)
            def path(x):
                out, v = [], x
                while v != 0:
                    k, b = up[v]; out.append((k, b)); v = k
                return out
            scale = max([1.0] + [abs(v) for v in dl])
            paths = [path(("t", i)) for i in range(n)]
            it = iter(dm)
            for i in range(n):
                for j in range(i + 1, n):
                    a, b = paths[i], paths[j]
                    ka = [k for k, _ in a]; kb = set(k for k, _ in b)
                    lca = next(k for k in ka if k in kb)
                    e = 0.0
                    for k, x in a:
                        e += x
                        if k == lca: break
                    for k, x in b:
                        e += x
                        if k == lca: break
                    v = next(it)
                    if not abs(v - e) <= 1e-9 * scale * n: return "ToDistanceMatrix[%d][%d] = %r, path length in the tree = %r" % (i, j, v, e)
        return None

    def _check_simulate(self, n, f):
        """esl_tree_Simulate returns a rooted binary tree on taxa 0..n-1 (consistent parent / taxaparent / cladesize), ultrametric,
        branch lengths >= 0; its renumbering is in preorder and has the same topology (clade sets, and esl_tree_Compare says so)"""
        il = lambda k: [int(x) for x in f[k].split(",")]
        left, right, parent, tp, cs = il("left"), il("right"), il("parent"), il("tp"), il("cs")
        ld = [undbits(x) for x in f["ld"].split(",")]; rd = [undbits(x) for x in f["rd"].split(",")]
        r = self._tree_shape(n, left, right, parent, preorder=False)
        if r: return r
        for k in range(n - 1):
            for ch in (left[k], right[k]):
                if ch <= 0 and tp[-ch] != k: return "taxaparent[%d] = %d but the taxon hangs off node %d" % (-ch, tp[-ch], k)
        if f["valid"] != "1": return "esl_tree_Validate rejects the tree"
        if not all(x >= 0.0 for x in ld + rd): return "negative or NaN branch length"
        if f["vu"] != "ok": return "not ultrametric (%s)" % f["vu"]
        depth = {}
        def rootdist(v, acc):
            stack = [(0, 0.0)]
            while stack:
                k, a = stack.pop()
                for ch, b in ((left[k], ld[k]), (right[k], rd[k])):
                    if ch > 0: stack.append((ch, a + b))
                    else: depth[-ch] = a + b
        rootdist(0, 0.0)
        if max(depth.values()) - min(depth.values()) > 1e-9 * max(1.0, max(depth.values())): return "root-to-taxon distances differ: %r .. %r" % (min(depth.values()), max(depth.values()))
        cl = self._clades(n, left, right)
        if sorted(cs) != sorted(len(c) for c in cl) or cs[0] != n: return "cladesizes %r" % cs[:12]
        if f["rn"] != "ok": return "RenumberNodes returned %s" % f["rn"]
        rl, rr, rp = il("rleft"), il("rright"), il("rparent")
        r = self._tree_shape(n, rl, rr, rp, preorder=True)
        if r: return "after RenumberNodes: " + r
        if self._clades(n, rl, rr) != cl: return "RenumberNodes changed the topology"
        if f["cmp"] != "ok": return "esl_tree_Compare(T, renumbered T) = %s" % f["cmp"]
        return None

    def _cons_by_all(self, aln, ft, sf):
        """consensus_by_all with the fragment rule of collect_counts (binary32 arithmetic as in the C code), 0-based columns"""
        import math
        rows, alen = aln.rows, len(aln.rows[0])
        K, Kp = ABC[aln.mode]
        minspan = int(math.ceil(f32(ft * alen)))
        spans = []
        for r in rows:
            res = [j for j in range(alen) if aln.is_res(r[j])]
            lp, rp = (res[0], res[-1]) if res else (alen, -1)
            spans.append((0, alen - 1) if rp - lp + 1 >= minspan else (lp, rp))
        cols = []
        for j in range(alen):
            gap = sum(1 for r, (a, b) in zip(rows, spans) if a <= j <= b and r[j] == K)
            tot = sum(1 for r, (a, b) in zip(rows, spans) if a <= j <= b and r[j] < Kp - 2)
            if tot > 0 and ((f32((tot - gap) / tot) >= sf) if getattr(self, "_residue_form", False) else (f32(gap / tot) < sf)): cols.append(j)
        return cols

    def _check_pref(self, aln, kv, pref, kept, maxid, cnt):
        """the preference rule decides which representative survives: a dropped row must reach the threshold with a kept row
        that the rule prefers at least as much (ties are the sort's business): conscover = consensus columns within the
        row's first..last residue; origorder / text mode = smaller index. (random: the kept set is compared exactly.)"""
        rows, n = aln.rows, len(aln.rows)
        ks = set(kept)
        if pref == 3: key = lambda i: -i
        elif pref == 1:
            alen = len(rows[0])
            ft = struct.unpack("<f", struct.pack("<I", int(kv["ft"], 16)))[0] if "ft" in kv else 0.5
            sf = struct.unpack("<f", struct.pack("<I", int(kv["sf"], 16)))[0] if "sf" in kv else 0.5
            if aln.rf is not None and not int(kv.get("irf", 0)): cols = [j for j in range(alen) if aln.rf[j] not in GAPCH]
            elif int(kv.get("as", 1)) and n > int(kv.get("st", 50000)): return None       # consensus from a random sample of rows
            else: cols = self._cons_by_all(aln, ft, sf)
            if not cols: cols = list(range(alen))
            cover = []
            for r in rows:
                res = [j for j in range(alen) if aln.is_res(r[j])]
                cover.append(sum(1 for j in cols if res[0] <= j <= res[-1]) if res else 0)
            key = cover.__getitem__
        else: return None
        for r in range(n):
            if r in ks: continue
            if not any(aln.pidx(r, k) >= maxid and key(k) >= key(r) for k in kept):
                return "row %d was dropped although every kept row it reaches the threshold with ranks below it in the %s preference" % (
                    r, "consensus-coverage" if pref == 1 else "original-order")
        cnt("pref-%d" % pref)
        return None

    def _check_partition(self, c, nc, comp):
        n = len(c)
        if len(comp) != n: return "assignment has wrong length"
        if any(not (0 <= x < nc) for x in c): return "cluster index out of range"
        if sorted(set(c)) != list(range(nc)): return "cluster numbers %r do not cover 0..%d" % (sorted(set(c))[:10], nc - 1)
        a, b = {}, {}
        for i in range(n):
            if a.setdefault(c[i], comp[i]) != comp[i] or b.setdefault(comp[i], c[i]) != c[i]:
                return "vertex %d: clusters are not the connected components of the link graph" % i
        return None

    def _dists(self, aln):
        n = len(aln.rows); mx = aln.pairs()
        return [Fraction(1) - (Fraction(*mx[i][j]) if mx[i][j][1] else 0) for i in range(n) for j in range(i + 1, n)]

    def _tie_free(self, aln):
        d = sorted(self._dists(aln))
        return all(b - a > Fraction(1, 10**9) for a, b in zip(d, d[1:]))

    def _gsc_zero_ties(self, aln):
        """identical rows may legitimately differ in GSC weight when a zero distance links rows that are not identical
        (a fragment is at distance 0 from everything that contains it): UPGMA's tie-breaking then decides"""
        n = len(aln.rows)
        for i in range(n):
            for j in range(i + 1, n):
                if aln.rows[i] != aln.rows[j]:
                    nid, nn = aln.pairs()[i][j]
                    if nn and nid == nn: return True
        return False

    def _pb_expected(self, aln, kv, f):
        """the documented rule recomputed with fractions; returns list of Fractions or an error string"""
        rows, n = aln.rows, len(aln.rows)
        if n == 1: return [Fraction(1)]
        alen = len(rows[0])
        if aln.mode == "text":
            cols = list(range(alen))
            sym = lambda c: upper(c) if is_alpha(c) else None
        else:
            K, Kp = ABC[aln.mode]
            sym = lambda c: c if c < K else None
            ft = struct.unpack("<f", struct.pack("<I", int(kv["ft"], 16)))[0] if "ft" in kv else 0.5
            sf = struct.unpack("<f", struct.pack("<I", int(kv["sf"], 16)))[0] if "sf" in kv else 0.5
            irf = int(kv.get("irf", 0))
            cols = []
            if aln.rf is not None and not irf:
                cols = [j for j in range(alen) if aln.rf[j] not in GAPCH]
            sampled = f is not None and f.get("samp") == "1" and f.get("all") == "0"
            if sampled:
                cols = [int(x) - 1 for x in f["cons"].split(",")]
                if cols != sorted(set(cols)) or any(not (0 <= j < alen) for j in cols): return "sampled consensus columns are not a column subset: %r" % cols[:12]
            if not cols:
                import math
                minspan = int(math.ceil(f32(ft * alen)))
                cols = []
                spans = []
                for r in rows:
                    res = [j for j in range(alen) if aln.is_res(r[j])]
                    lp, rp = (res[0], res[-1]) if res else (alen, -1)
                    spans.append((0, alen - 1) if rp - lp + 1 >= minspan else (lp, rp))
                for j in range(alen):
                    gap = sum(1 for r, (a, b) in zip(rows, spans) if a <= j <= b and r[j] == K)
                    tot = sum(1 for r, (a, b) in zip(rows, spans) if a <= j <= b and r[j] < Kp - 2)
                    if tot > 0 and ((f32((tot - gap) / tot) >= sf) if getattr(self, "_residue_form", False) else (f32(gap / tot) < sf)): cols.append(j)
            if not cols: cols = list(range(alen))
            if f is not None and not sampled:
                got = [int(x) - 1 for x in f["cons"].split(",")] if f["cons"] != "-" else []
                if got != cols: return "PB consensus columns %r differ from the documented rule %r" % (got[:12], cols[:12])
        raw = []
        colct = {}
        for j in cols:
            ct = {}
            for r in rows:
                s = sym(r[j])
                if s is not None: ct[s] = ct.get(s, 0) + 1
            colct[j] = ct
        for r in rows:
            tot, rlen = Fraction(0), 0
            for j in cols:
                s = sym(r[j])
                if s is not None:
                    tot += Fraction(1, len(colct[j]) * colct[j][s]); rlen += 1
            raw.append(tot / rlen if rlen else Fraction(0))
        S = sum(raw)
        if S == 0: return [Fraction(1)] * n
        return [x / S * n for x in raw]

SPEC = C16()
