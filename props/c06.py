"""C06 — SSI index. Model: lean/EaselModel/Ssi/*, theorems: Props/C06.lean, harness: h_ssi.c"""
import os
from vlib.engine import Prop, Failure

HEXLIMIT = 1500
PUNCT_LOW = b"!\"#$%&'()*+,-./"          # 0x21..0x2f: sorts just above TAB / space
PUNCT_MID = b":;<=>?@[\\]^_`"
PUNCT_HIGH = b"{|}~"
LETTERS = b"abcdefghijklmnopqrstuvwxyzABCDEFGHIJKLMNOPQRSTUVWXYZ"
DIGITS = b"0123456789"
ALLPRINT = bytes(range(0x21, 0x7f))
BIG = [0, 1, 2, 255, 256, 65535, 65536, 2**31 - 1, 2**31, 2**32 - 1, 2**32, 2**32 + 1, 2**40 + 12345, 2**53, 2**53 + 1,
       2**62, 2**63 - 2, 2**63 - 1]


def ssi_image(files_full, subseq, pk, al):
    """SSI v3.0 file as documented in esl_ssi.c / the SSI format notes: big-endian integers, 64-bit offsets.
    files_full: [(name as given to AddFile, fmt)], subseq: {fh: (bpl, rpl)}, pk: {key: (fh, r, d, L)}, al: {alias: key}"""
    import struct
    flen = max(len(n) for n, _ in files_full) + 1
    plen = (max(len(k) for k in pk) + 1) if pk else 0
    slen = (max(len(k) for k in al) + 1) if al else 0
    frec, prec, srec = 16 + flen, 26 + plen, slen + plen
    foff = 78
    poff = foff + frec * len(files_full)
    soff = poff + prec * len(pk)
    out = struct.pack(">IIIHQQIIIIIIQQQ", 0xd3d3c9b3, 0, 8, len(files_full), len(pk), len(al), flen, plen, slen, frec, prec, srec, foff, poff, soff)
    for fh, (name, fmt) in enumerate(files_full):
        bpl, rpl = subseq.get(fh, (0, 0))
        out += name.split(b"/")[-1].ljust(flen, b"\0") + struct.pack(">IIII", fmt, 1 if bpl > 0 and rpl > 0 else 0, bpl, rpl)
    for k in sorted(pk):
        fh, r, d, L = pk[k]
        out += k.ljust(plen, b"\0") + struct.pack(">HQQQ", fh, r, d, L)
    for a in sorted(al):
        out += a.ljust(slen, b"\0") + al[a].ljust(plen, b"\0")[:plen]
    return out


def fnv64(b):
    h = 0xcbf29ce484222325
    for x in b:
        h = ((h ^ x) * 0x100000001b3) & 0xffffffffffffffff
    return h


def hx(b):
    return b.hex() if b else "-"


def unhx(s):
    return b"" if s == "-" else bytes.fromhex(s)


def kv(op):
    w = op.split()
    return w[0], dict(x.split("=", 1) for x in w[1:] if "=" in x)


class KeyGen:
    """keys over printable non-blank bytes: shared prefixes, prefix chains, last-byte variants, punctuation, long keys"""

    def __init__(self, rng, maxlen=200):
        self.rng, self.maxlen, self.used = rng, maxlen, set()

    def rand(self, lo=1, hi=12, alpha=None):
        rng = self.rng
        alpha = alpha or rng.choice([LETTERS, LETTERS + DIGITS, ALLPRINT, PUNCT_LOW + LETTERS[:3], PUNCT_LOW, b"ab", b"!~"])
        return bytes(rng.choice(alpha) for _ in range(rng.randint(lo, hi)))

    def fresh(self, cand):
        cand = cand[:self.maxlen]
        if not cand or cand in self.used:
            return None
        self.used.add(cand)
        return cand

    def family(self, n):
        """a batch of up to n related fresh keys"""
        rng = self.rng
        out = []
        mode = rng.random()
        if mode < 0.2:      # independent
            for _ in range(n):
                out.append(self.rand(1, rng.choice([3, 8, 20])))
        elif mode < 0.4:    # shared prefix
            p = self.rand(1, rng.choice([4, 30, 150]))
            for _ in range(n):
                out.append(p + self.rand(1, 6))
        elif mode < 0.6:    # prefix chain: a, ab, abc, ...
            s = self.rand(n, n + 3)
            start = rng.randint(1, 3)
            for i in range(n):
                out.append(s[:start + i])
        elif mode < 0.8:    # differ in the last byte only
            p = self.rand(0, rng.choice([5, 60, 199]))
            cs = list(ALLPRINT)
            rng.shuffle(cs)
            for c in cs[:n]:
                out.append(p + bytes([c]))
        elif mode < 0.9:    # punctuation that sorts around TAB/space appended to a stem, and the stem itself
            p = self.rand(1, 5, LETTERS)
            out.append(p)
            for _ in range(n):
                out.append(p + self.rand(1, 3, PUNCT_LOW + b"~"))
        else:               # long keys, lengths near 200
            for _ in range(n):
                L = rng.choice([198, 199, 200, rng.randint(100, 200)])
                c = self.rand(1, 1)
                out.append((self.rand(1, 4) + c * 200)[:L - 1] + self.rand(1, 1))
        res = []
        for k in out:
            k = self.fresh(k)
            if k:
                res.append(k)
        return res

    def many(self, n):
        res = []
        guard = 0
        while len(res) < n and guard < 10 * n + 50:
            guard += 1
            res += self.family(min(n - len(res), self.rng.randint(1, 12)))
        return res[:n]


def off(rng):
    r = rng.random()
    if r < 0.35:
        return rng.choice(BIG)
    if r < 0.6:
        return rng.randrange(0, 100000)
    if r < 0.8:
        return rng.randrange(0, 2**63)
    return rng.randrange(2**31 - 5, 2**32 + 5)


class C06(Prop):
    id = "C06"
    lean_modules = ["EaselModel.Props.C06"]
    lean_exe = "c06_driver"
    harness = "h_ssi.c"
    theorems = ["EaselModel.Props.C06." + t for t in (
        "codec_roundtrip", "codec_bigendian", "bsearch_correct", "write_spec", "write_ok_iff_distinct", "write_dup_no_file",
        "written_file", "open_written", "open_rejects", "findName_stored", "findName_alias", "findName_absent", "findNumber_sorted",
        "fileInfo_spec", "internal_eq_external", "auto_switch_trigger", "external_is_permanent", "history_write", "history_index_correct", "history_alias", "history_enumeration", "findSubseq_spec", "findSubseq_erange", "exCross_wf",
        "findSubseq_alias", "findSubseq_absent", "open_any_bytes", "bsearch_any_array", "findName_any_index", "findName_no_fault",
        "findNumber_any_index", "fileInfo_any_index", "findSubseq_any_index", "written_index_no_alias_chain", "truncated_index_never_wrong", "truncated_index_same_answers", "write_twice", "findName_one_level", "findName_chain_depth", "findName_cycle_never_returns", "exLoop_next", "offsets_beyond_file", "addFile_never_checks_names",
        "cross_class_duplicate_rejected")]
    claimed = True
    technique = ("Lean 4 proof about an executable model of esl_ssi.c (writer, on-disk layout, binary search, alias indirection) "
                 "+ exact differential correspondence (index bytes and every lookup) with the ASan/UBSan-built library")
    level_text = ("Theorems (Lean 4, no bound on the number or length of keys beyond names/keys < 64 KB and < 2^40 keys) about an executable model that mirrors esl_ssi.c: "
                  "big-endian u16/u32/u64/offset codecs round-trip every value; THIS binary search is correct on every strictly strcmp-sorted record array and, on ANY record array, never returns another key's record; "
                  "for every history of AddFile/SetSubseq/AddKey/AddAlias calls with the switch to the external sort at any point, Write succeeds iff ALL keys are distinct — no primary key twice, no alias twice, no alias that is also a primary key "
                  "(else eslEDUP and no index file; the cross-class case is cross_duplicate()'s merge pass over the two sorted streams, modelled line by line), and the external path emits the same bytes as the in-memory path; "
                  "the automatic switch fires exactly when current_newssi_size() >= max_ram before an Add call and is permanent; on the written bytes Open succeeds, FindName returns exactly the stored record for every primary key and "
                  "every alias, eslENOTFOUND for every other string, FindNumber enumerates the keys in strcmp order (eslENOTFOUND outside 0..n-1), FileInfo returns name/format/line geometry for every handle, FindSubseq computes the documented outcome for keys and aliases. "
                  "On ANY byte string (truncated, corrupted, unsorted index) Open/FindName/FindNumber/FindSubseq/FileInfo answer with a documented status and never read outside a buffer; an eslOK from FindName carries a stored record holding exactly the probe key; a written index cut after any number of bytes never answers with a wrong record. A second Write on the same ESL_NEWSSI is eslEINVAL and touches nothing. "
                  "The model is tied to the working tree on every run by an exact differential run (index bytes and every lookup, damaged indices included) against the ASan/UBSan build, plus an independent oracle on the library's outputs.")
    level_note = ("Alias lookup assumes AddAlias's documented precondition (the target is a registered primary key); on arbitrary bytes the alias recursion of FindName is shown to end when no stored alias names another stored alias "
                  "(true of every written index, proved); on alias -> alias chains of hand-made files the recursion depth equals the chain length and the answer is the direct lookup of the last link, and on a cycle the recursion never returns (findName_chain_depth, findName_cycle_never_returns: stack overflow in C, not run against the code). Former known finding C06:cross-class-duplicate is repaired (cross_duplicate() in esl_newssi_Write); its witness is a regression case and `cross_class_duplicate_rejected` a theorem. "
                  "Trusted: Lean kernel + propext/Classical.choice/Quot.sound; the hand model's fidelity is checked by the differential run, not proved; qsort, sort(1) in the POSIX locale, system(), stdio are modelled (sort = bytewise sort of the lines); "
                  "little-endian host with 64-bit off_t; esl_ssi_FindSubseq's outcome theorem needs a registered file handle.")
    diverge_is_violation = True
    trusted_base = ["hand model of esl_ssi.c tied by exact differential run (h_ssi.c, ASan+UBSan build of the working tree): index bytes and all lookup results",
                    "Lean compiler/runtime for the executable driver", "gcc, glibc (strcmp, strncpy, qsort, printf/strtoull, stdio), sort(1)"]
    assumptions = ["qsort sorts by the comparison function; sort(1) under LC_ALL=POSIX sorts lines bytewise; system() runs it: modelled, not verified",
                   "a file is its byte string; fseeko/fread past the end is a short read; allocation never fails",
                   "little-endian host, sizeof(off_t) = 8 (the configuration of this build)",
                   "esl_newssi_AddAlias's documented precondition (the target is a registered primary key) is a hypothesis of the lookup theorems",
                   "keys are non-empty NUL-free strings without TAB/newline (the property's quantifier: printable non-blank)",
                   "covered C functions: esl_newssi_AddFile/SetSubseq/AddKey/AddAlias/Write/Close, current_newssi_size, activate_external_sort, parse_pkey, parse_skey, "
                   "pkeysort, skeysort, cross_duplicate, esl_ssi_Open/FindName/FindNumber/FindSubseq/FileInfo/Close, binary_search, esl_byteswap, esl_hton*/ntoh*, esl_fwrite_u16/u32/u64/i64/offset, "
                   "esl_fread_u16/u32/u64/i64/offset; from easel.c esl_FileTail, esl_strtok, esl_fgets (as 'read a line'), esl_strdup",
                   "the automatic switch (current_newssi_size() >= max_ram at the start of AddKey/AddAlias) is exercised with max_ram lowered to 1-3 MB through the public field, "
                   "including byte-exact boundaries of the size formula, and the library's `external` flag is compared after every call; the default 2048 MB threshold itself is covered by the theorems only",
                   "not covered: eslEMEM/eslEWRITE paths (allocation and write failures), eslESYS other than sort(1) being unavailable, 32-bit off_t hosts, "
                   "index files in which a stored alias names another stored alias (unbounded recursion of esl_ssi_FindName: outside AddAlias's precondition), offsets >= 2^40 in damaged headers",
                   "damaged indices (truncated anywhere, records swapped/duplicated/rotated, counts, widths and offsets changed, fields without terminator, zero widths, file handle >= nfiles, rpl = 0) are "
                   "generated from valid images and every Open/Find*/FileInfo answer is compared exactly with the model",
                   "esl_ssi_FindSubseq is modelled with the repaired tests (requested_start < 1 rejected; file handle >= nfiles is eslEFORMAT; r == 0 || b == 0 tested before the division); start <= 0 is generated and must give eslERANGE"]
    rule = ("cases = index build histories (files, keys, aliases, optional switch to external sort at a chosen point) + write + reopen + lookups "
            "of stored keys, aliases, near-miss probes, numbers, file handles; damaged images + the same lookups; non-trivial = a written index with >= 1 successful lookup; distinct by output trace")
    quick_budget_s = 90

    # ------------------------------------------------------------------ generators
    def _merge(self, rng, keys, aliases):
        """insertion history: every alias comes after its target key (AddAlias's precondition)"""
        pos = {}
        for i, k in enumerate(keys):
            pos.setdefault(k[0], i)
        pending = {}
        for a in aliases:
            pending.setdefault(pos.get(a[1], -1), []).append(a)
        merged = [("a", a) for a in pending.get(-1, [])]
        late = []
        for i, k in enumerate(keys):
            merged.append(("k", k))
            for a in pending.get(i, []):
                (merged if rng.random() < 0.5 else late).append(("a", a))
        rng.shuffle(late)
        return merged + late

    def _build_ops(self, files, merged, ext_point, subseq):
        """one build history; ext_point: index in the merged add list before which max_ram is set to 0, or None"""
        ops = ["new"]
        for name, fmt in files:
            ops.append("addfile name=%s fmt=%d" % (hx(name), fmt))
        for fh, bpl, rpl in subseq:
            ops.append("setsubseq fh=%d bpl=%d rpl=%d" % (fh, bpl, rpl))
        for i, (t, x) in enumerate(merged):
            if ext_point == i:
                ops.append("external")
            if t == "k":
                ops.append("addkey k=%s fh=%d r=%d d=%d L=%d" % (hx(x[0]), x[1], x[2], x[3], x[4]))
            else:
                ops.append("addalias a=%s k=%s" % (hx(x[0]), hx(x[1])))
        if ext_point is not None and ext_point >= len(merged):
            ops.append("external")
        ops.append("isext")
        ops.append("write twice=1" if self._twice_rng is not None and self._twice_rng.random() < 0.08 else "write")
        return ops

    def _probes(self, rng, keys, aliases, limit):
        stored = [k[0] for k in keys] + [a[0] for a in aliases]
        allk = set(stored)
        probes = []
        sample = stored if len(stored) <= limit else rng.sample(stored, limit)
        srt = sorted(allk)
        for k in sample:
            probes.append(k)
            cands = [k[:-1], k + b"!", k + b"~", k + bytes([rng.choice(ALLPRINT)]),
                     k[:-1] + bytes([max(0x21, k[-1] - 1)]), k[:-1] + bytes([min(0x7e, k[-1] + 1)]),
                     k[:len(k) // 2], k.swapcase()]
            for c in rng.sample(cands, 3 if len(stored) > 40 else len(cands)):
                probes.append(c)
        # extensions / truncations of the LONGEST key of each class (the key that fills its fixed-width field completely)
        for cls in ([k[0] for k in keys], [a[0] for a in aliases]):
            if cls:
                m = max(len(k) for k in cls)
                for k in [k for k in cls if len(k) == m][:3] + [k for k in cls if len(k) == m - 1][:1]:
                    probes += [k, k + b"0", k + b"!", k + b".1", k + k, k[:-1], k + bytes([rng.choice(ALLPRINT)]) * rng.randint(1, 5)]
        if srt:
            probes += [srt[0], srt[-1], srt[0][:-1], srt[-1] + b"~", b"!", b"~" * 201, b"", srt[len(srt) // 2]]
            if len(srt[0]) > 0:
                probes.append(srt[0][:-1] + bytes([max(0x21, srt[0][-1] - 1)]))
        else:
            probes += [b"a", b"", b"!"]
        return probes

    def gen_case(self, rng, name, nfiles, nkeys, nalias, mode, probe_limit=60):
        """mode: 'int' | 'ext' | 'both' (internal then external at a random point; bytes must agree) | 'dupP' | 'dupA' |
        'dupX' (an alias that is also a primary key: first / last / any key of either class)"""
        kg = KeyGen(rng)
        files = []
        for i in range(nfiles):
            base = kg.rand(1, rng.choice([5, 20, 60]), LETTERS + DIGITS + b"._-")
            if rng.random() < 0.4:
                base = kg.rand(1, 8, LETTERS) + b"/" + base
            if rng.random() < 0.15:
                base = b"/" + kg.rand(1, 30, LETTERS + b"/") + b"/" + base
            if rng.random() < 0.04:
                base = rng.choice([base + b"/", b"/", b"//", b"./" + base, b"../" + base + b"//"])   # empty tail
            files.append((base, rng.choice([0, 1, 2, 4, 7, 101, 2**31 - 1, rng.randrange(0, 1000)])))
        subseq = []
        for fh in range(nfiles):
            if rng.random() < 0.4:
                rpl = rng.choice([1, 2, 10, 60, 80, 2**32 - 2, rng.randrange(1, 200)])
                bpl = rpl + 1 if rng.random() < 0.6 else rpl + rng.choice([2, 3, 11])
                subseq.append((fh, min(bpl, 2**32 - 1), rpl))
        kl = kg.many(nkeys)
        keys = [(k, rng.randrange(nfiles), off(rng), rng.choice([0, 0, off(rng)]) if rng.random() < 0.3 else off(rng), off(rng)) for k in kl]
        order = rng.random()
        if order < 0.1: keys.sort()                      # already sorted insertion order
        elif order < 0.2: keys.sort(reverse=True)        # reverse sorted
        else: rng.shuffle(keys)
        al = kg.many(nalias) if keys else []
        aliases = [(a, rng.choice(keys)[0]) for a in al]
        ops = []
        if mode == "dupX" and not keys:
            mode = "int"
        if mode == "dupX":
            pick = lambda lst: rng.choice([min(lst), max(lst), rng.choice(lst), rng.choice(lst)])   # smallest / largest / any
            d = pick(keys)
            aliases.insert(rng.choice([0, len(aliases), rng.randrange(len(aliases) + 1)]), (d[0], rng.choice(keys)[0]))
            if rng.random() < 0.15:      # a second alias that is a primary key
                d2 = pick(keys)
                if d2[0] != d[0]:
                    aliases.append((d2[0], d[0]))
        if mode in ("dupP", "dupA"):
            pick = lambda lst: rng.choice([min(lst), max(lst), rng.choice(lst), rng.choice(lst)])   # smallest / largest / any
            if mode == "dupP" and keys:
                d = pick(keys)
                where = rng.choice([0, len(keys), rng.randrange(len(keys) + 1)])
                keys.insert(where, d if rng.random() < 0.3 else (d[0], rng.randrange(nfiles), off(rng), off(rng), off(rng)))   # 30%: the identical record twice
                if rng.random() < 0.2:      # a triple
                    keys.insert(rng.randrange(len(keys) + 1), (d[0], rng.randrange(nfiles), off(rng), off(rng), off(rng)))
            elif aliases:
                d = pick(aliases)
                aliases.insert(rng.choice([0, len(aliases), rng.randrange(len(aliases) + 1)]), d if rng.random() < 0.3 else (d[0], rng.choice(keys)[0]))
            else:
                mode = "int"
        n_adds = len(keys) + len(aliases)
        merged = self._merge(rng, keys, aliases)
        if mode in ("dupP", "dupA", "dupX"):
            ext = rng.choice([None, 0, rng.randint(0, n_adds), n_adds])
            ops += self._build_ops(files, merged, ext, subseq)
            ops.append("open")
            return {"name": name, "ops": ops, "sticky": 1}
        if mode == "both":
            ops += self._build_ops(files, merged, None, subseq)
            ops += self._build_ops(files, merged, rng.choice([0, n_adds, rng.randint(0, n_adds), rng.randint(0, n_adds)]), subseq)
        elif mode == "ext":
            ops += self._build_ops(files, merged, rng.choice([0, rng.randint(0, n_adds)]), subseq)
        else:
            ops += self._build_ops(files, merged, None, subseq)
        ops.append("open")
        look = []
        for p in self._probes(rng, keys, aliases, probe_limit):
            look.append("find k=%s" % hx(p))
        n = len(keys)
        nums = list(range(n)) if n <= 40 else sorted(set(rng.sample(range(n), 30) + [0, 1, n - 2, n - 1]))
        nums += [n, n + 1, -1, 2**63 - 1, -2**63]
        for i in nums:
            look.append("findnum i=%d" % i)
        for fh in list(range(nfiles)) + [nfiles, 32767, 65535]:
            look.append("fileinfo fh=%d" % fh)
        for k in (rng.sample(keys, min(len(keys), 6)) if keys else []):
            L = k[4]
            for s in {1, max(1, L), L + 1, max(1, L // 2), rng.randrange(1, max(2, min(L + 1, 2**63 - 1))), 0, -1, rng.choice([-2**63, -2, 2**63 - 1])}:
                if -2**63 <= s <= 2**63 - 1:
                    look.append("subseq k=%s start=%d" % (hx(k[0]), s))
        for a in (rng.sample(aliases, min(len(aliases), 2)) if aliases else []):
            look.append("subseq k=%s start=1" % hx(a[0]))
        for k in (rng.sample(keys, min(len(keys), 3)) if keys else []) + [(b"zz-absent",)]:
            look.append("findq k=%s" % hx(k[0]))
        for a in (rng.sample(aliases, min(len(aliases), 2)) if aliases else []):
            look.append("findq k=%s" % hx(a[0]))
        look += ["findnumq i=%d" % i for i in (0, n - 1, n)]
        if rng.random() < 0.7:
            rng.shuffle(look)         # lookups of different kinds interleave: no call may rely on the file position left by another
        ops += look
        if rng.random() < 0.1:        # reopen and look again
            ops += ["close", "open"] + rng.sample(look, min(len(look), 10))
        ops.append("close")
        return {"name": name, "ops": ops, "sticky": 1}

    def gen_auto(self, rng, name):
        """the switch to the external sort happens BY ITSELF: max_ram is set to a small positive number of MB and one very long
        key widens every record, so that current_newssi_size() crosses the threshold after a few dozen keys; `isext` after
        every call pins the exact call at which the library switches (the monitor recomputes the size formula)"""
        kg = KeyGen(rng)
        nfiles = rng.randint(1, 5)
        files = [(kg.rand(1, 20, LETTERS + b"/."), rng.randrange(100)) for _ in range(nfiles)]
        m = rng.choice([1, 1, 2, 3])
        Lg = rng.choice([20000, 30000, 65000, rng.randint(15000, 60000)])
        giant = kg.rand(1, 3, LETTERS) + bytes([rng.choice(LETTERS)]) * (Lg - 3)
        need = m * 1048576 // (27 + len(giant)) + 1
        nkeys = need + rng.randint(2, 12)
        small = kg.many(nkeys - 1)
        keys = [(k, rng.randrange(nfiles), off(rng), off(rng), off(rng)) for k in small]
        keys.insert(rng.randint(0, min(5, len(keys))), (giant, rng.randrange(nfiles), off(rng), off(rng), off(rng)))
        aliases = [(a, rng.choice(keys)[0]) for a in kg.many(rng.randint(0, 6))]
        if rng.random() < 0.3:
            aliases.append((b"AL" + giant[: rng.choice([100, 5000, len(giant) - 2])], rng.choice(small)))
        merged = self._merge(rng, keys, aliases)
        ops = self._build_ops(files, merged, None, [])          # reference build, never external
        ops.insert(len(ops) - 1, "isext")
        ops.append("new")
        for nm, fmt in files:
            ops.append("addfile name=%s fmt=%d" % (hx(nm), fmt))
        at = rng.randint(0, 3)
        raise_at = rng.choice([None, len(merged) - 1, rng.randint(at, len(merged))])
        for i, (t, x) in enumerate(merged):
            if i == at:
                ops.append("maxram m=%d" % m)
            if i == raise_at:
                ops.append("maxram m=%d" % rng.choice([2048, 1000000, m + 50]))      # raising it again must not undo a switch
            if t == "k":
                ops.append("addkey k=%s fh=%d r=%d d=%d L=%d" % (hx(x[0]), x[1], x[2], x[3], x[4]))
            else:
                ops.append("addalias a=%s k=%s" % (hx(x[0]), hx(x[1])))
            ops.append("isext")
        ops.append("write nosort=1" if rng.random() < 0.15 else "write")
        ops.append("open")
        if not ops[-2].startswith("write nosort"):
            for p_ in [giant, giant + b"0", giant[:-1], giant[:200], small[0], small[-1], small[0] + b"!"] + [a[0] for a in aliases]:
                ops.append("find k=%s" % hx(p_))
            for i in (0, len(keys) // 2, len(keys) - 1, len(keys)):
                ops.append("findnum i=%d" % i)
            ops.append("close")
        return {"name": name, "ops": ops, "sticky": 1}

    def gen_exact(self, rng, name):
        """automatic switch at a byte-exact boundary: the file-name width is chosen so that current_newssi_size()'s numerator is
        exactly 2^20 (delta=0: switch at the next call) or 2^20-1 (delta=1: one call later) after a known number of keys"""
        kg = KeyGen(rng)
        P = rng.randint(1000, 3000)          # plen
        S = rng.randint(50, 500)             # slen
        na = rng.randint(0, 12)
        delta = self._exact_k % 3
        self._exact_k += 1
        target = 1048576 - delta
        fixed = 78 + (S + P) * na
        nf, np_, r = 1, 0, 0
        for nf in (rng.choice([1, 2, 3, 4, 5]), 1):
            np_ = (target - fixed - 18 * nf) // (26 + P)
            for _ in range(8):
                r = target - fixed - (26 + P) * np_          # = nf * (16 + flen)
                if r % nf == 0 and r // nf >= 18:
                    break
                np_ -= 1
            else:
                continue
            break
        fname = kg.rand(1, 1, LETTERS) * (r // nf - 17)     # strlen + 1 = flen = r/nf - 16
        key0 = b"K" + kg.rand(1, 1, LETTERS) * (P - 2)
        small = kg.many(np_ + 4)
        ops = ["new", "addfile name=%s fmt=1" % hx(fname)] + ["addfile name=%s fmt=%d" % (hx(b"f%d" % i), i) for i in range(1, nf)] + [
               "maxram m=1", "addkey k=%s fh=0 r=1 d=2 L=3" % hx(key0)]
        for i in range(na):
            a = (b"A%d_" % i) + b"a" * (S - 1 - len(b"A%d_" % i)) if i == 0 else b"A%d" % i
            ops.append("addalias a=%s k=%s" % (hx(a), hx(key0)))
        for i, k in enumerate(small):
            ops.append("addkey k=%s fh=0 r=%d d=%d L=%d" % (hx(k), off(rng), off(rng), off(rng)))
            if i >= np_ - 4:
                ops.append("isext")
        ops += ["write", "open", "find k=%s" % hx(key0), "find k=%s" % hx(small[0]), "find k=%s" % hx(small[-1]), "find k=%s" % hx(key0 + b"x"),
                "findnum i=0", "findnum i=%d" % (np_ + 4), "findnum i=%d" % (np_ + 5), "close"]
        return {"name": name, "ops": ops, "sticky": 1}

    def gen_malformed(self, rng, name):
        """a small valid image with one header field damaged / truncated: esl_ssi_Open's failure cases"""
        import struct
        kg = KeyGen(rng, 12)
        nfiles = rng.randint(1, 3)
        files = [(kg.rand(1, 9, LETTERS + b"/."), rng.randrange(0, 100)) for _ in range(nfiles)]
        pk = {k: (rng.randrange(nfiles), off(rng), off(rng), off(rng)) for k in kg.many(rng.randint(0, 5))}
        al = {a: rng.choice(sorted(pk)) for a in kg.many(rng.randint(0, 3))} if pk else {}
        img = bytearray(ssi_image(files, {0: (61, 60)} if rng.random() < 0.5 else {}, pk, al))
        flen = struct.unpack(">I", img[30:34])[0]
        frec = struct.unpack(">I", img[42:46])[0]
        ops = ["new"]
        def put(fmt, at, v):
            b = bytearray(img); b[at:at + struct.calcsize(fmt)] = struct.pack(fmt, v); return bytes(b)
        variants = [bytes(img)]
        for _ in range(14):
            r = rng.random()
            if r < 0.25:
                variants.append(bytes(img[:rng.choice([0, 1, 3, 4, 7, 8, 11, 12, 13, 14, 21, 22, 29, 30, 33, 37, 41, 45, 49, 53, 54, 61, 62, 69, 70, 77, 78,
                                                       78 + flen - 1, 78 + flen, 78 + flen + 3, 78 + flen + 15, 78 + frec - 1, 78 + frec, len(img) - 1,
                                                       rng.randrange(0, len(img) + 1)])]))
            elif r < 0.35:
                variants.append(put(">I", 0, rng.choice([0xb3c9d3d3, 0xd3d3c9b2, 0, 0xffffffff, 0xd3d3c9b3 ^ (1 << rng.randrange(32))])))
            elif r < 0.47:
                variants.append(put(">I", 8, rng.choice([0, 1, 4, 4, 7, 9, 16, 0xffffffff, 0x08000000])))
            elif r < 0.57:
                variants.append(put(">H", 12, rng.choice([0, 1, nfiles + 1, nfiles + 2, 255, 65535])))
            elif r < 0.67:
                variants.append(put(">I", 30, rng.choice([0, 1, max(0, flen - 1), flen + 1, flen + 16, 1000])))
            elif r < 0.77:
                variants.append(put(">I", 42, rng.choice([0, 1, frec - 1, frec + 1, 2 * frec, 0xffffffff, 0x80000000])))
            elif r < 0.87:
                variants.append(put(">Q", 54, rng.choice([0, 1, 77, 79, len(img) - 1, len(img), len(img) + 5, 2**31, 2**32, 2**62])))
            else:
                b = bytearray(img)
                at = rng.choice(list(range(0, 30)) + [33, 34, 35, 36, 37, 38, 39, 40, 41, 45] + list(range(46, 54)) + [60, 61] + list(range(62, 78)))
                b[at] ^= 1 << rng.randrange(8)
                variants.append(bytes(b))
        for v in variants:
            ops.append("openraw hex=%s" % hx(v))
            ops.append("fileinfo fh=0")
            ops.append("close")
        return {"name": name, "ops": ops, "sticky": 1}

    @staticmethod
    def _corrupt_safe(b):
        """Can the lookups be called on this image?  The only outcome of the model that the C code cannot answer with a
        status is `nohalt` (unbounded alias -> alias recursion): images whose alias records form a cycle are not used
        (acyclic chains are: the model's fuel of 100000 levels is never reached). Unterminated key/name fields, file handles >= nfiles and
        rpl = 0 are answered with a status since the damaged-index repair. Returns None (do not use the image) or True."""
        import struct
        if len(b) < 78:
            return True                           # Open fails: the lookups answer bad-op on both sides
        magic, flags, offsz = struct.unpack(">III", bytes(b[:12]))
        if magic != 0xd3d3c9b3 or offsz != 8:
            return None
        nfiles, np_, ns_, flen, plen, slen, frec, prec, srec, foff, poff, soff = struct.unpack(">HQQIIIIIIQQQ", bytes(b[12:78]))
        def off_ok(o):      # small, or a negative off_t far from both wrap-around points (base + recsize*mid is unsigned 64-bit arithmetic:
            return o < 2**40 or 2**63 <= o < 2**64 - 2**40      # no UB; just below 2^63 the signed sum in FindNumber would overflow)
        if np_ > 3000 or ns_ > 3000 or nfiles > 64 or foff >= 2**40 or not off_ok(poff) or not off_ok(soff) or max(flen, plen, slen) > 4096:
            return None
        if (poff >= 2**40 and plen == 0) or (soff >= 2**40 and slen == 0):
            return None                           # a zero-width read at an unseekable offset: fseeko fails, the model's empty read does not
        def cs(o, n):
            x = bytes(b[o:o + n]); return x.split(b"\0")[0]
        # alias -> target edges of every readable secondary record; a CYCLE could make esl_ssi_FindName recurse without end
        # (acyclic alias -> alias chains are fine: the recursion just goes one level deeper per link)
        edges = {}
        for j in range(ns_):
            o = soff + srec * j
            if o + slen + plen <= len(b):
                edges.setdefault(cs(o, slen), set()).add(cs(o + slen, plen))
        state = {}
        def cyclic(a):
            if state.get(a) == 1: return True
            if state.get(a) == 2: return False
            state[a] = 1
            for t in edges.get(a, ()):
                if t in edges and cyclic(t): return True
            state[a] = 2
            return False
        if any(cyclic(a) for a in list(edges)):
            return None
        return True

    def gen_corrupt(self, rng, name):
        """Open + Find* on TRUNCATED / CORRUPTED / UNSORTED indices (theorems `findName_any_index`, `findName_no_fault`,
        `findNumber_any_index`, `fileInfo_any_index`, `open_any_bytes`): a small valid image is damaged in its key sections,
        counts, widths or offsets, loses field terminators, or is cut anywhere; only images whose alias records form a cycle
        are filtered out (`_corrupt_safe`); every lookup is compared exactly with the model, under ASan/UBSan"""
        import struct
        kg = KeyGen(rng, 16)
        nfiles = rng.randint(1, 3)
        files = [(kg.rand(1, 9, LETTERS + b"/."), rng.randrange(0, 100)) for _ in range(nfiles)]
        pk = {k: (rng.randrange(nfiles), off(rng), off(rng), off(rng)) for k in kg.many(rng.randint(1, 14))}
        al = {a: rng.choice(sorted(pk)) for a in kg.many(rng.randint(0, 7))}
        img = bytearray(ssi_image(files, {0: (61, 60)} if rng.random() < 0.5 else {}, pk, al))
        nf, np_, ns_, flen, plen, slen, frec, prec, srec, foff, poff, soff = struct.unpack(">HQQIIIIIIQQQ", bytes(img[12:78]))
        absent = [k + b"!" for k in list(pk)[:2]] + [k[:-1] for k in list(pk)[:2] if len(k) > 1] + [b"zz-absent", b"!", b"~~~"]
        probes = sorted(pk) + sorted(al) + absent
        def put(b, fmt, at, v):
            b[at:at + struct.calcsize(fmt)] = struct.pack(fmt, v)
        def prec_(b, j): return bytes(b[poff + prec * j:poff + prec * (j + 1)])
        def srec_(b, j): return bytes(b[soff + srec * j:soff + srec * (j + 1)])
        ops = ["new"]
        made = 0
        for _ in range(30):
            if made >= 7:
                break
            b = bytearray(img)
            kind = rng.choice(["trunc", "trunc", "swapP", "revP", "dupP", "rotP", "swapS", "revS", "dupS", "countP", "countS", "poff", "soff",
                               "keybyte", "target", "widths", "fh", "geom", "zerofill", "garbage-tail", "unterm", "unterm", "zerowidth", "chain", "poff", "soff"])
            if kind == "trunc":
                cut = rng.choice([poff, poff + 1, poff + plen - 1, poff + plen, poff + plen + 1, poff + plen + 2, poff + plen + 10, poff + prec - 1, poff + prec,
                                  soff - 1, soff, soff + 1, soff + slen - 1, soff + slen, soff + slen + plen - 1, len(b) - 1, len(b) - plen,
                                  rng.randrange(foff + nf * frec, len(b) + 1), rng.randrange(0, len(b) + 1)])
                b = b[:max(0, min(cut, len(b)))]
            elif kind in ("swapP", "dupP") and np_ >= 2:
                i, j = rng.sample(range(np_), 2)
                ri, rj = prec_(b, i), prec_(b, j)
                b[poff + prec * j:poff + prec * (j + 1)] = ri
                if kind == "swapP": b[poff + prec * i:poff + prec * (i + 1)] = rj
            elif kind == "revP" and np_ >= 2:
                recs = [prec_(b, j) for j in range(np_)][::-1]
                b[poff:poff + prec * np_] = b"".join(recs)
            elif kind == "rotP" and np_ >= 2:
                recs = [prec_(b, j) for j in range(np_)]; r = rng.randrange(1, np_)
                b[poff:poff + prec * np_] = b"".join(recs[r:] + recs[:r])
            elif kind in ("swapS", "dupS") and ns_ >= 2:
                i, j = rng.sample(range(ns_), 2)
                ri, rj = srec_(b, i), srec_(b, j)
                b[soff + srec * j:soff + srec * (j + 1)] = ri
                if kind == "swapS": b[soff + srec * i:soff + srec * (i + 1)] = rj
            elif kind == "revS" and ns_ >= 2:
                recs = [srec_(b, j) for j in range(ns_)][::-1]
                b[soff:soff + srec * ns_] = b"".join(recs)
            elif kind == "countP":
                put(b, ">Q", 14, rng.choice([0, max(0, np_ - 1), np_ + 1, np_ + 2, np_ + ns_, np_ + 50, 1]))
            elif kind == "countS":
                put(b, ">Q", 22, rng.choice([0, max(0, ns_ - 1), ns_ + 1, ns_ + 3, ns_ + 40, 1]))
            elif kind == "poff":
                put(b, ">Q", 62, rng.choice([max(0, poff + rng.choice([-prec, -1, 1, plen, prec, 2 * prec, len(b), 7])),
                                             2**63, 2**63 + poff, 2**63 + 2**40, 2**64 - 2**41, 2**40 - 1, len(b), len(b) - 1]))      # incl. negative off_t
            elif kind == "soff":
                put(b, ">Q", 70, rng.choice([max(0, soff + rng.choice([-srec if srec else -1, -1, 1, slen, srec, len(b), -prec])),
                                             2**63, 2**63 + soff, 2**64 - 2**41, 2**40 - 1, len(b)]))
            elif kind == "keybyte" and np_:
                j = rng.randrange(np_); k = sorted(pk)[j]
                at = poff + prec * j + rng.randrange(len(k))
                b[at] = rng.choice(ALLPRINT)
            elif kind == "target" and ns_:
                j = rng.randrange(ns_)
                t = rng.choice([b"no-such-key", sorted(pk)[0][:-1] or b"q", sorted(al)[0], sorted(pk)[-1], b""])[:max(0, plen - 1)]
                b[soff + srec * j + slen:soff + srec * j + slen + plen] = t.ljust(plen, b"\0")
            elif kind == "chain" and ns_ >= 2:
                # alias -> alias -> (alias ->) primary key: esl_ssi_FindName follows the chain by recursion
                js = rng.sample(range(ns_), min(ns_, rng.choice([2, 3])))
                als = sorted(al)
                for x, y in zip(js, js[1:]):
                    t = als[y][:max(0, plen - 1)]
                    b[soff + srec * x + slen:soff + srec * x + slen + plen] = t.ljust(plen, b"\0")
            elif kind == "widths":
                at, v = rng.choice([(34, plen), (38, slen), (46, prec), (50, srec), (30, flen), (42, frec)])
                put(b, ">I", at, max(0, v + rng.choice([-1, 1, 2, -2])))
            elif kind == "fh" and np_:
                j = rng.randrange(np_)
                put(b, ">H", poff + prec * j + plen, rng.choice([nf, nf + 1, 65535, 0]))
            elif kind == "geom":
                put(b, ">I", foff + flen + 4, rng.choice([0, 1, 3]))        # flags of file 0
                put(b, ">I", foff + flen + 12, rng.choice([0, 1, 60]))      # rpl of file 0
            elif kind == "zerofill" and np_:
                j = rng.randrange(np_)
                b[poff + prec * j:poff + prec * j + plen] = b"\0" * plen     # an empty key in the middle of the section
            elif kind == "unterm":
                # a key / alias / alias-target / file-name field loses its terminator(s): every NUL of the field becomes a letter
                which = rng.choice(["P", "S", "T", "F"])
                if which == "P" and np_:
                    o, n = poff + prec * rng.randrange(np_), plen
                elif which == "S" and ns_:
                    o, n = soff + srec * rng.randrange(ns_), slen
                elif which == "T" and ns_:
                    o, n = soff + srec * rng.randrange(ns_) + slen, plen
                else:
                    o, n = foff + frec * rng.randrange(nf), flen
                for x in range(o, o + n):
                    if b[x] == 0: b[x] = rng.choice(LETTERS)
            elif kind == "zerowidth":
                put(b, ">I", rng.choice([30, 34, 38]), 0)                  # flen / plen / slen = 0
            elif kind == "garbage-tail":
                b += bytes(rng.choice(ALLPRINT + b"\0") for _ in range(rng.randint(1, 40)))
            else:
                continue
            if self._corrupt_safe(b) is None:
                continue
            made += 1
            ops.append("openraw hex=%s" % hx(bytes(b)))
            look = ["find k=%s" % hx(p) for p in probes] + ["findq k=%s" % hx(p) for p in probes[:3]]
            look += ["findnum i=%d" % i for i in list(range(-1, np_ + 3)) + [np_ + ns_, np_ + 50, 2**63 - 1, -2**63]]
            look += ["fileinfo fh=%d" % fh for fh in range(nf + 2)]
            for k in (sorted(pk)[:3] + sorted(al)[:2]):
                for st in (0, 1, 2, 61, 120, pk[k][3] if k in pk else 5, 2**63 - 1):
                    if st <= 2**63 - 1:
                        look.append("subseq k=%s start=%d" % (hx(k), st))
            if rng.random() < 0.5:
                rng.shuffle(look)
            ops += look + ["close"]
        return {"name": name, "ops": ops, "sticky": 1}

    def gen_shapes(self, rng, name, k):
        """boundary shapes the property's quantifier names, one family per k:
        0 file names that grow by one character from one AddFile to the next (reads_9.fa, reads_10.fa; with and without directories);
        1 the same file registered twice / same tail under different directories (AddFile does not check: two handles, two records);
        2 external sort whose tmp-file lines are >= 255 bytes while most are short (first long line of the sorted file already >= 255);
        3 exactly 15/16/17/31/32/33 files (reallocation chunk eslSSI_FCHUNK = 16) with keys in the last ones;
        4 keys and aliases whose lengths are plen-2..plen (one longest key), probes of length plen-1, plen, plen+1"""
        kg = KeyGen(rng)
        files, keys, aliases, subseq = [], [], [], []
        fam = k % 5
        if fam == 0:
            stem = kg.rand(1, 6, LETTERS) + rng.choice([b"_", b".", b""])
            d = rng.choice([b"", b"", b"data/", b"/a/b/"])
            start = rng.choice([8, 9, 98, 99, 998])
            files = [(d + stem + str(start + i).encode() + b".fa", i) for i in range(rng.randint(2, 6))]
            if rng.random() < 0.5:
                files.reverse()                                  # ... or shrinking by one
        elif fam == 1:
            nm = kg.rand(1, 10, LETTERS) + b".fa"
            files = [(nm, 1), (nm, 2), (b"x/" + nm, 3), (b"y/z/" + nm, 4), (nm + b"/", 5), (nm, 1)][:rng.randint(2, 6)]
        elif fam == 2:
            files = [(b"f.fa", 1), (b"g.fa", 2)]
        elif fam == 3:
            files = [(kg.rand(1, 12, LETTERS + b"/."), i) for i in range(rng.choice([15, 16, 17, 31, 32, 33, 47, 48, 49]))]
        else:
            files = [(b"f", 0)]
        nfiles = len(files)
        if fam == 2:
            c = kg.rand(1, 1, LETTERS)
            pre = rng.choice([b"!", b"~", c])                    # the long keys sort first / last / in the middle
            longk = [pre + bytes([rng.choice(LETTERS)]) * rng.choice([196, 197, 198]) + kg.rand(1, 1) for _ in range(rng.randint(1, 3))]
            shortk = kg.many(rng.randint(0, 8))
            kl = [x for x in dict.fromkeys(longk + [s_ for s_ in shortk if len(s_) < 30])]
            keys = [(x, rng.randrange(nfiles), 2**63 - 1 - rng.randrange(3), 2**62 + rng.randrange(9), 2**63 - 1) if len(x) > 100 else
                    (x, rng.randrange(nfiles), off(rng), off(rng), off(rng)) for x in kl]
            rng.shuffle(keys)
            la = [b"A" + x[1:] for x in longk if b"A" + x[1:] not in kl][:2]
            aliases = [(a, rng.choice(longk)) for a in la] + [(a, rng.choice(kl)) for a in kg.many(rng.randint(0, 3)) if a not in kl and len(a) < 30]
        elif fam == 4:
            P = rng.choice([2, 3, 17, 128, 129, 200])
            c = kg.rand(1, 1, LETTERS)
            cand = [c * (P - 1), c * (P - 2), c * (P - 3), c * (P - 2) + b"!", (c * (P - 1))[:-1] + b"~"]
            kl = [x for x in dict.fromkeys(cand) if x]
            keys = [(x, 0, off(rng), off(rng), off(rng)) for x in kl]
            rng.shuffle(keys)
            S = rng.choice([2, 3, 64, 127, 128, 201])
            e = kg.rand(1, 1, DIGITS)
            acand = [e * (S - 1), e * (S - 2), e * (S - 1) + b"x"][:rng.randint(0, 3)]
            aliases = [(a, rng.choice(kl)) for a in dict.fromkeys(acand) if a and a not in kl]
        else:
            kl = kg.many(rng.randint(1, 10))
            keys = [(x, (nfiles - 1 - i) % nfiles if i < 3 else rng.randrange(nfiles), off(rng), off(rng), off(rng)) for i, x in enumerate(kl)]
            aliases = [(a, rng.choice(kl)) for a in kg.many(rng.randint(0, 3))]
            subseq = [(fh, 61, 60) for fh in {nfiles - 1, 0, nfiles // 2}]
        merged = self._merge(rng, keys, aliases)
        n_adds = len(merged)
        ops = self._build_ops(files, merged, None, subseq)
        ops += self._build_ops(files, merged, rng.choice([0, n_adds, rng.randint(0, n_adds)]), subseq)
        ops.append("open")
        stored = [x[0] for x in keys] + [a[0] for a in aliases]
        look = []
        for x in stored:
            look += ["find k=%s" % hx(p_) for p_ in (x, x + b"0", x + x[-1:], x[:-1], x + b"!")]
        look += ["findnum i=%d" % i for i in range(-1, len(keys) + 2)]
        look += ["fileinfo fh=%d" % fh for fh in list(range(nfiles)) + [nfiles, nfiles + 1, 65535]]
        for x in keys[:3]:
            look += ["subseq k=%s start=%d" % (hx(x[0]), st) for st in (1, 61, max(1, x[4])) if st <= 2**63 - 1]
        for a in aliases[:2]:
            look += ["subseq k=%s start=%d" % (hx(a[0]), st) for st in (0, 1, 60, 61, 62, 2**63 - 1)]
        ops += look + ["close"]
        return {"name": name, "ops": ops, "sticky": 1}

    def corpus(self, ctx):
        c = []
        # one-key index; probes below / above; prefixes
        c.append({"name": "onekey", "sticky": 1, "ops": [
            "new", "addfile name=%s fmt=1" % hx(b"dir/f.fa"), "addkey k=%s fh=0 r=9223372036854775807 d=4294967296 L=1" % hx(b"m"),
            "write", "open", "find k=%s" % hx(b"m"), "find k=%s" % hx(b"l"), "find k=%s" % hx(b"n"), "find k=%s" % hx(b"mm"), "find k=-",
            "findnum i=0", "findnum i=1", "findnum i=-1", "fileinfo fh=0", "fileinfo fh=1", "close"]})
        c.append({"name": "empty-index", "sticky": 1, "ops": [
            "new", "addfile name=%s fmt=0" % hx(b"x"), "write", "open", "find k=%s" % hx(b"a"), "findnum i=0", "fileinfo fh=0", "close"]})
        c.append({"name": "prefixes", "sticky": 1, "ops": [
            "new", "addfile name=%s fmt=3" % hx(b"a/b/c")] +
            ["addkey k=%s fh=0 r=%d d=%d L=%d" % (hx(k), i, i + 100, i + 7) for i, k in enumerate([b"abc", b"a", b"ab", b"ab!", b"ab~", b"abcd", b"b", b"B", b"!"])] +
            ["addalias a=%s k=%s" % (hx(b"zz"), hx(b"ab")), "addalias a=%s k=%s" % (hx(b"a!"), hx(b"b")), "write", "open"] +
            ["find k=%s" % hx(k) for k in [b"abc", b"a", b"ab", b"ab!", b"ab~", b"abcd", b"b", b"B", b"!", b"zz", b"a!", b"abd", b"abb", b"", b"z", b"zzz", b" ", b"ab "]] +
            ["findnum i=%d" % i for i in range(10)] + ["close"]})
        c.append({"name": "dup-primary", "sticky": 1, "ops": [
            "new", "addfile name=%s fmt=1" % hx(b"f"), "addkey k=%s fh=0 r=1 d=2 L=3" % hx(b"k1"), "addkey k=%s fh=0 r=4 d=5 L=6" % hx(b"k2"),
            "addkey k=%s fh=0 r=7 d=8 L=9" % hx(b"k1"), "write", "open"]})
        c.append({"name": "write-twice", "sticky": 1, "ops": [
            "new", "addfile name=%s fmt=1" % hx(b"f"), "addkey k=%s fh=0 r=1 d=2 L=3" % hx(b"k1"), "addalias a=%s k=%s" % (hx(b"al"), hx(b"k1")),
            "write twice=1", "open", "find k=%s" % hx(b"k1"), "find k=%s" % hx(b"al"), "close",
            "new", "addfile name=%s fmt=1" % hx(b"f"), "external", "addkey k=%s fh=0 r=1 d=2 L=3" % hx(b"k1"), "addkey k=%s fh=0 r=1 d=2 L=3" % hx(b"k2"),
            "write twice=1", "open", "find k=%s" % hx(b"k2"), "close",
            "new", "addfile name=%s fmt=1" % hx(b"f"), "addkey k=%s fh=0 r=1 d=2 L=3" % hx(b"k1"), "addkey k=%s fh=0 r=1 d=2 L=3" % hx(b"k1"),
            "write twice=1", "open"]})
        # hand-made alias -> alias chains (outside AddAlias's precondition): the recursion of esl_ssi_FindName is as deep as the chain
        # and answers with the direct lookup of the last link (theorem findName_chain_depth); depths 0..5, one chain ending nowhere
        chain_pk = {b"k1": (0, 11, 22, 33), b"k2": (0, 44, 55, 66)}
        chain_al = {b"a1": b"k1", b"a2": b"a1", b"a3": b"a2", b"a4": b"a3", b"a5": b"a4", b"b1": b"k9", b"b2": b"b1", b"z": b"k2"}
        c.append({"name": "alias-chains", "sticky": 1, "ops": ["new", "openraw hex=%s" % hx(ssi_image([(b"f", 1)], {0: (61, 60)}, chain_pk, chain_al))] +
                  ["find k=%s" % hx(k) for k in (b"k1", b"a1", b"a2", b"a3", b"a4", b"a5", b"b1", b"b2", b"z", b"k9", b"a6")] +
                  ["subseq k=%s start=%d" % (hx(k), st) for k in (b"a5", b"b2") for st in (1, 33, 34)] + ["findq k=%s" % hx(b"a5"), "close"]})
        c.append({"name": "dup-alias-external", "sticky": 1, "ops": [
            "new", "addfile name=%s fmt=1" % hx(b"f"), "addkey k=%s fh=0 r=1 d=2 L=3" % hx(b"k1"), "external", "addkey k=%s fh=0 r=4 d=5 L=6" % hx(b"k2"),
            "addalias a=%s k=%s" % (hx(b"al"), hx(b"k1")), "addalias a=%s k=%s" % (hx(b"al"), hx(b"k2")), "write", "open"]})
        # esl_newssi_Open's overwrite protection, Close without Write (files on disk afterwards)
        c.append({"name": "open-close-files", "sticky": 0, "ops": [
            "new ow=0 pre=0", "addfile name=%s fmt=1" % hx(b"f"), "addkey k=%s fh=0 r=1 d=2 L=3" % hx(b"k"), "closens",
            "new ow=0 pre=1", "new ow=0 pre=2", "new ow=0 pre=3", "new ow=1 pre=1", "addfile name=%s fmt=1" % hx(b"f"), "external",
            "addkey k=%s fh=0 r=1 d=2 L=3" % hx(b"k"), "closens",
            "new ow=1 pre=2", "addfile name=%s fmt=1" % hx(b"f"), "addkey k=%s fh=0 r=1 d=2 L=3" % hx(b"k"), "write", "open", "find k=%s" % hx(b"k"), "close",
            "new ow=1 pre=3", "addfile name=%s fmt=1" % hx(b"f"), "external", "addkey k=%s fh=0 r=1 d=2 L=3" % hx(b"k"), "addkey k=%s fh=0 r=1 d=2 L=3" % hx(b"k"), "write", "open"]})
        # sort(1) unavailable: the external path fails with eslESYS and removes the index; the in-memory path does not need it
        c.append({"name": "sort-unavailable", "sticky": 1, "ops": [
            "new", "addfile name=%s fmt=1" % hx(b"f"), "addkey k=%s fh=0 r=1 d=2 L=3" % hx(b"k1"), "maxram m=-1", "isext",
            "addkey k=%s fh=0 r=4 d=5 L=6" % hx(b"k2"), "isext", "maxram m=2048", "addalias a=%s k=%s" % (hx(b"al"), hx(b"k1")), "isext",
            "write nosort=1", "open",
            "new", "addfile name=%s fmt=1" % hx(b"f"), "addkey k=%s fh=0 r=1 d=2 L=3" % hx(b"k1"), "isext", "write nosort=1", "open",
            "find k=%s" % hx(b"k1"), "close"]})
        # argument checks of the Add* calls: rejected calls leave the index unchanged
        c.append({"name": "rejected-calls", "sticky": 1, "ops": [
            "new", "addfile name=%s fmt=2" % hx(b"p/q"), "setsubseq fh=1 bpl=61 rpl=60", "setsubseq fh=0 bpl=0 rpl=60", "setsubseq fh=0 bpl=61 rpl=0",
            "setsubseq fh=0 bpl=1 rpl=1", "setsubseq fh=0 bpl=4294967295 rpl=1", "setsubseq fh=0 bpl=61 rpl=60", "addkey k=%s fh=32767 r=1 d=2 L=3" % hx(b"bad"), "addkey k=%s fh=65535 r=1 d=2 L=3" % hx(b"bad2"),
            "addkey k=%s fh=0 r=10 d=20 L=130" % hx(b"good"), "external", "addkey k=%s fh=40000 r=1 d=2 L=3" % hx(b"bad3"),
            "addkey k=%s fh=0 r=11 d=0 L=5" % hx(b"good2"), "addalias a=%s k=%s" % (hx(b"al"), hx(b"good")), "write", "open",
            "find k=%s" % hx(b"bad"), "find k=%s" % hx(b"bad2"), "find k=%s" % hx(b"bad3"), "find k=%s" % hx(b"good"), "find k=%s" % hx(b"good2"), "find k=%s" % hx(b"al"),
            "subseq k=%s start=0" % hx(b"good"), "subseq k=%s start=-1" % hx(b"good"), "subseq k=%s start=1" % hx(b"good"), "subseq k=%s start=60" % hx(b"good"), "subseq k=%s start=61" % hx(b"good"), "subseq k=%s start=130" % hx(b"good"),
            "subseq k=%s start=131" % hx(b"good"), "subseq k=%s start=3" % hx(b"good2"), "subseq k=%s start=121" % hx(b"al"), "subseq k=%s start=1" % hx(b"nope"),
            "findnum i=0", "findnum i=1", "findnum i=2", "fileinfo fh=0", "close"]})
        # regression (was known finding C06:cross-class-duplicate, DESIGN §7 item 14): alias == primary key is a duplicate
        c.append({"name": "cross-class-duplicate", "sticky": 1, "ops": [
            "new", "addfile name=%s fmt=1" % hx(b"f"), "addkey k=%s fh=0 r=1 d=2 L=3" % hx(b"k1"), "addkey k=%s fh=0 r=4 d=5 L=6" % hx(b"k2"),
            "addalias a=%s k=%s" % (hx(b"k2"), hx(b"k1")), "write", "open", "find k=%s" % hx(b"k2"), "close"]})
        for nm, extat in (("first", 1), ("mid", 3), ("late", 8)):      # ... through the external sort, switched at different points; smallest / largest key
            ops = ["new", "addfile name=%s fmt=1" % hx(b"f"), "addkey k=%s fh=0 r=1 d=2 L=3" % hx(b"k1"), "addkey k=%s fh=0 r=4 d=5 L=6" % hx(b"k2"),
                   "addkey k=%s fh=0 r=7 d=8 L=9" % hx(b"k3"), "addalias a=%s k=%s" % (hx(b"a0"), hx(b"k3")),
                   "addalias a=%s k=%s" % (hx({"first": b"k1", "mid": b"k2", "late": b"k3"}[nm]), hx(b"k1")), "addalias a=%s k=%s" % (hx(b"z9"), hx(b"k3"))]
            ops.insert(extat + 1, "external")
            c.append({"name": "cross-class-duplicate-ext-" + nm, "sticky": 1, "ops": ops + ["isext", "write", "open"]})
        # aliases that are prefixes / extensions / neighbours of primary keys are NOT duplicates
        c.append({"name": "cross-class-near", "sticky": 1, "ops": [
            "new", "addfile name=%s fmt=1" % hx(b"f"), "addkey k=%s fh=0 r=1 d=2 L=3" % hx(b"k1"), "addkey k=%s fh=0 r=4 d=5 L=6" % hx(b"k2"),
            "addalias a=%s k=%s" % (hx(b"k"), hx(b"k1")), "addalias a=%s k=%s" % (hx(b"k11"), hx(b"k2")), "addalias a=%s k=%s" % (hx(b"k3"), hx(b"k2")),
            "addalias a=%s k=%s" % (hx(b"k0"), hx(b"k2")), "write", "external", "new", "addfile name=%s fmt=1" % hx(b"f"), "external",
            "addkey k=%s fh=0 r=1 d=2 L=3" % hx(b"k1"), "addkey k=%s fh=0 r=4 d=5 L=6" % hx(b"k2"),
            "addalias a=%s k=%s" % (hx(b"k"), hx(b"k1")), "addalias a=%s k=%s" % (hx(b"k11"), hx(b"k2")), "addalias a=%s k=%s" % (hx(b"k3"), hx(b"k2")),
            "addalias a=%s k=%s" % (hx(b"k0"), hx(b"k2")), "write", "open"] + ["find k=%s" % hx(k) for k in (b"k", b"k11", b"k3", b"k0", b"k1", b"k2", b"k12")] + ["close"]})
        return c

    _exact_k = 0
    _twice_rng = None

    def cases(self, ctx):
        rng = ctx.rng
        import random as _random
        self._twice_rng = _random.Random(rng.random())       # own stream: which builds call Write twice
        self._exact_k = 0
        quick = ctx.tier == "quick"
        out = []
        n = 900 if quick else 6000
        if os.environ.get("C06_CASES"):      # mutation sweeps use a smaller sample
            n = int(os.environ["C06_CASES"])
        self.stats = {"modes": {}, "nkeys": [], "nalias": [], "nfiles": [], "ops": 0}
        for c in range(n):
            r = rng.random()
            nfiles = rng.choice([1, 1, 2, 3, 15, 16, 17, 31, 32, 33, 40, rng.randint(1, 40)])
            if rng.random() < 0.01:
                nfiles = rng.choice([255, 256, 257, 300])     # beyond the property's 40 files: exercises both bytes of the 16-bit fields
            if r < 0.08:
                nkeys = rng.choice([0, 1, 2])
            elif r < 0.75:
                nkeys = rng.randint(1, 40 if quick else 120)
            elif r < 0.985:
                nkeys = rng.randint(40, 300 if quick else 1000)
            else:
                nkeys = rng.randint(600, 2000) if quick else rng.randint(2000, 5000)
            if rng.random() < 0.06:
                nkeys = rng.choice([127, 128, 129, 255, 256, 257, 383, 384, 385])      # reallocation chunk boundaries (eslSSI_KCHUNK = 128)
            nalias = 0 if rng.random() < 0.25 else rng.randint(0, max(1, nkeys if rng.random() < 0.7 else nkeys // 4))
            if not quick and r >= 0.985 and rng.random() < 0.5:
                nalias = rng.randint(1000, 5000)
            if rng.random() < 0.04 and nkeys > 0:
                nalias = rng.choice([127, 128, 129, 256, 257])
            m = rng.random()
            mode = "both" if m < 0.45 else "ext" if m < 0.6 else "int" if m < 0.78 else "dupP" if m < 0.86 else "dupA" if m < 0.93 else "dupX"
            if nkeys == 0 and mode in ("dupP", "dupA", "dupX"):
                mode = "both"
            case = self.gen_case(rng, "gen%d-%s" % (c, mode), nfiles, nkeys, nalias, mode,
                                 probe_limit=40 if nkeys > 100 else 80)
            out.append(case)
            st = self.stats
            st["modes"][mode] = st["modes"].get(mode, 0) + 1
            st["nkeys"].append(nkeys); st["nalias"].append(nalias); st["nfiles"].append(nfiles); st["ops"] += len(case["ops"])
        for c in range(40 if quick else 400):
            out.append(self.gen_malformed(rng, "malformed%d" % c))
        for c in range(40 if quick else 400):
            out.append(self.gen_corrupt(rng, "corrupt%d" % c))
        for c in range(20 if quick else 200):
            out.append(self.gen_shapes(rng, "shape%d-%d" % (c % 5, c), c))
        for c in range(5 if quick else 50):
            out.append(self.gen_auto(rng, "autoswitch%d" % c))
        for c in range(6 if quick else 45):
            out.append(self.gen_exact(rng, "autoswitch-exact%d" % c))
        self.stats["autoswitch"] = sum(1 for c in out if c["name"].startswith("autoswitch"))
        self.stats["malformed"] = sum(1 for c in out if c["name"].startswith("malformed"))
        self.stats["corrupt"] = sum(sum(1 for o in c["ops"] if o.startswith("openraw")) for c in out if c["name"].startswith("corrupt"))
        return out

    # ------------------------------------------------------------------ oracle on the implementation's output
    def nontrivial(self, case, out):
        return any(l.startswith("ok file=1") for l in out) and any(l.startswith("ok fh=") for l in out)

    def canonical(self, line):
        if line.startswith("fault"):
            return "fault"
        return line

    def monitor(self, ctx, case, out):
        """The property, stated on what the library returned (independent of the Lean model)."""
        files, subseq, pk, al = [], {}, [], []
        files_full = []
        ext = False
        pretmp = False
        sim = {"flen": 0, "plen": 0, "slen": 0, "maxram": 2048, "ext": False}
        def size_mb():
            return (78 + (16 + sim["flen"]) * len(files) + (26 + sim["plen"]) * len(pk) + (sim["slen"] + sim["plen"]) * len(al)) // 1048576
        cur = None           # what the index on disk should contain: dict or None
        isopen = None
        hashes = []          # (signature of contents, n, h)
        def fail(what, key=None):
            return Failure("monitor", what, key=key)
        for op, l in zip(case["ops"], out):
            if l.startswith(("fault", "atexit", "skipped-after")):
                return None     # reported by the engine as a fault (or the watchdog gave up after repeated hangs)
            name, a = kv(op)
            st = l.split()[0] if l else ""
            if name != "new" and st == "bad-op":
                return None         # ill-formed history
            if name == "new":
                sim = {"flen": 0, "plen": 0, "slen": 0, "maxram": 2048, "ext": False}
                files, subseq, pk, al, ext = [], {}, [], [], False
                files_full = []
                cur = None
                pre = int(a.get("pre", "0")); ow = int(a.get("ow", "1"))
                pretmp = pre in (2, 3)
                if ow == 0 and pre != 0:
                    exp = "eoverwrite file=%d n=%d tmp=%d" % (1 if pre == 1 else 0, 3 if pre == 1 else 0, 1 if pretmp else 0)
                    if l != exp: return fail("esl_newssi_Open(allow_overwrite=FALSE) over existing files answered %r, expected %r" % (l, exp))
                    continue
                if st != "ok": return fail("esl_newssi_Open returned %s" % st)
                if "ow" in a and l != "ok file=1 n=0 tmp=%d" % (1 if pretmp else 0):
                    return fail("esl_newssi_Open answered %r" % l)
            elif name == "closens":
                f = dict(x.split("=", 1) for x in l.split()[1:] if "=" in x)
                if st != "ok" or f.get("file") != "1" or f.get("n") != "0":
                    return fail("Close without Write: %r (the created index file should still be there, empty)" % l)
                if f.get("tmp") != "0" and not pretmp:
                    return fail("Close without Write left tmp files of the external sort behind")
            elif name == "addfile":
                nm = unhx(a["name"])
                if l != "ok fh=%d" % len(files): return fail("AddFile #%d answered %r" % (len(files), l))
                sim["flen"] = max(sim["flen"], len(nm) + 1)
                files.append((nm.split(b"/")[-1], int(a["fmt"])))
                files_full.append((nm, int(a["fmt"])))
            elif name == "setsubseq":
                if int(a["fh"]) >= len(files) or int(a["bpl"]) == 0 or int(a["rpl"]) == 0:
                    if st != "einval": return fail("SetSubseq with an invalid argument answered %r" % l)
                    continue
                if st != "ok": return fail("SetSubseq answered %r" % l)
                subseq[int(a["fh"])] = (int(a["bpl"]), int(a["rpl"]))
            elif name == "addkey":
                if int(a["fh"]) >= 32767:
                    if st != "einval": return fail("AddKey with an invalid file handle answered %r" % l)
                    continue
                if int(a["fh"]) >= len(files): return None      # unregistered handle: outside AddKey's precondition
                if st != "ok": return fail("AddKey answered %r" % l)
                if not sim["ext"] and size_mb() >= sim["maxram"]: sim["ext"] = True
                sim["plen"] = max(sim["plen"], len(unhx(a["k"])) + 1)
                pk.append((unhx(a["k"]), int(a["fh"]), int(a["r"]), int(a["d"]), int(a["L"])))
            elif name == "addalias":
                if st != "ok": return fail("AddAlias answered %r" % l)
                if not sim["ext"] and size_mb() >= sim["maxram"]: sim["ext"] = True
                sim["slen"] = max(sim["slen"], len(unhx(a["a"])) + 1)
                al.append((unhx(a["a"]), unhx(a["k"])))
            elif name == "external":
                ext = True
                sim["maxram"] = 0
            elif name == "maxram":
                sim["maxram"] = int(a["m"])
                ext = True
            elif name == "isext":
                exp = "ok ext=%d" % (1 if sim["ext"] else 0)
                if l != exp:
                    return fail("after %d keys and %d aliases (size %d MB, max_ram %d) the index reports %r, expected %r: the switch to the external sort "
                                "must happen exactly when current_newssi_size() >= max_ram at the start of an Add call" % (len(pk), len(al), size_mb(), sim["maxram"], l, exp))
            elif name == "write":
                f = dict(x.split("=", 1) for x in l.split()[1:] if "=" in x)
                pks = [k[0] for k in pk]; als = [x[0] for x in al]
                dup = len(set(pks + als)) != len(pks) + len(als)      # ALL keys distinct: an alias equal to a primary key is a duplicate too
                if f.get("tmp") != "0" and not pretmp:
                    return fail("tmp files of the external sort left behind after Write+Close")
                if a.get("twice") == "1" and f.get("again") != "einval":
                    return fail("a second esl_newssi_Write on the same ESL_NEWSSI answered %r (documented: eslEINVAL, nothing touched)" % f.get("again"))
                if a.get("nosort") == "1" and sim["ext"] and files:
                    if st != "esys" or f.get("file") != "0":
                        return fail("Write with sort(1) unavailable answered %r (expected esys and no index file)" % l[:80])
                    cur = None
                    continue
                if not files:
                    cur = None          # an index without files is outside the property (1..40 files)
                    continue
                if dup:
                    if st != "edup": return fail("Write of an index with duplicate keys returned %s (expected edup)" % st)
                    if f.get("file") != "0": return fail("Write failed with edup but left an index file behind")
                    cur = None
                else:
                    if st != "ok": return fail("Write of an index with distinct keys returned %s" % st)
                    if f.get("file") != "1": return fail("Write returned ok but there is no index file")
                    cur = {"files": list(files), "files_full": list(files_full), "subseq": dict(subseq), "pk": {k[0]: k[1:] for k in pk},
                           "al": dict(al), "sorted": sorted(pks)}
                    sig = (tuple(files), tuple(sorted(subseq.items())), tuple(sorted(pk)), tuple(sorted(al)))
                    for s2, n2, h2, e2 in hashes:
                        if s2 == sig and (n2, h2) != (f.get("n"), f.get("h")):
                            return fail("same index contents gave different index bytes (external=%s vs external=%s): n=%s h=%s vs n=%s h=%s"
                                        % (e2, ext, n2, h2, f.get("n"), f.get("h")))
                    hashes.append((sig, f.get("n"), f.get("h"), ext))
                    if cur is not None and int(f.get("n", "0")) <= 300000:
                        exp = self.expected_bytes(cur)
                        if "hex" in f:
                            if unhx(f["hex"]) != exp:
                                return fail("index bytes differ from the documented SSI layout")
                        elif (str(len(exp)), "%016x" % fnv64(exp)) != (f.get("n"), f.get("h")):
                            return fail("index bytes differ from the documented SSI layout (n=%s h=%s, expected n=%d h=%016x)"
                                        % (f.get("n"), f.get("h"), len(exp), fnv64(exp)))
            elif name == "openraw":
                isopen = None       # malformed-index stream: only model = implementation is checked
                cur = None
            elif name == "open":
                if cur is None:
                    if st == "ok": return fail("Open succeeded although no index file should exist")
                    isopen = None
                else:
                    if st != "ok": return fail("Open of a freshly written index returned %s" % st)
                    f = dict(x.split("=", 1) for x in l.split()[1:] if "=" in x)
                    if int(f["nprimary"]) != len(cur["pk"]) or int(f["nsecondary"]) != len(cur["al"]) or int(f["nfiles"]) != len(cur["files"]):
                        return fail("reopened index reports counts %s" % l)
                    isopen = cur
            elif name == "close":
                isopen = None
            elif isopen is None:
                continue
            elif name == "findnumq":
                i = int(a["i"])
                exp = "ok" if 0 <= i < len(isopen["sorted"]) else "enotfound"
                if l != exp: return fail("FindNumber(%d) with no result pointers returned %r, expected %r" % (i, l, exp))
            elif name == "findq":
                k = unhx(a["k"])
                tgt = isopen["pk"].get(k)
                if tgt is None and k in isopen["al"]:
                    if isopen["al"][k] not in isopen["pk"]: continue
                    tgt = isopen["pk"][isopen["al"][k]]
                exp = "enotfound" if tgt is None else "ok fh=%d r=%d" % tgt[:2]
                if l != exp: return fail("FindName(%r) without optional results returned %r, stored: %r" % (k, l, exp))
            elif name in ("find", "subseq"):
                k = unhx(a["k"])
                tgt = None
                if k in isopen["pk"]:
                    tgt = isopen["pk"][k]
                elif k in isopen["al"]:
                    if isopen["al"][k] not in isopen["pk"]:
                        continue        # outside AddAlias's precondition
                    tgt = isopen["pk"][isopen["al"][k]]
                if name == "find":
                    exp = "enotfound" if tgt is None else "ok fh=%d r=%d d=%d L=%d" % tgt
                    if l != exp: return fail("FindName(%r) returned %r, stored: %r" % (k, l, exp))
                else:
                    s = int(a["start"])
                    if tgt is None: exp = "enotfound"
                    elif s < 1 or s > tgt[3]: exp = "erange"
                    else:
                        fh, r, d, L = tgt
                        bpl, rpl = isopen["subseq"].get(fh, (0, 0))
                        if d == 0 or not (bpl > 0 and rpl > 0): nd, act = d, 1
                        else:
                            ln = (s - 1) // rpl
                            if bpl == rpl + 1: nd, act = d + ln * bpl + (s - 1) % rpl, s
                            else: nd, act = d + ln * bpl, 1 + ln * rpl
                        if nd >= 2**63: continue      # offset arithmetic leaves off_t: not specified
                        exp = "ok fh=%d r=%d d=%d L=%d actual=%d" % (fh, r, nd, L, act)
                    if l != exp: return fail("FindSubseq(%r,%d) returned %r, expected %r" % (k, s, l, exp))
            elif name == "findnum":
                i = int(a["i"])
                if 0 <= i < len(isopen["sorted"]):
                    k = isopen["sorted"][i]
                    exp = "ok fh=%d r=%d d=%d L=%d" % isopen["pk"][k] + " key=%s" % hx(k)
                else:
                    exp = "enotfound"
                if l != exp: return fail("FindNumber(%d) returned %r, expected %r" % (i, l, exp))
            elif name == "fileinfo":
                fh = int(a["fh"])
                if fh < len(isopen["files"]):
                    nm, fmt = isopen["files"][fh]
                    bpl, rpl = isopen["subseq"].get(fh, (0, 0))
                    exp = "ok name=%s fmt=%d flags=%d bpl=%d rpl=%d" % (hx(nm), fmt, 1 if bpl > 0 and rpl > 0 else 0, bpl, rpl)
                else:
                    exp = "einval"
                if l != exp: return fail("FileInfo(%d) returned %r, expected %r" % (fh, l, exp))
        return None

    def expected_bytes(self, cur):
        """documented SSI v3 layout (independent re-implementation in Python, used by the monitor on small indices)"""
        return ssi_image(cur["files_full"], cur["subseq"], cur["pk"], cur["al"])

    def extra_evidence(self, ctx):
        st = getattr(self, "stats", None)
        if not st:
            return {}
        def q(v):
            v = sorted(v)
            return {"min": v[0], "median": v[len(v) // 2], "p95": v[int(len(v) * 0.95)], "max": v[-1]} if v else {}
        return {"input_distribution": {"build_modes": st["modes"], "primary_keys_per_index": q(st["nkeys"]), "aliases_per_index": q(st["nalias"]),
                                       "files_per_index": q(st["nfiles"]), "total_ops": st["ops"],
                                       "malformed_index_cases": st.get("malformed", 0), "corrupt_or_truncated_images_with_lookups": st.get("corrupt", 0), "automatic_switch_cases": st.get("autoswitch", 0),
                                       "key_families": "independent / shared prefix / prefix chain / last-byte variants / punctuation around TAB-space / lengths 198-200",
                                       "offsets": "boundary values 0,1,2^31-1,2^31,2^32-1,2^32,2^53,2^62,2^63-1 + uniform 63-bit + small"}}


SPEC = C06()
