"""C09 — random number streams. Model: lean/EaselModel/Random/*, theorems: Props/C09.lean, harness: h_random.c"""
import struct
from vlib.engine import Prop, Failure
from translate import rand_tables

def f32bits(x):
    return "%08x" % struct.unpack("<I", struct.pack("<f", x))[0]

def f32round(x):
    return struct.unpack("<f", struct.pack("<f", x))[0]

def temper(y):
    y ^= y >> 11; y ^= (y << 7) & 0x9d2c5680; y ^= (y << 15) & 0xefc60000; y ^= y >> 18
    return y & 0xffffffff

def untemper(y):
    """raw table word w with temper(w) == y (used with the pokeraw test hook to reach boundary rolls)"""
    y ^= y >> 18
    y ^= (y << 15) & 0xefc60000
    x = y
    for _ in range(6): x = y ^ ((x << 7) & 0x9d2c5680)
    y = x & 0xffffffff
    x = y
    for _ in range(3): x = y ^ (x >> 11)
    return x & 0xffffffff

M64 = (1 << 64) - 1
def temper64(x):
    x ^= (x >> 29) & 0x5555555555555555
    x ^= (x << 17) & 0x71D67FFFEDA60000 & M64
    x ^= (x << 37) & 0xFFF7EEE000000000 & M64
    x ^= x >> 43
    return x & M64

def untemper64(y):
    x = y
    for _ in range(3): x = y ^ (x >> 43)          # invert x ^= x >> 43
    y = x & M64; x = y
    for _ in range(3): x = y ^ ((x << 37) & 0xFFF7EEE000000000)
    y = x & M64; x = y
    for _ in range(5): x = y ^ ((x << 17) & 0x71D67FFFEDA60000)
    y = x & M64; x = y
    for _ in range(4): x = y ^ ((x >> 29) & 0x5555555555555555)
    return x & M64

assert all(temper64(untemper64(v)) == v for v in (0, 1, M64, 1 << 63, 0x123456789abcdef0, M64 - 1, 0x5555555555555555))

def roll_boundary_words(n, bits, rng):
    """raw words around the accept/reject boundaries of a roll of n: v*f-1, v*f, v*f+1 for v in {1, n-1, n}, 0, max"""
    W = (1 << bits) - 1
    f = W // n
    c = [0, W, W - 1]
    for v in (1, max(1, n - 1), n, rng.randrange(1, n + 1)):
        c += [min(W, max(0, v * f + d)) for d in (-1, 0, 1)]
    return c

assert all(temper(untemper(v)) == v for v in (0, 1, 0xffffffff, 0x80000000, 0x12345678, 0xfffffffe))

def dbits(x):
    return "%016x" % struct.unpack("<Q", struct.pack("<d", x))[0]

# ---- independent reference streams (the published recurrences, written from the papers, not from easel's loops) -------------
M32 = 0xffffffff
def mix3(a, b, c):
    """Bob Jenkins' 96-bit mix as used by esl_mix3 (seed dispersion of the LCG / arbitrary seeds)"""
    a = (a - b - c) & M32; a ^= c >> 13
    b = (b - c - a) & M32; b ^= (a << 8) & M32
    c = (c - a - b) & M32; c ^= b >> 13
    a = (a - b - c) & M32; a ^= c >> 12
    b = (b - c - a) & M32; b ^= (a << 16) & M32
    c = (c - a - b) & M32; c ^= b >> 5
    a = (a - b - c) & M32; a ^= c >> 3
    b = (b - c - a) & M32; b ^= (a << 10) & M32
    c = (c - a - b) & M32; c ^= b >> 15
    return c

class RefStream:
    """word i of the stream of a seed: MT19937 (x[k+624] = x[k+397] ^ twist(x[k], x[k+1]), seeding x[z] = 69069 x[z-1]),
    MT19937-64 (312/156, reference seeding), or the a=69069 c=1 LCG started at mix3(seed, 87654321, 12345678)"""
    def __init__(self, kind, seed):
        self.kind, self.seed, self.pos = kind, seed, 0
        if kind == "mt32":
            x = [seed & M32]
            for z in range(1, 624): x.append((69069 * x[-1]) & M32)
            self.x = x
        elif kind == "mt64":
            x = [seed & M64]
            for z in range(1, 312): x.append((6364136223846793005 * (x[-1] ^ (x[-1] >> 62)) + z) & M64)
            self.x = x
        else:
            v = mix3(seed & M32, 87654321, 12345678)
            self.lcg = v if v else 42
    def next(self):
        self.pos += 1
        if self.kind == "lcg":
            self.lcg = (self.lcg * 69069 + 1) & M32
            return self.lcg
        x = self.x
        if self.kind == "mt32":
            k = len(x) - 624
            y = (x[k] & 0x80000000) | (x[k + 1] & 0x7fffffff)
            v = x[k + 397] ^ (y >> 1) ^ (0x9908b0df if y & 1 else 0)
            x.append(v)
            if len(x) > 4096: del x[:len(x) - 624]
            return temper(v)
        k = len(x) - 312
        y = (x[k] & 0xFFFFFFFF80000000) | (x[k + 1] & 0x7FFFFFFF)
        v = x[k + 156] ^ (y >> 1) ^ (0xB5026F5AA96619E9 if y & 1 else 0)
        x.append(v)
        if len(x) > 4096: del x[:len(x) - 312]
        return temper64(v)

_r = RefStream("mt64", 5489); assert _r.next() == 14514284786278117030      # published first output of init_genrand64(5489)
FNV0, FNVP = 0xcbf29ce484222325, 0x100000001b3

def float_facts_selftest(nsamp=4000, seed=12345):
    """Every field of `FloatFacts F B` (lean/EaselModel/Random/Deal64Abs.lean), the assumption list of the abstract-carrier
    theorem `rand64_deal_spec_abstract`, evaluated on IEEE binary64 (Python float = C double, same libm exp/log) with
    B = 2^53 over special values (+-0, +-inf, NaN, subnormals, 1 -+ ulp, 2^53 ...) and random operands.
    Returns (number of evaluated instances, list of counter-examples).  A counter-example means an assumption of the
    theorem is false for the arithmetic the C code runs on: reported as a failed obligation."""
    import math, random
    rng = random.Random(seed)
    B = 2 ** 53
    inf, nan = float("inf"), float("nan")
    def clog(x):
        if x != x or x < 0: return nan
        if x == 0: return -inf
        return math.log(x) if x != inf else inf
    def cexp(x):
        try: return math.exp(x)
        except OverflowError: return inf
    def I(k): return float(k)
    def dbl(w): return float(w >> 11) * (1.0 / 9007199254740992.0)
    def dblo(w): return (float(w >> 12) + 0.5) * (1.0 / 4503599627370496.0)
    def fl(x): return int(math.floor(x))
    def rbits(): return struct.unpack("<d", struct.pack("<Q", rng.getrandbits(64)))[0]
    special = [0.0, -0.0, 1.0, -1.0, inf, -inf, nan, 5e-324, -5e-324, 2.2250738585072014e-308, 1 - 2.0 ** -53, 1 + 2.0 ** -52,
               0.5, 2.0 ** -53, 2.0 ** 53, 2.0 ** 53 - 1, 2.0 ** 52, 1e308, -1e308, 1e-300, 3.0, 27.0, 1 - 2.0 ** -52, 2.0 ** -1074]
    def val():
        r = rng.random()
        if r < 0.35: return rng.choice(special)
        if r < 0.6: return rbits()
        if r < 0.85: return rng.choice([rng.random(), 1 - rng.random() * 2.0 ** -rng.randrange(1, 53), rng.random() * 2.0 ** -rng.randrange(1, 1070)])
        return float(rng.randrange(-B, B + 1)) if rng.random() < 0.5 else rng.uniform(-10, 10)
    def unit(): return rng.choice([0.0, -0.0, 1.0, 1 - 2.0 ** -53, 2.0 ** -53, 5e-324, 0.5, rng.random(), 1 - rng.random() * 2.0 ** -rng.randrange(1, 53), dbl(rng.getrandbits(64))])
    def ubelow(): return rng.choice([0.0, -0.0, 1 - 2.0 ** -53, 2.0 ** -53, 5e-324, 0.5, rng.random(), 1 - 2.0 ** -rng.randrange(1, 54), dbl(rng.getrandbits(64))])
    def pint(lo=1): return rng.choice([lo, lo + 1, 2, 3, 7, 13, 27, 2 ** 31, 2 ** 52, B - 1, B, 2 ** rng.randrange(0, 54), rng.randrange(lo, B + 1), rng.randrange(lo, 1000)])
    def sint():
        k = rng.choice([0, 1, -1, B, -B, B - 1, rng.randrange(-B, B + 1), rng.randrange(-1000, 1000)])
        return k
    bad, count = [], 0
    def chk(name, prem, concl, *args):
        nonlocal count
        if prem:
            count += 1
            if not concl and len(bad) < 5: bad.append((name, args))
    one, z = 1.0, 0.0
    for _ in range(nsamp):
        a, b, c = val(), val(), val()
        chk("le_trans", a <= b and b <= c, a <= c, a, b, c)
        chk("lt_le", a < b, a <= b, a, b)
        chk("lt_lt_le_absurd", a < b and b < c, not (c <= a), a, b, c)
        i, j = sint(), sint()
        if -B <= i + j <= B: chk("add_int", True, struct.pack("<d", I(i) + I(j)) == struct.pack("<d", I(i + j)), i, j)
        if -B <= i - j <= B: chk("sub_int", True, struct.pack("<d", I(i) - I(j)) == struct.pack("<d", I(i - j)), i, j)
        k = pint(0)
        chk("round_int", True, float(math.floor(I(k) + 0.5)) == I(k) if k < 2 ** 52 else I(k) == float(int(I(k))), k)
        w = rng.choice([0, 1, (1 << 64) - 1, (1 << 11) - 1, 1 << 11, (1 << 12) - 1, 1 << 12, rng.getrandbits(64)])
        chk("dbl_unit", True, z <= dbl(w) and dbl(w) < one, w)
        chk("dblOpen_unit", True, z < dblo(w) and dblo(w) < one, w)
        u = unit()
        chk("log_nonpos", z <= u and u <= one, clog(u) <= z, u)
        x = rng.choice([a, -abs(a), clog(u), -unit(), -0.0, -inf, -5e-324])
        chk("exp_le_one", x <= z, cexp(x) <= one, x)
        chk("exp_nonneg", cexp(a) <= c or cexp(a) <= cexp(a), z <= cexp(a), a)
        kk = pint(1)
        chk("mul_inv_nonpos", x <= z, (one / I(kk)) * x <= z, kk, x)
        chk("one_sub_unit", z <= u and u <= one, z <= (-u) + one and (-u) + one <= one, u)
        n = pint(1)
        chk("mul_int_unit", z <= u and u <= one, z <= I(n) * u and I(n) * u <= I(n), n, u)
        ub = ubelow()
        chk("mul_int_lt", z <= ub and ub < one, I(n) * ub < I(n), n, ub)
        t = pint(0)
        chk("mul_unit_int", z <= u and u <= one, z <= u * I(t) and u * I(t) <= I(t), u, t)
        p, q = rng.choice([abs(a), u, inf, 0.0, cexp(b)]), rng.choice([abs(b), u, inf, 0.0, -0.0])
        chk("mul_nonneg", z <= p and z <= q and (p * q <= c or p * q <= p * q), z <= p * q, p, q)
        chk("mul_left_notnan", a * b <= c or a * b <= a * b, a <= a, a, b)
        chk("neg_antitone", a <= b, -b <= -a, a, b)
        chk("div_mono", a <= b, a / I(n) <= b / I(n), n, a, b)
        chk("div_neg_self", True, I(-1) <= (-I(n)) / I(n), n)
        chk("div_int_nonneg", True, z <= I(t) / I(n), t, n)
        t2 = rng.choice([0, 1, n, max(0, n - 1), rng.randrange(0, n + 1)])
        chk("div_int_le_one", True, I(t2) / I(n) <= one, t2, n)
        chk("div_zero_nonpos", True, I(0) / I(n) <= z, n)
        chk("add_one_mono", a <= b, a + one <= b + one, a, b)
        xr = rng.choice([I(n) * u, I(n) * ub, I(n), 0.0, -0.0, I(n) * (1 - 2.0 ** -53), I(n) - 1 if n > 1 else 0.5, rng.random() * I(n)])
        if z <= xr and xr <= I(n): chk("floor_range", True, 0 <= fl(xr) <= n, xr, n)
        if z <= xr and xr < I(n): chk("floor_lt", True, fl(xr) < n, xr, n)
        # DealFact (Random/DealF.lean), B = 2^31: (double) a * esl_random() < (double) a
        a31 = rng.choice([1, 2, 3, 2 ** 31 - 1, 2 ** 31, 2 ** 30, 2 ** 21, 2 ** 21 + 1, rng.randrange(1, 2 ** 31 + 1), rng.randrange(1, 5000)])
        x32 = rng.choice([0, 1, 0xffffffff, 0xfffffffe, 0x80000000, 2147483649, rng.getrandbits(32)])
        chk("DealFact", True, I(a31) * (float(x32) / 4294967296.0) < I(a31), a31, x32)
    return count, bad

class C09(Prop):
    id = "C09"
    lean_modules = ["EaselModel.Props.C09"]
    lean_exe = "c09_driver"
    harness = "h_random.c"
    theorems = ["EaselModel.Props.C09." + t for t in (
        "mt19937_stream", "mt19937_64_stream", "fast_stream", "reinit_replays", "reinit_reports_seed",
        "seed0_nonzero32", "seed0_nonzero64", "nonzero_seed_kept", "roll_lt", "roll_unbiased32", "roll_unbiased64",
        "random_unit", "rand64_double_ranges", "rand64_int64_range", "deal_spec", "deal_spec_abstract", "deal_spec_binary64", "dchoose_nonzero", "dchoose_never_fatal", "dchoosecdf_nonzero", "dchoosecdf_never_fatal",
        "rand64_deal_spec", "rand64_deal_spec_real", "rand64_deal_vprime_one_clamped", "rand64_deal_first_accepted",
        "uniformPositive_pos", "uniform_positive_unit", "gaussian_in_bounds", "gauss_table_sizes", "gamma_positive_real_partial", "dirichlet_simplex_real_partial",
        "mem_bytes", "floatstring_fits", "samplers_replay", "mt_constants_published", "model_constants_regenerated", "temper_linear",
        "seed0_create_replays", "seed0_init_replays", "rand64_init_replays", "dump_in_bounds", "dump_in_bounds_reinit", "dump_prefix_out_of_bounds",
        "rand64_deal_spec_abstract", "rand64_deal_spec_binary64", "vitter_a_terminates", "rand64_deal_small_terminates", "rand64_deal_int64_in_range", "rand64_deal_skip_in_range", "rand64_deal_prefix_out_of_range", "rand64_deal_prefix_defect_carrier",
        "mt_top_bit_clear_within", "roll_accepts_top_clear", "roll_terminates_mt19937", "roll_terminates_on_stream", "on_stream_closed", "roll_terminates_fast", "roll64_terminates", "roll_is_first_accepted_word", "roll64_is_first_accepted_word", "uniformPositive_terminates", "uniformPositive_is_first_nonzero_word", "mem_floatstring_total", "gamma_integer_dirichlet_total")] + ["EaselModel.MTP.fill_correct", "EaselModel.MTP.stream_eq_spec"]
    claimed = True
    technique = "Lean 4 proof (generic in-place-refill = recurrence theorem, stream invariant by induction, roll/deal arithmetic, GF(2) linear-recurrence bound on runs of the top output bit for loop termination) + exact differential correspondence of the executable model with the ASan/UBSan-built C generators"
    level_text = ("Theorems for all seeds and all stream positions: the model's MT19937 / MT19937-64 / LCG output equals the reference recurrence across any number of refills; "
                  "re-init replays; seed 0 gives a non-zero reported seed; Roll is the unbiased rejection map with equal-size preimages and, on all three generators and for every seed, a TOTAL function of the stream (first accepted word among the next 19999 outputs; UniformPositive: first non-zero word among the next 624); doubles lie in their intervals; Deal gives m increasing in-range values. "
                  "The hand-written model is tied to the working tree by a bit-exact differential run over operation histories; any divergence is a concrete failing (seed, history).")
    level_note = ("Trusted: Lean kernel + propext/Classical.choice/Quot.sound; the hand model's fidelity is checked (not proved) by the differential run; clock/pid inputs of seed selection are explicit inputs "
                  "(the harness owns time()/getpid()/clock(), so seed 0 is driven and predicted); the integer rejection loops (Roll, rand64_Roll, UniformPositive) are proved to terminate for every seed of the three generators (linear-recurrence argument over GF(2), no equidistribution), the floating-point ones (Gaussian, Gamma, method D) keep fuel; float comparison in esl_rnd_Deal assumed equal to exact comparison (L0). "
                  "esl_rand64_Deal (Vitter D + A) is modelled exactly (binary64 through the Float instance, sample and generator position predicted bit for bit); its structure theorem (m strictly increasing values in [0,n), every "
                  "generator state) is proved twice: over any ordered field with arbitrary exp/log oracles, and over an ABSTRACT float carrier with uninterpreted operations assuming only FloatFacts (sign/monotonicity of single rounded "
                  "operations, exact integers up to B=2^53, sign facts of exp/log, NaN propagation: every field sampled on binary64 at each run, 0 counterexamples) and n <= B; the pre-fix code (ba43348) is a proved counter-example on such a carrier. "
                  "Generator constants are probed from the compiled C functions at every run and proved equal to the model's and to the published ones. "
                  "Gaussian/Gamma/Dirichlet/mem/floatstring are modelled and driven bit for bit, their support theorems are over R only (L0); "
                  "gamma_positive / dirichlet_simplex do NOT transfer to binary64 (underflow of pow(V,1/a) for a ~ 0.001: Gamma returns 0.0, Dirichlet NaN; regression cases gamma-underflow, dirichlet-underflow).")
    diverge_is_violation = True   # every op is a deterministic documented function of (seed, history)
    trusted_base = ["hand model of esl_random.c/esl_rand64.c tied by exact differential run (h_random.c, ASan+UBSan build of the working tree)",
                    "Lean compiler/runtime for the executable driver", "gcc; IEEE-754 division/multiplication by powers of two exact (L0)"]
    assumptions = ["choose_arbitrary_seed's time()/getpid()/clock() are explicit inputs of the model (harness interposes the three symbols under an `env` op)",
                   "rejection loops modelled with fuel 10^6. Roll / rand64_Roll / UniformPositive: PROVED to terminate for every seed on MT19937, MT19937-64 and the LCG (within 19999, 19999, 2^31+1 resp. 624/2 draws: roll_terminates_*, roll64_terminates, uniformPositive_terminates); Gaussian, Gamma, Deal64 method D: floating-point acceptance tests, probability-1 termination only (fuel)",
                   "esl_rnd_Deal's double comparison equals the exact rational comparison (n < 2^31; separation 2^20 ulp) - checked by the differential run only",
                   "esl_rand64_Deal: int64 skeleton modelled in Int, PROVED to stay within +-2^57 for n <= 2^53 (rand64_deal_int64_in_range, rand64_deal_skip_in_range: no int64 wrap-around reachable); the abstract-carrier theorem assumes FloatFacts F B (Random/Deal64Abs.lean: 27 facts about single rounded operations, every one used by the proof, each sampled on binary64 every run; the lower halves of exp_unit / mul_int_lt / floor_lt are now derived theorems, not assumptions) and n <= B = 2^53 (vitter_a's skip loop relies on the integer-valued double `top` reaching exactly 0)",
                   "esl_rand64_Deal cost: method D's slow path runs ~n/m iterations per rejected squeeze (observed: m=300, n=2^52 -> S=1.8e12); the generator keeps n/m <= 2e6 for m >= 2 (cost, not range: outside the property)",
                   "test hooks pokeraw/pokeraw64 (overwrite a table word k draws ahead) and env (time/pid/clock) are harness-only; every table content is a state of the generator's single cycle",
                   "Python reference streams in the monitor (MT19937, MT19937-64, LCG, mix3) are written from the published recurrences; self-checked against init_genrand64(5489) -> 14514284786278117030"]
    rule = ("cases = operation histories (Create/CreateFast/CreateTimeseeded/Init incl. seed 0 under a controlled clock/pid, draw, raw words, roll, deal, choose, samplers, Dump, position) over boundary (1, 2^32-1, 2^32, 2^64-1), power-of-two and random seeds; "
            "non-trivial = history with at least one draw after a table refill or a derived draw; distinct by output trace")

    def generated(self, ctx):
        # Gaussian tables and the integer literals of the MT / LCG routines, regenerated from the working tree
        g, self._gtabs, self._lits = rand_tables.generate(ctx)
        # the assumption list of the abstract-carrier Deal theorem, evaluated on the arithmetic the C code runs on
        self._ff_count, bad = float_facts_selftest()
        if bad:
            raise RuntimeError("FloatFacts (Deal64Abs.lean) is false on binary64: %r" % (bad,))
        return g

    _NAN = __import__("re").compile(r"\b[7f]ff[89a-f][0-9a-f]{12}\b|\b[7f]ff[0-7](?!0{12})[0-9a-f]{12}\b")
    def canonical(self, line):
        # a NaN result (e.g. Dirichlet 0./0.) is compared as NaN: sign and payload differ between gcc's and Lean's printing
        return self._NAN.sub("nan", line) if "ff" in line else line

    def extra_evidence(self, ctx):
        return {"float_facts_on_binary64": {"instances_evaluated": getattr(self, "_ff_count", 0), "counterexamples": 0,
                                           "what": "every field of FloatFacts (assumptions of rand64_deal_spec_abstract) sampled on IEEE binary64 incl. +-0, +-inf, NaN, subnormals, B=2^53"}}

    def corpus(self, ctx):
        return [dict(c, sticky=1) for c in self._corpus() + self._roll64_pow2_corpus() + self._roll32_pow2_corpus()]

    def _roll32_pow2_corpus(self):
        """esl_rnd_Roll(n) for every n = 2^k - 1, 2^k, 2^k + 1 (k = 1..30) and 2^31 - 1, at table positions 0 / 623 / 624 / 625 / deep, on the
        Mersenne Twister and the LCG; and with the next raw word forced onto n*factor - 1, n*factor, factor - 1, factor, 2^32 - 1"""
        ns = []
        for k in range(1, 31):
            ns += [(1 << k) - 1, 1 << k, (1 << k) + 1]
        ns.append((1 << 31) - 1)
        out = []
        for new, seed, pos in (("new32", 1, 0), ("new32", 42, 623), ("new32", 42, 624), ("new32", 4294967295, 625), ("new32", 5489, 2000), ("newfast", 42, 3)):
            ops = ["%s seed=%d" % (new, seed)] + (["u32 k=%d" % pos] if pos else []) + ["pos32"]
            for n in ns: ops.append("roll n=%d" % n)
            ops += ["pos32", "u32 k=2"]
            out.append({"name": "roll32-pow2-%s-seed%d-pos%d" % (new, seed, pos), "ops": ops})
        for which in range(5):
            ops = ["new32 seed=7", "u32 k=%d" % (600 + 6 * which)]
            for n in ns:
                f = M32 // n
                w = [n * f - 1, min(M32, n * f), f - 1, f, M32][which]
                ops += ["pokeraw w=%d" % untemper(w), "roll n=%d" % n]
            ops += ["pos32", "u32 k=2"]
            out.append({"name": "roll32-pow2-boundary%d" % which, "ops": ops})
        return out

    def _roll64_pow2_corpus(self):
        """esl_rand64_Roll(n) for EVERY power of two n = 2^k (k = 1..63) and n = 2^k - 1, 2^k + 1, at several stream positions
        (fresh table, last word / exhausted / first word after a refill, deep in the stream), on three seeds; and the same n with
        the next raw word forced onto the accept/reject boundary n*factor - 1, n*factor, and onto factor - 1, factor, 2^64 - 1"""
        ns = []
        for k in range(1, 64):
            ns += [(1 << k) - 1, 1 << k, (1 << k) + 1]
        ns.append(M64)
        out = []
        for seed, pos in ((1, 0), (42, 311), (42, 312), (18446744073709551615, 313), (5489, 1000), (4294967296, 623)):
            ops = ["new64 seed=%d" % seed] + (["u64 k=%d" % pos] if pos else []) + ["pos64"]
            for n in ns: ops.append("roll64 n=%d" % n)
            ops += ["pos64", "u64 k=2"]
            out.append({"name": "roll64-pow2-seed%d-pos%d" % (seed, pos), "ops": ops})
        for which in range(5):
            ops = ["new64 seed=7", "u64 k=%d" % (300 + which)]
            for n in ns:
                f = M64 // n
                w = [n * f - 1, min(M64, n * f), f - 1, f, M64][which]
                ops += ["pokeraw64 w=%d" % untemper64(w), "roll64 n=%d" % n]
            ops += ["pos64", "u64 k=2"]
            out.append({"name": "roll64-pow2-boundary%d" % which, "ops": ops})
        return out

    GAMMA_A = [0.01, 0.5, 0.999, 1.0, 1.5, 2.0, 2.999, 3.0, 3.0000001, 3.5, 7.0, 11.0, 12.0, 12.5, 50.0, 1000.0]

    def _sampler_ops(self, rng, mersenne):
        """Gaussian / Gamma / Dirichlet / mem / floatstring on the current 32-bit generator (either kind).
        Gaussian: the first uniform decides sign, table index i = floor(32*(2u-s)) and centre/tail; force it (pokeraw) onto
        index boundaries k/64, onto 0.5 +- 1 ulp, onto the smallest/largest uniforms (deepest tail: i reaches 31)."""
        r = rng.random()
        ops = []
        if r < 0.4:
            if mersenne and rng.random() < 0.6:
                k = rng.randrange(0, 65)
                x = rng.choice([0, 1, 2, 3, 0x7fffffff, 0x80000000, 0x80000001, 0x80000002, 0xffffffff, 0xfffffffe,
                                min(0xffffffff, max(1, k * (1 << 26) + rng.choice([-1, 0, 1]))), rng.randrange(1, 1 << 27),
                                0x80000000 + rng.randrange(1, 1 << 27), rng.randrange(1, 1 << 12)])
                ops.append("pokeraw w=%d" % untemper(x))
            mean = rng.choice([0.0, 0.0, 1.0, -3.5, 1e6, rng.uniform(-10, 10)])
            sd = rng.choice([1.0, 1.0, 0.0, 2.5, 1e-3, rng.uniform(0, 10)])
            ops.append("gauss mean=%s sd=%s" % (dbits(mean), dbits(sd)))
        elif r < 0.7:
            if mersenne and rng.random() < 0.3:     # first uniform of the Gamma regimes forced to 0 (rejected by UniformPositive), smallest, largest
                ops.append("pokeraw w=%d" % untemper(rng.choice([0, 1, 2, 0xffffffff, 0xfffffffe, 0x80000000, rng.randrange(1, 1 << 10)])))
            a = rng.choice(self.GAMMA_A + [rng.uniform(0.001, 20.0), rng.uniform(0.001, 1.0), float(rng.randrange(1, 12)), 0.001, 1e-5])
            ops.append("gamma a=%s" % dbits(a))
        elif r < 0.85:
            K = rng.randrange(1, 9)
            if rng.random() < 0.3: ops.append("dirichlet k=%d" % K)
            else: ops.append("dirichlet alpha=" + ",".join(dbits(rng.choice(self.GAMMA_A[:12] + [rng.uniform(0.01, 5.0)])) for _ in range(K)))
        elif r < 0.93:
            ops.append("mem n=%d" % rng.choice([0, 1, 7, 64, 300]))
        else:
            ops.append("floatstr")
        return ops

    def _corpus(self):
        return [
            # raw words across the first table boundary and two refills, against the reference recurrences (monitor) and the model
            {"name": "raw-words-64", "ops": ["new64 seed=5489", "w64 k=700", "init64 seed=1", "w64 k=313", "new64 seed=18446744073709551615", "u64 k=311", "w64 k=2", "u64 k=310", "w64 k=3"]},
            {"name": "raw-words-32", "ops": ["new32 seed=5489", "w32 k=1300", "init seed=1", "w32 k=625", "newfast seed=42", "w32 k=5", "init seed=42", "w32 k=5", "new32 seed=4294967295", "u32 k=623", "w32 k=3"]},
            {"name": "ref-5489-like", "ops": ["new32 seed=42", "u32 k=1", "u32 k=623", "u32 k=1", "u32 k=2000", "init seed=42", "u32 k=1"]},
            {"name": "seedzero", "ops": ["seedzero32", "seedzero64"]},
            {"name": "fchoose-trailing-zero-maxroll", "ops": ["new32 seed=42", "pokeraw w=%d" % untemper(0xffffffff),
                "fchoose p=" + ",".join(f32bits(f32round(c / 100.0)) for c in (45, 35, 15, 5, 0, 0)), "u32 k=3"]},
            {"name": "roll-boundary", "ops": ["new32 seed=1", "pokeraw w=%d" % untemper(10 * (0xffffffff // 10)), "roll n=10",
                "pokeraw w=%d" % untemper(10 * (0xffffffff // 10) - 1), "roll n=10", "pokeraw w=%d" % untemper(0xffffffff // 10), "roll n=10", "u32 k=2"]},
            {"name": "roll64-boundary", "ops": ["new64 seed=1", "pokeraw64 w=%d" % untemper64(10 * (M64 // 10)), "roll64 n=10",
                "pokeraw64 w=%d" % untemper64(10 * (M64 // 10) - 1), "roll64 n=10", "u64 k=2"]},
            {"name": "dchoose-zero-roll", "ops": ["new32 seed=7", "pokeraw w=%d" % untemper(0), "dchoose p=" + ",".join(dbits(x) for x in (0.0, 0.5, 0.5)), "random"]},
            # binary64 behaviour the R-only theorems gamma_positive_real_partial / dirichlet_simplex_real_partial do not cover:
            # pow(V, 1/a) underflows for small a: Gamma returns exactly 0.0, Dirichlet {NaN, NaN} when every component does
            {"name": "gamma-underflow", "ops": ["new32 seed=42"] + ["gamma a=%s" % dbits(0.001)] * 6 + ["pos32"]},
            {"name": "dirichlet-underflow", "ops": ["new32 seed=42"] + ["gamma a=%s" % dbits(0.001)] * 40
                     + ["dirichlet alpha=%s,%s" % (dbits(0.001), dbits(0.001))] * 3 + ["pos32", "u32 k=2"]},
            {"name": "unipos-zero", "ops": ["new32 seed=3", "pokeraw w=%d" % untemper(0), "unipos", "pos32", "pokeraw w=%d" % untemper(1), "unipos",
                     "pokeraw w=%d" % untemper(0), "gamma a=%s" % dbits(2.0), "pokeraw w=%d" % untemper(0), "gamma a=%s" % dbits(0.5),
                     "pokeraw w=%d" % untemper(0), "gauss mean=%s sd=%s" % (dbits(0.0), dbits(1.0)), "pokeraw w=%d" % untemper(0), "gamma a=%s" % dbits(7.5), "pos32"]},
            {"name": "deal-boundary", "ops": ["new32 seed=5", "pokeraw w=%d" % untemper(1 << 31), "deal m=1 n=2", "pokeraw w=%d" % untemper((1 << 31) - 1), "deal m=1 n=2",
                     "pokeraw w=%d" % untemper(1 << 30), "deal m=1 n=4", "pokeraw w=%d" % untemper(3 << 30), "deal m=3 n=4", "pos32"]},
            {"name": "fast", "ops": ["newfast seed=1", "u32 k=3", "roll n=6", "init seed=1", "u32 k=3"]},
            # regression for fix ba43348: the accepted Vprime is exactly 1.0; before the fix the C code returned {7,27}
            {"name": "deal64-vprime-one",
             "ops": ["new64 seed=1", "pokeraw64 w=%d" % untemper64(9305357566071262703),
                     "pokeraw64 w=%d off=1" % untemper64(18276914810643972096), "deal64 m=2 n=27", "u64 k=2"]},
            {"name": "deal64-methods", "ops": ["new64 seed=42", "deal64 m=5 n=1000000", "deal64 m=50 n=100", "deal64 m=1 n=1", "deal64 m=100 n=100",
                     "deal64 m=20 n=1099511627776", "pokeraw64 w=0", "deal64 m=3 n=1000", "pokeraw64 w=%d" % untemper64(M64), "deal64 m=1 n=7", "u64 k=3"]},
            # regression for fix 6211f3f: Dump when the table is exactly used up (mti == 624) read mt[624]
            {"name": "dump-exhausted", "ops": ["new32 seed=42", "dump32", "u32 k=624", "pos32", "dump32", "u32 k=1", "dump32", "u32 k=623", "dump32", "init seed=42", "dump32"]},
            {"name": "dump-fast", "ops": ["newfast seed=1", "dump32", "u32 k=3", "dump32", "pos32"]},
            {"name": "dump64", "ops": ["new64 seed=42", "dump64", "u64 k=312", "pos64", "dump64", "u64 k=1", "dump64", "init64 seed=18446744073709551615", "dump64"]},
            # seed 0 under a controlled environment: Create / CreateFast / CreateTimeseeded / Init, 32 and 64 bit
            {"name": "seed0-env", "ops": ["env t=1790000000 p=4242 c=1234", "new32 seed=0", "u32 k=3", "dump32", "newfast seed=0", "u32 k=3", "dump32",
                     "newtime", "u32 k=625", "init seed=0", "random", "new64 seed=0", "u64 k=2", "init64 seed=0", "u64 k=313", "dump64",
                     "env t=0 p=0 c=0", "new32 seed=0", "new64 seed=0", "newfast seed=0", "u32 k=1",
                     "env t=4294967295 p=4294967295 c=4294967295", "newtime", "new64 seed=0", "roll64 n=7", "init seed=4294967295", "u32 k=2"]},
            # the `== 0 ? 42` fallbacks are live: mix3(1901478223, 4242, 1234) = 0 (arbitrary seed becomes 42; the 64-bit seed gets a zero
            # high word), mix3(2154033337, 4242, 1234) = 1, and mix3(seed, 87654321, 12345678) = 0 for the two LCG seeds below (x = 42)
            {"name": "seed-fallback-42", "ops": ["env t=1901478223 p=4242 c=1234", "new32 seed=0", "w32 k=2", "newfast seed=0", "w32 k=2", "newtime", "u32 k=1",
                     "newfast seed=1240482182", "pos32", "w32 k=3", "newfast seed=3863634509", "w32 k=2", "init seed=1240482182", "w32 k=2", "dump32",
                     "new64 seed=0", "w64 k=2", "init64 seed=0", "pos64", "env t=2154033337 p=4242 c=1234", "new32 seed=0", "w32 k=1", "init seed=0", "newtime"]},
            {"name": "dump-last-word", "ops": ["new32 seed=7", "u32 k=623", "pos32", "dump32", "u32 k=1", "pos32", "dump32", "new64 seed=7", "u64 k=311", "dump64", "u64 k=1", "dump64"]},
            {"name": "seeds-boundary", "ops": ["new32 seed=4294967295", "u32 k=625", "gauss mean=%s sd=%s" % (dbits(0.0), dbits(1.0)), "init seed=4294967295", "u32 k=1",
                     "new64 seed=4294967296", "u64 k=313", "new64 seed=4294967295", "u64 k=2", "new64 seed=18446744073709551615", "deal64 m=3 n=100", "pos64",
                     "init64 seed=4294967297", "dblopen", "int64"]},
            # re-seeding exactly at, one before and one after the table boundary (mti = 623 / 624 / 625 -> 1 after a refill), same and other seed
            {"name": "reseed-boundary32", "ops": ["new32 seed=1", "u32 k=623", "pos32", "init seed=1", "pos32", "w32 k=3", "u32 k=621", "pos32", "init seed=2", "w32 k=2",
                     "u32 k=623", "pos32", "init seed=2", "w32 k=2", "u32 k=1246", "pos32", "init seed=4294967295", "w32 k=2", "u32 k=622", "w32 k=3", "dump32",
                     "newfast seed=1", "u32 k=624", "init seed=1", "w32 k=2", "pos32"]},
            {"name": "reseed-boundary64", "ops": ["new64 seed=1", "u64 k=311", "pos64", "init64 seed=1", "pos64", "w64 k=3", "u64 k=309", "pos64", "init64 seed=2", "w64 k=2",
                     "u64 k=311", "pos64", "init64 seed=2", "w64 k=2", "u64 k=622", "pos64", "init64 seed=18446744073709551615", "w64 k=2", "u64 k=310", "w64 k=3", "dump64"]},
            # Create / Destroy churn: every Create is a fresh stream whatever was created and destroyed before (the harness destroys the old object)
            {"name": "create-destroy-churn", "ops": sum([["new32 seed=%d" % sd, "w32 k=2", "newfast seed=%d" % sd, "w32 k=1", "new64 seed=%d" % sd, "w64 k=1"]
                                                         for sd in (1, 4294967295, 1, 2, 1, 42, 1, 4294967295)], []) + ["u32 k=625", "u64 k=313", "pos32", "pos64"]},
            # a 64-bit seed passed to the 32-bit API is truncated to its low 32 bits (uint32_t parameter): 2^64-1 -> 2^32-1, 2^32+1 -> 1,
            # 2^32 -> 0, i.e. "choose a seed" (under a controlled clock/pid); the 64-bit API keeps all 64 bits
            {"name": "seed-truncation", "ops": ["env t=1790000000 p=4242 c=1234", "new32 seed=18446744073709551615", "w32 k=2", "new32 seed=4294967295", "w32 k=2",
                     "new32 seed=4294967297", "w32 k=2", "new32 seed=1", "w32 k=2", "new32 seed=4294967296", "w32 k=2", "new32 seed=0", "w32 k=2",
                     "init seed=18446744073709551615", "w32 k=1", "init seed=8589934592", "w32 k=1", "newfast seed=18446744073709551615", "w32 k=2", "newfast seed=4294967295", "w32 k=2",
                     "new64 seed=18446744073709551615", "w64 k=2", "new64 seed=4294967295", "w64 k=2", "init64 seed=18446744073709551615", "w64 k=2", "new64 seed=1", "w64 k=1", "new32 seed=1", "w32 k=1"]},
            # the rejection loop continues over several consecutive rejected words (top bit set, x >= n*factor) and returns the first accepted one
            {"name": "roll64-consecutive-rejects", "ops": ["new64 seed=1", "pokeraw64 w=%d" % untemper64(M64), "pokeraw64 w=%d off=1" % untemper64(M64 - 1),
                     "pokeraw64 w=%d off=2" % untemper64((1 << 63) + 1), "pokeraw64 w=%d off=3" % untemper64(1 << 63), "pos64", "roll64 n=%d" % ((1 << 63) + 1), "pos64",
                     "pokeraw64 w=%d" % untemper64(M64), "pokeraw64 w=%d off=1" % untemper64(M64), "roll64 n=3", "pos64", "u64 k=2"]},
            {"name": "mt64", "ops": ["new64 seed=42", "u64 k=1", "u64 k=311", "u64 k=1", "u64 k=1000", "roll64 n=18446744073709551615", "dbl64", "dblclosed", "dblopen"]},
        ]

    def seeds32(self, rng):
        b = [1, 2, 3, 42, 0x7fffffff, 0x80000000, 0xffffffff, 0xfffffffe, 69069, 5489]
        b += [1 << k for k in range(32)]
        return b

    def cases(self, ctx):
        rng = ctx.rng
        n = 1200 if ctx.tier == "quick" else 8000
        seeds = self.seeds32(rng)
        out = []
        for c in range(n):
            ops = []
            seed = rng.choice(seeds) if rng.random() < 0.5 else rng.randrange(1, 1 << 32)
            which = rng.random()
            env = rng.random() < 0.3     # controlled time()/getpid()/clock(): seed 0 becomes a driven input
            if env:
                ops.append("env t=%d p=%d c=%d" % tuple(rng.choice([0, 1, 0xffffffff, rng.randrange(1 << 32), rng.randrange(1 << 32)]) for _ in range(3)))
                if rng.random() < 0.6: seed = 0
            nst = len(ops) + 1
            if which < 0.06 and seed != 0:
                # re-seeding history: Init after exactly k draws with k on / next to a table boundary, then the replay is observed word by word
                b64 = rng.random() < 0.4
                N = 312 if b64 else 624
                new, init, u, wd, pos = ("new64", "init64", "u64", "w64", "pos64") if b64 else (rng.choice(["new32", "new32", "newfast"]), "init", "u32", "w32", "pos32")
                sd = seed if not b64 else rng.choice([seed, (seed << 32) | seed, 2**64 - 1, 1])
                ops.append("%s seed=%d" % (new, sd))
                for _ in range(rng.randrange(2, 6)):
                    k = rng.choice([N - 1, N, N + 1, 2 * N - 1, 2 * N, 2 * N + 1, 1, rng.randrange(1, 3 * N)])
                    ops += ["%s k=%d" % (u, k), pos]
                    sd2 = rng.choice([sd, sd, 1, (2**64 - 1) if b64 else 0xffffffff, rng.randrange(1, 1 << (64 if b64 else 32))])
                    ops += ["%s seed=%d" % (init, sd2), pos, "%s k=%d" % (wd, rng.choice([1, 2, 3]))]
                    if rng.random() < 0.3: ops.append("dump64" if b64 else "dump32")
                out.append({"name": "gen%d" % c, "ops": ops, "sticky": nst}); continue
            if which < 0.09 and seed != 0:
                # Create/Destroy churn, incl. a 64-bit seed truncated by the 32-bit API
                for _ in range(rng.randrange(3, 12)):
                    sd = rng.choice([seed, seed, 1, 0xffffffff, (rng.randrange(1, 1 << 32) << 32) | seed, 2**64 - 1])
                    o = rng.choice(["new32", "new32", "newfast", "new64"])
                    ops += ["%s seed=%d" % (o, sd), ("w64 k=%d" if o == "new64" else "w32 k=%d") % rng.choice([1, 2, 5])]
                    if rng.random() < 0.3: ops.append(("u64 k=%d" if o == "new64" else "u32 k=%d") % rng.choice([311, 312, 313, 623, 624, 625]))
                out.append({"name": "gen%d" % c, "ops": ops, "sticky": nst}); continue
            if which < 0.6:
                first = "new32" if rng.random() < 0.8 else "newfast"
                if env and rng.random() < 0.2: ops.append("newtime"); first = "new32"
                else: ops.append(first + " seed=%d" % seed)
                mers = first == "new32"
                for _ in range(rng.randrange(1, 14)):
                    r = rng.random()
                    q = rng.random()
                    if q < 0.22:
                        ops += self._sampler_ops(rng, mers)
                        if rng.random() < 0.5: ops.append("pos32")
                    elif q < 0.27:
                        ops.append(rng.choice(["dump32", "pos32", "w32 k=%d" % rng.choice([1, 3, 624, 625, rng.randrange(1, 1400)])]))
                    elif q < 0.30:      # Create vs CreateFast vs CreateTimeseeded in one history
                        k2 = rng.choice(["new32", "newfast"] + (["newtime"] if env else []))
                        ops.append(k2 if k2 == "newtime" else k2 + " seed=%d" % rng.choice([seed, seed, rng.randrange(1, 1 << 32)] + ([0] if env else [])))
                        mers = k2 != "newfast"
                    elif r < 0.35:
                        ops.append("u32 k=%d" % rng.choice([1, 2, 5, 100, 623, 624, 625, 1248, rng.randrange(1, 3000), rng.randrange(1, 100000 if ctx.tier != "quick" or c < 10 else 5000)]))
                    elif r < 0.5:
                        nn = rng.choice([1, 2, 3, 6, 7, 10, 19, 255, 256, 389, 1000, 65537, 2**31 - 1, 2**30 + 1, 1898087491, rng.randrange(1, 2**31)])
                        if mers and rng.random() < 0.6:   # roll with the next raw word on an accept/reject boundary
                            ops.append("pokeraw w=%d" % untemper(rng.choice(roll_boundary_words(nn, 32, rng))))
                        ops.append("roll n=%d" % nn)
                    elif r < 0.6:
                        ops.append("random")
                    elif r < 0.65:
                        if mers and rng.random() < 0.5:     # esl_rnd_UniformPositive must reject the raw word 0 (x == 0.0) and accept 1
                            ops.append("pokeraw w=%d" % untemper(rng.choice([0, 0, 1, 0xffffffff])))
                        ops.append("unipos")
                    elif r < 0.78:
                        nn = rng.choice([1, 2, 5, 10, 100, rng.randrange(1, 3000)])
                        if rng.random() < 0.04:     # beyond 2^21 the product (n-j)*x no longer fits 53 bits: the binary64 test, not the exact one
                            nn = rng.choice([2**21, 2**21 + 1, 2**22 + 3, 3000000]); ops.append("deal m=%d n=%d" % (rng.choice([1, 2, 5]), nn))
                        else:
                            mm = rng.choice([0, 1, nn, nn // 2, rng.randrange(0, nn + 1)])
                            if mers and mm and rng.random() < 0.4:    # first test n*x/2^32 < m on its boundary: x next to m*2^32/n
                                t = (mm << 32) // nn
                                ops.append("pokeraw w=%d" % untemper(max(0, min(0xffffffff, t + rng.choice([-1, 0, 0, 1])))))
                            ops.append("deal m=%d n=%d" % (mm, nn))
                    elif r < 0.84 and mers:
                        # categorical choice at a forced boundary roll: float / double vectors from normalised counts
                        # (sums slightly off 1), zeros anywhere incl. trailing; roll = 0, max, or next to a cumulative sum
                        k = rng.randrange(1, 9)
                        cnt = [rng.choice([0, 0, rng.randrange(1, 100)]) for _ in range(k)]
                        if sum(cnt) == 0: cnt[rng.randrange(k)] = 7
                        if rng.random() < 0.5: cnt += [0] * rng.randrange(1, 3)
                        tot = float(sum(cnt))
                        asf = rng.random() < 0.6
                        p = [f32round(c / tot) for c in cnt] if asf else [c / tot for c in cnt]
                        cum, a = [], 0.0
                        for x in p: a += x; cum.append(a)
                        targets = [0, 1, 0xffffffff, 0xfffffffe, 0xffffff00]
                        for cval in cum:
                            t = int(cval / cum[-1] * 4294967296.0)
                            targets += [max(0, min(0xffffffff, t + dlt)) for dlt in (-1, 0, 1)]
                        ops.append("pokeraw w=%d" % untemper(rng.choice(targets)))
                        cdf = rng.random() < 0.3
                        vec = cum if cdf else p
                        if asf: ops.append(("fchoosecdf" if cdf else "fchoose") + " p=" + ",".join(f32bits(f32round(x)) for x in vec))
                        else:   ops.append(("dchoosecdf" if cdf else "dchoose") + " p=" + ",".join(dbits(x) for x in vec))
                    elif r < 0.88:
                        k = rng.randrange(1, 9)
                        p = [rng.choice([0.0, 0.0, rng.random()]) for _ in range(k)]
                        if sum(p) == 0: p[rng.randrange(k)] = 1.0
                        s = sum(p); p = [x / s for x in p]
                        if rng.random() < 0.5:
                            ops.append("dchoose p=" + ",".join(dbits(x) for x in p))
                        else:
                            cdf, a = [], 0.0
                            for x in p: a += x; cdf.append(a)
                            ops.append("dchoosecdf p=" + ",".join(dbits(x) for x in cdf))
                    else:
                        ops.append("init seed=%d" % (seed if rng.random() < 0.5 else rng.choice([rng.randrange(1, 1 << 32), 0xffffffff] + ([0] if env else []))))
                ops.append("pos32")
            else:
                s64 = rng.choice([1, 2, 42, 2**63, 2**64 - 1, 2**32, 2**32 - 1, 2**32 + 1, 5489, rng.randrange(1 << 32, 1 << 64), rng.randrange(1, 1 << 64)])
                if env and seed == 0: s64 = 0
                ops.append("new64 seed=%d" % s64)
                for _ in range(rng.randrange(1, 12)):
                    r = rng.random()
                    q = rng.random()
                    if q < 0.06:
                        ops.append(rng.choice(["dump64", "pos64", "w64 k=%d" % rng.choice([1, 3, 312, 313, rng.randrange(1, 700)])]))
                    elif q < 0.14:    # esl_rand64_Init on a used generator: same seed (replay), another seed, seed 0
                        ops.append("init64 seed=%d" % rng.choice([s64, s64, rng.randrange(1 << 32, 1 << 64), 2**64 - 1] + ([0] if env else [])))
                    elif r < 0.4:
                        ops.append("u64 k=%d" % rng.choice([1, 2, 311, 312, 313, 624, rng.randrange(1, 3000), rng.randrange(1, 50000 if ctx.tier != "quick" or c < 10 else 3000)]))
                    elif r < 0.6:
                        nn = rng.choice([1, 2, 3, 6, 10, 2**32, 2**63, 2**64 - 1, 2**63 + 1, rng.randrange(1, 2**64), rng.randrange(1, 2**20)])
                        if rng.random() < 0.6:
                            ops.append("pokeraw64 w=%d" % untemper64(rng.choice(roll_boundary_words(nn, 64, rng))))
                        ops.append("roll64 n=%d" % nn)
                    elif r < 0.68:
                        ops += self._deal64_ops(rng)
                        ops.append("pos64")        # generator consumption of the deal, exactly
                    elif r < 0.72: ops.append("int64")
                    elif r < 0.78: ops.append("dbl64")
                    elif r < 0.85: ops.append("dblclosed")
                    elif r < 0.95: ops.append("dblopen")
                    else: ops.append("new64 seed=%d" % s64)
                ops.append("pos64")
            out.append({"name": "gen%d" % c, "ops": ops, "sticky": nst})
        return out

    def _deal64_ops(self, rng):
        """esl_rand64_Deal(m, n), 1 <= m <= n: method D runs while n > 13*m (then method A or the final floor(n*Vprime) step);
        shapes: m=1; n just above/below/at the 13*m switch; n >> m (long skips, slow y2 path); m = n (all taken); huge n;
        first uniform forced to 0 (log(0) = -inf, Vprime = 0, first S rejected) or to the largest value"""
        shape = rng.random()
        if shape < 0.15:   mm = 1; nn = rng.choice([1, 2, 3, 7, 27, 1000, 2**31, 2**40, 2**53 - 1, rng.randrange(1, 10**6)])
        elif shape < 0.35: mm = rng.choice([2, 3, 5, 10, 50, 200]); nn = max(mm, 13 * mm + rng.choice([-14, -1, 0, 1, 2, 13, 14, 27]))
        elif shape < 0.6:  mm = rng.choice([2, 3, 4, 7, 20, 100, rng.randrange(2, 400)]); nn = mm * rng.choice([14, 20, 100, 1000, 10**6]) + rng.randrange(0, 50)
        elif shape < 0.7:  nn = rng.choice([1, 2, 5, 14, 100, rng.randrange(1, 3000)]); mm = nn
        elif shape < 0.8:  nn = rng.choice([2**40, 2**45, 2**52, 10**15]); mm = rng.choice([1, 2, 13, 50, 300])
        else:
            nn = rng.choice([1, 2, 5, 14, 100, 1000, rng.randrange(1, 5000), rng.randrange(1, 10**6)])
            mm = rng.choice([1, 2, min(nn, 13), min(nn, 50), nn if nn < 3000 else 100, rng.randrange(1, min(nn, 2000) + 1)])
        mm = max(1, min(mm, nn))          # precondition of esl_rand64_Deal: 1 <= m <= n
        # method D's slow path (taken when the squeeze test `Vprime <= 1.` fails, a few % of the skips) runs its y2 loop S ~ n/m
        # times: esl_rand64_Deal(m=300, n=2^52) was observed in that loop with S = 1.8e12 (hours).  Cost, not range: outside
        # the property (quantifier: n <= 10^4), so n/m stays <= 2e6 here unless m = 1 (no loop at all)
        if mm >= 2 and nn > mm * 2000000: mm = 1
        ops = []
        pk = rng.random()
        if pk < 0.12:   ops.append("pokeraw64 w=%d" % untemper64(rng.choice([0, 1 << 11, (1 << 11) - 1])))          # u = 0, 2^-53, 0
        elif pk < 0.24: ops.append("pokeraw64 w=%d" % untemper64(rng.choice([M64, M64 - (1 << 11), M64 >> 1, 1 << 63])))
        elif pk < 0.32: ops.append("pokeraw64 w=%d off=%d" % (untemper64(rng.choice([0, M64, (1 << 12) - 1, 1 << 12, M64 - (1 << 12)])), rng.randrange(1, 6)))
        ops.append("deal64 m=%d n=%d" % (mm, nn))
        return ops

    def compare(self, ctx, case, impl_out, model_out):
        # ops the model answers with "unmodelled" are judged by the monitor only
        keep = [i for i, m in enumerate(model_out) if m != "unmodelled"]
        if len(impl_out) != len(model_out):
            return super().compare(ctx, case, impl_out, model_out)
        return super().compare(ctx, case, [impl_out[i] for i in keep], [model_out[i] for i in keep])

    def nontrivial(self, case, out):
        return len(out) >= 2 and all(l.startswith("ok") for l in out)

    def _ref_monitor(self, case, out):
        """the raw stream against the independent Python reference recurrences: after every seeding whose seed is reported, follow
        the ops whose stream consumption is fixed (raw words, hashed runs, single uniform draws); any other op makes the position
        unknown until the next seeding.  Reports the seed and the 0-based stream position of the first differing word."""
        ref = {32: None, 64: None}
        for op, l in zip(case["ops"], out):
            w = op.split()
            kv = dict(x.split("=", 1) for x in w[1:] if "=" in x)
            o = w[0]
            if not l.startswith("ok"): return None
            if o in ("new32", "newtime", "newfast", "init", "new64", "init64"):
                if not l.startswith("ok seed="): return None
                sd = int(l[8:])
                if o in ("new64", "init64"): ref[64] = RefStream("mt64", sd)
                elif o == "init": ref[32] = RefStream(ref[32].kind, sd) if ref[32] else None
                else: ref[32] = RefStream("lcg" if o == "newfast" else "mt32", sd)
                if o == "init" and ref[32] is None: return None
                continue
            b = 64 if o in ("u64", "w64", "dbl64", "dblclosed", "dblopen", "int64", "roll64", "deal64", "pokeraw64", "pos64", "dump64") else 32
            r = ref[b]
            if o in ("env", "pos32", "pos64", "dump32", "dump64", "seedzero32", "seedzero64"): continue
            if r is None: continue
            name = {"mt32": "MT19937", "mt64": "MT19937-64", "lcg": "LCG(69069,1)"}[r.kind]
            if o in ("w32", "w64"):
                vals = [int(x) for x in l[3:].split(",") if x]
                for v in vals:
                    p0 = r.pos; e = r.next()
                    if v != e:
                        return Failure("monitor", "%s stream of seed %d: word at stream position %d is %d, the reference recurrence gives %d" % (name, r.seed, p0, v, e))
            elif o in ("u32", "u64"):
                k = int(kv.get("k", "1")); p0 = r.pos; h = FNV0; e = 0
                for _ in range(k):
                    e = r.next(); h = ((h ^ e) * FNVP) & M64
                if l != "ok h=%016x last=%d" % (h, e):
                    return Failure("monitor", "%s stream of seed %d: the %d words at stream positions %d..%d differ from the reference recurrence (got %s, reference last=%d)" % (name, r.seed, k, p0, p0 + k - 1, l, e))
            elif o in ("random", "dbl64", "dblclosed", "dblopen", "int64"):
                p0 = r.pos; e = r.next()
                if o == "random": exp = "ok " + dbits(e / 4294967296.0)
                elif o == "dbl64": exp = "ok " + dbits((e >> 11) * (1.0 / 9007199254740992.0))
                elif o == "dblclosed": exp = "ok " + dbits((e >> 11) * (1.0 / 9007199254740991.0))
                elif o == "dblopen": exp = "ok " + dbits(((e >> 12) + 0.5) * (1.0 / 4503599627370496.0))
                else: exp = "ok %d" % (e >> 1)
                if l != exp:
                    return Failure("monitor", "%s stream of seed %d: %s at stream position %d returned %s, the documented function of the reference word %d is %s" % (name, r.seed, o, p0, l, e, exp))
            elif o in ("roll", "roll64", "unipos", "deal"):
                # derived draws whose consumption is a simple function of the words: recomputed from the reference stream
                p0 = r.pos
                if o in ("roll", "roll64"):
                    n = int(kv["n"]); f = (M32 if o == "roll" else M64) // n
                    for _ in range(100000):
                        v = r.next() // f
                        if v < n: break
                    exp = "ok %d" % v
                elif o == "unipos":
                    for _ in range(100000):
                        e = r.next()
                        if e: break
                    exp = "ok " + dbits(e / 4294967296.0)
                else:
                    m, n = int(kv["m"]), int(kv["n"]); got = []; j = 0
                    while j < n and len(got) < m:
                        if float(n - j) * (r.next() / 4294967296.0) < float(m - len(got)): got.append(j)
                        j += 1
                    exp = "ok " + ",".join(map(str, got))
                if l != exp:
                    return Failure("monitor", "%s stream of seed %d: %s at stream position %d returned %s; the documented function of the reference stream gives %s" % (name, r.seed, op, p0, l[:80], exp[:80]))
            else:
                ref[b] = None      # consumption depends on the values: position unknown until the next seeding
        return None

    def monitor(self, ctx, case, out):
        f = self._ref_monitor(case, out)
        if f: return f
        # direct statements of the property on implementation output (ranges)
        for op, l in zip(case["ops"], out):
            w = op.split()
            kv = dict(x.split("=", 1) for x in w[1:] if "=" in x)
            if not l.startswith("ok"):
                if l.startswith(("fault", "atexit")): continue
                return Failure("monitor", "operation %r returned %r" % (op, l))
            if w[0] in ("roll", "roll64"):
                v = int(l.split()[1])
                if not (0 <= v < int(kv["n"])):
                    return Failure("monitor", "roll of n=%s returned %d" % (kv["n"], v))
            elif w[0] in ("deal", "deal64"):
                m, n = int(kv["m"]), int(kv["n"])
                vals = [int(x) for x in l[3:].split(",") if x]
                if len(vals) != m or any(not (0 <= v < n) for v in vals) or any(a >= b for a, b in zip(vals, vals[1:])):
                    return Failure("monitor", "deal m=%d n=%d returned %r" % (m, n, vals[:20]))
            elif w[0] == "int64":
                if not (0 <= int(l.split()[1]) < 2**63):
                    return Failure("monitor", "esl_rand64_int64 returned %s outside 0..2^63-1" % l.split()[1])
            elif w[0] in ("random", "unipos", "dbl64", "dblclosed", "dblopen"):
                x = struct.unpack("<d", struct.pack("<Q", int(l.split()[1], 16)))[0]
                lo_open = w[0] in ("unipos", "dblopen"); hi_closed = w[0] == "dblclosed"
                if not ((x > 0 if lo_open else x >= 0) and (x <= 1 if hi_closed else x < 1)):
                    return Failure("monitor", "%s returned %r outside its interval" % (w[0], x))
            elif w[0] in ("dchoose", "dchoosecdf", "fchoose", "fchoosecdf"):
                if w[0][0] == "f":
                    p = [struct.unpack("<f", struct.pack("<I", int(t, 16)))[0] for t in kv["p"].split(",")]
                else:
                    p = [struct.unpack("<d", struct.pack("<Q", int(t, 16)))[0] for t in kv["p"].split(",")]
                i = int(l.split()[1])
                if w[0].endswith("cdf"): p = [p[0]] + [b - a for a, b in zip(p, p[1:])]
                if not (0 <= i < len(p)) or p[i] == 0.0:
                    return Failure("monitor", "choice returned index %d of zero probability" % i)
            elif w[0].startswith("seedzero") and l != "ok nonzero replay":
                return Failure("monitor", "seed 0: %s" % l)
            elif w[0] in ("new32", "newfast", "new64", "init", "init64", "newtime"):
                sd = kv.get("seed", "0")
                if w[0] in ("new32", "newfast", "init"): sd = str(int(sd) & M32)      # uint32_t parameter: a wider seed is truncated
                if sd != "0" and l != "ok seed=%s" % sd:
                    return Failure("monitor", "seed %s reported as %s" % (sd, l))
                if sd == "0" and (not l.startswith("ok seed=") or int(l[8:]) == 0):
                    return Failure("monitor", "seed 0 must select a non-zero seed that is reported back; got %s" % l)
            elif w[0] in ("pos32", "pos64") and l.startswith("ok mti="):
                lim = 624 if w[0] == "pos32" else 312
                if not (0 <= int(l[7:]) <= lim):
                    return Failure("monitor", "table position %s outside 0..%d" % (l[7:], lim))
        return None

SPEC = C09()
