"""C09 — random number streams. Model: lean/EaselModel/Random/*, theorems: Props/C09.lean, harness: h_random.c"""
import struct
from vlib.engine import Prop, Failure
from translate import rand_tables

def f32bits(x):
    return "%08x" % struct.unpack("<I", struct.pack("<f", x))[0]

def f32round(x):
    return struct.unpack("<f", struct.pack("<f", x))[0]

def temper(y):
    y ^= y >> 11; y ^= (y << 7) & 0x9d2c5680; y ^= (y << 15) & 0xefc60000; y ^= y >> 18
    return y & 0xffffffff

def untemper(y):
    """raw table word w with temper(w) == y (used with the pokeraw test hook to reach boundary rolls)"""
    y ^= y >> 18
    y ^= (y << 15) & 0xefc60000
    x = y
    for _ in range(6): x = y ^ ((x << 7) & 0x9d2c5680)
    y = x & 0xffffffff
    x = y
    for _ in range(3): x = y ^ (x >> 11)
    return x & 0xffffffff

M64 = (1 << 64) - 1
def temper64(x):
    x ^= (x >> 29) & 0x5555555555555555
    x ^= (x << 17) & 0x71D67FFFEDA60000 & M64
    x ^= (x << 37) & 0xFFF7EEE000000000 & M64
    x ^= x >> 43
    return x & M64

def untemper64(y):
    x = y
    for _ in range(3): x = y ^ (x >> 43)          # invert x ^= x >> 43
    y = x & M64; x = y
    for _ in range(3): x = y ^ ((x << 37) & 0xFFF7EEE000000000)
    y = x & M64; x = y
    for _ in range(5): x = y ^ ((x << 17) & 0x71D67FFFEDA60000)
    y = x & M64; x = y
    for _ in range(4): x = y ^ ((x >> 29) & 0x5555555555555555)
    return x & M64

assert all(temper64(untemper64(v)) == v for v in (0, 1, M64, 1 << 63, 0x123456789abcdef0, M64 - 1, 0x5555555555555555))

def roll_boundary_words(n, bits, rng):
    """raw words around the accept/reject boundaries of a roll of n: v*f-1, v*f, v*f+1 for v in {1, n-1, n}, 0, max"""
    W = (1 << bits) - 1
    f = W // n
    c = [0, W, W - 1]
    for v in (1, max(1, n - 1), n, rng.randrange(1, n + 1)):
        c += [min(W, max(0, v * f + d)) for d in (-1, 0, 1)]
    return c

assert all(temper(untemper(v)) == v for v in (0, 1, 0xffffffff, 0x80000000, 0x12345678, 0xfffffffe))

def dbits(x):
    return "%016x" % struct.unpack("<Q", struct.pack("<d", x))[0]

class C09(Prop):
    id = "C09"
    lean_modules = ["EaselModel.Props.C09"]
    lean_exe = "c09_driver"
    harness = "h_random.c"
    theorems = ["EaselModel.Props.C09." + t for t in (
        "mt19937_stream", "mt19937_64_stream", "fast_stream", "reinit_replays", "reinit_reports_seed",
        "seed0_nonzero32", "seed0_nonzero64", "nonzero_seed_kept", "roll_lt", "roll_unbiased32", "roll_unbiased64",
        "random_unit", "rand64_double_ranges", "deal_spec", "dchoose_nonzero",
        "rand64_deal_spec", "rand64_deal_spec_real", "rand64_deal_vprime_one_clamped", "rand64_deal_first_accepted",
        "uniformPositive_pos", "uniform_positive_unit", "gaussian_in_bounds", "gauss_table_sizes", "gamma_positive", "dirichlet_simplex",
        "mem_bytes", "floatstring_fits", "samplers_replay", "mt_constants_published")] + ["EaselModel.MTP.fill_correct", "EaselModel.MTP.stream_eq_spec"]
    claimed = True
    technique = "Lean 4 proof (generic in-place-refill = recurrence theorem, stream invariant by induction, roll/deal arithmetic) + exact differential correspondence of the executable model with the ASan/UBSan-built C generators"
    level_text = ("Theorems for all seeds and all stream positions: the model's MT19937 / MT19937-64 / LCG output equals the reference recurrence across any number of refills; "
                  "re-init replays; seed 0 gives a non-zero reported seed; Roll is the unbiased rejection map with equal-size preimages; doubles lie in their intervals; Deal gives m increasing in-range values. "
                  "The hand-written model is tied to the working tree by a bit-exact differential run over operation histories; any divergence is a concrete failing (seed, history).")
    level_note = ("Trusted: Lean kernel + propext/Classical.choice/Quot.sound; the hand model's fidelity is checked (not proved) by the differential run; clock/pid inputs of seed selection are arbitrary inputs; "
                  "rejection loops terminate with probability 1 (fuel in the model); float comparison in Deal assumed equal to exact comparison (L0); esl_rand64_Deal (Vitter D + A) is modelled exactly (binary64 through the Float instance, sample predicted bit for bit) "
                  "and its structure theorem (m strictly increasing values in [0,n), every generator state) is proved over any ordered field with arbitrary exp/log oracles; "
                  "Gaussian/Gamma/Dirichlet/mem/floatstring are modelled and driven bit for bit, their support theorems are over R (L0 for binary64).")
    diverge_is_violation = True   # every op is a deterministic documented function of (seed, history)
    trusted_base = ["hand model of esl_random.c/esl_rand64.c tied by exact differential run (h_random.c, ASan+UBSan build of the working tree)",
                    "Lean compiler/runtime for the executable driver", "gcc; IEEE-754 division/multiplication by powers of two exact (L0)"]
    assumptions = ["choose_arbitrary_seed's clock/pid are arbitrary inputs of the model",
                   "rejection loops (Roll, UniformPositive) modelled with fuel 10^6: terminate with probability 1, not for every stream",
                   "esl_rnd_Deal's double comparison equals the exact rational comparison (n < 2^31; separation 2^20 ulp) - checked by the differential run only",
                   "esl_rand64_Deal: int64 skeleton modelled in Int (no overflow for 13*m < 2^63, n < 2^63); binary64 facts 0 <= exp(x), exp(x) <= 1 for x <= 0, log(u) <= 0 on [0,1] and exactness of integer-valued doubles below 2^53 are L0 (checked by the bit-exact differential run, not proved)",
                   "test hooks pokeraw/pokeraw64 (overwrite a table word k draws ahead) are harness-only; every table content is a state of the generator's single cycle"]
    rule = ("cases = operation histories (create/re-init/draw/roll/deal/choose) over boundary, power-of-two and random seeds; "
            "non-trivial = history with at least one draw after a table refill or a derived draw; distinct by output trace")

    def generated(self, ctx):
        # Gaussian tables and the integer literals of the MT / LCG routines, regenerated from the working tree
        g, self._gtabs, self._lits = rand_tables.generate(ctx)
        return g

    def corpus(self, ctx):
        return [dict(c, sticky=1) for c in self._corpus()]

    GAMMA_A = [0.01, 0.5, 0.999, 1.0, 1.5, 2.0, 2.999, 3.0, 3.0000001, 3.5, 7.0, 11.0, 12.0, 12.5, 50.0, 1000.0]

    def _sampler_ops(self, rng, mersenne):
        """Gaussian / Gamma / Dirichlet / mem / floatstring on the current 32-bit generator (either kind).
        Gaussian: the first uniform decides sign, table index i = floor(32*(2u-s)) and centre/tail; force it (pokeraw) onto
        index boundaries k/64, onto 0.5 +- 1 ulp, onto the smallest/largest uniforms (deepest tail: i reaches 31)."""
        r = rng.random()
        ops = []
        if r < 0.4:
            if mersenne and rng.random() < 0.6:
                k = rng.randrange(0, 65)
                x = rng.choice([1, 2, 3, 0x7fffffff, 0x80000000, 0x80000001, 0x80000002, 0xffffffff, 0xfffffffe,
                                min(0xffffffff, max(1, k * (1 << 26) + rng.choice([-1, 0, 1]))), rng.randrange(1, 1 << 27),
                                0x80000000 + rng.randrange(1, 1 << 27), rng.randrange(1, 1 << 12)])
                ops.append("pokeraw w=%d" % untemper(x))
            mean = rng.choice([0.0, 0.0, 1.0, -3.5, 1e6, rng.uniform(-10, 10)])
            sd = rng.choice([1.0, 1.0, 0.0, 2.5, 1e-3, rng.uniform(0, 10)])
            ops.append("gauss mean=%s sd=%s" % (dbits(mean), dbits(sd)))
        elif r < 0.7:
            a = rng.choice(self.GAMMA_A + [rng.uniform(0.001, 20.0), rng.uniform(0.001, 1.0), float(rng.randrange(1, 12))])
            ops.append("gamma a=%s" % dbits(a))
        elif r < 0.85:
            K = rng.randrange(1, 9)
            if rng.random() < 0.3: ops.append("dirichlet k=%d" % K)
            else: ops.append("dirichlet alpha=" + ",".join(dbits(rng.choice(self.GAMMA_A[:12] + [rng.uniform(0.01, 5.0)])) for _ in range(K)))
        elif r < 0.93:
            ops.append("mem n=%d" % rng.choice([0, 1, 7, 64, 300]))
        else:
            ops.append("floatstr")
        return ops

    def _corpus(self):
        return [
            {"name": "ref-5489-like", "ops": ["new32 seed=42", "u32 k=1", "u32 k=623", "u32 k=1", "u32 k=2000", "init seed=42", "u32 k=1"]},
            {"name": "seedzero", "ops": ["seedzero32", "seedzero64"]},
            {"name": "fchoose-trailing-zero-maxroll", "ops": ["new32 seed=42", "pokeraw w=%d" % untemper(0xffffffff),
                "fchoose p=" + ",".join(f32bits(f32round(c / 100.0)) for c in (45, 35, 15, 5, 0, 0)), "u32 k=3"]},
            {"name": "roll-boundary", "ops": ["new32 seed=1", "pokeraw w=%d" % untemper(10 * (0xffffffff // 10)), "roll n=10",
                "pokeraw w=%d" % untemper(10 * (0xffffffff // 10) - 1), "roll n=10", "pokeraw w=%d" % untemper(0xffffffff // 10), "roll n=10", "u32 k=2"]},
            {"name": "roll64-boundary", "ops": ["new64 seed=1", "pokeraw64 w=%d" % untemper64(10 * (M64 // 10)), "roll64 n=10",
                "pokeraw64 w=%d" % untemper64(10 * (M64 // 10) - 1), "roll64 n=10", "u64 k=2"]},
            {"name": "dchoose-zero-roll", "ops": ["new32 seed=7", "pokeraw w=%d" % untemper(0), "dchoose p=" + ",".join(dbits(x) for x in (0.0, 0.5, 0.5)), "random"]},
            {"name": "fast", "ops": ["newfast seed=1", "u32 k=3", "roll n=6", "init seed=1", "u32 k=3"]},
            # regression for fix ba43348: the accepted Vprime is exactly 1.0; before the fix the C code returned {7,27}
            {"name": "deal64-vprime-one",
             "ops": ["new64 seed=1", "pokeraw64 w=%d" % untemper64(9305357566071262703),
                     "pokeraw64 w=%d off=1" % untemper64(18276914810643972096), "deal64 m=2 n=27", "u64 k=2"]},
            {"name": "deal64-methods", "ops": ["new64 seed=42", "deal64 m=5 n=1000000", "deal64 m=50 n=100", "deal64 m=1 n=1", "deal64 m=100 n=100",
                     "deal64 m=20 n=1099511627776", "pokeraw64 w=0", "deal64 m=3 n=1000", "pokeraw64 w=%d" % untemper64(M64), "deal64 m=1 n=7", "u64 k=3"]},
            {"name": "mt64", "ops": ["new64 seed=42", "u64 k=1", "u64 k=311", "u64 k=1", "u64 k=1000", "roll64 n=18446744073709551615", "dbl64", "dblclosed", "dblopen"]},
        ]

    def seeds32(self, rng):
        b = [1, 2, 3, 42, 0x7fffffff, 0x80000000, 0xffffffff, 0xfffffffe, 69069, 5489]
        b += [1 << k for k in range(32)]
        return b

    def cases(self, ctx):
        rng = ctx.rng
        n = 600 if ctx.tier == "quick" else 6000
        seeds = self.seeds32(rng)
        out = []
        for c in range(n):
            ops = []
            seed = rng.choice(seeds) if rng.random() < 0.5 else rng.randrange(1, 1 << 32)
            which = rng.random()
            if which < 0.6:
                ops.append(("new32" if rng.random() < 0.85 else "newfast") + " seed=%d" % seed)
                for _ in range(rng.randrange(1, 14)):
                    r = rng.random()
                    if rng.random() < 0.22:
                        ops += self._sampler_ops(rng, ops[0].startswith("new32"))
                    elif r < 0.35:
                        ops.append("u32 k=%d" % rng.choice([1, 2, 5, 100, 623, 624, 625, 1248, rng.randrange(1, 3000), rng.randrange(1, 100000 if ctx.tier != "quick" or c < 10 else 5000)]))
                    elif r < 0.5:
                        nn = rng.choice([1, 2, 3, 6, 7, 10, 19, 255, 256, 389, 1000, 65537, 2**31 - 1, 2**30 + 1, 1898087491, rng.randrange(1, 2**31)])
                        if ops[0].startswith("new32") and rng.random() < 0.6:   # roll with the next raw word on an accept/reject boundary
                            ops.append("pokeraw w=%d" % untemper(rng.choice(roll_boundary_words(nn, 32, rng))))
                        ops.append("roll n=%d" % nn)
                    elif r < 0.6:
                        ops.append("random")
                    elif r < 0.65:
                        ops.append("unipos")
                    elif r < 0.78:
                        nn = rng.choice([1, 2, 5, 10, 100, rng.randrange(1, 3000)])
                        ops.append("deal m=%d n=%d" % (rng.choice([0, 1, nn, nn // 2, rng.randrange(0, nn + 1)]), nn))
                    elif r < 0.84 and ops[0].startswith("new32"):
                        # categorical choice at a forced boundary roll: float / double vectors from normalised counts
                        # (sums slightly off 1), zeros anywhere incl. trailing; roll = 0, max, or next to a cumulative sum
                        k = rng.randrange(1, 9)
                        cnt = [rng.choice([0, 0, rng.randrange(1, 100)]) for _ in range(k)]
                        if sum(cnt) == 0: cnt[rng.randrange(k)] = 7
                        if rng.random() < 0.5: cnt += [0] * rng.randrange(1, 3)
                        tot = float(sum(cnt))
                        asf = rng.random() < 0.6
                        p = [f32round(c / tot) for c in cnt] if asf else [c / tot for c in cnt]
                        cum, a = [], 0.0
                        for x in p: a += x; cum.append(a)
                        targets = [0, 1, 0xffffffff, 0xfffffffe, 0xffffff00]
                        for cval in cum:
                            t = int(cval / cum[-1] * 4294967296.0)
                            targets += [max(0, min(0xffffffff, t + dlt)) for dlt in (-1, 0, 1)]
                        ops.append("pokeraw w=%d" % untemper(rng.choice(targets)))
                        cdf = rng.random() < 0.3
                        vec = cum if cdf else p
                        if asf: ops.append(("fchoosecdf" if cdf else "fchoose") + " p=" + ",".join(f32bits(f32round(x)) for x in vec))
                        else:   ops.append(("dchoosecdf" if cdf else "dchoose") + " p=" + ",".join(dbits(x) for x in vec))
                    elif r < 0.88:
                        k = rng.randrange(1, 9)
                        p = [rng.choice([0.0, 0.0, rng.random()]) for _ in range(k)]
                        if sum(p) == 0: p[rng.randrange(k)] = 1.0
                        s = sum(p); p = [x / s for x in p]
                        if rng.random() < 0.5:
                            ops.append("dchoose p=" + ",".join(dbits(x) for x in p))
                        else:
                            cdf, a = [], 0.0
                            for x in p: a += x; cdf.append(a)
                            ops.append("dchoosecdf p=" + ",".join(dbits(x) for x in cdf))
                    else:
                        ops.append("init seed=%d" % (seed if rng.random() < 0.5 else rng.randrange(1, 1 << 32)))
            else:
                s64 = rng.choice([1, 2, 42, 2**63, 2**64 - 1, 2**32, 5489, rng.randrange(1, 1 << 64), rng.randrange(1, 1 << 64)])
                ops.append("new64 seed=%d" % s64)
                for _ in range(rng.randrange(1, 12)):
                    r = rng.random()
                    if r < 0.4:
                        ops.append("u64 k=%d" % rng.choice([1, 2, 311, 312, 313, 624, rng.randrange(1, 3000), rng.randrange(1, 50000 if ctx.tier != "quick" or c < 10 else 3000)]))
                    elif r < 0.6:
                        nn = rng.choice([1, 2, 3, 6, 10, 2**32, 2**63, 2**64 - 1, 2**63 + 1, rng.randrange(1, 2**64), rng.randrange(1, 2**20)])
                        if rng.random() < 0.6:
                            ops.append("pokeraw64 w=%d" % untemper64(rng.choice(roll_boundary_words(nn, 64, rng))))
                        ops.append("roll64 n=%d" % nn)
                    elif r < 0.68:
                        ops += self._deal64_ops(rng)
                    elif r < 0.72: ops.append("int64")
                    elif r < 0.78: ops.append("dbl64")
                    elif r < 0.85: ops.append("dblclosed")
                    elif r < 0.95: ops.append("dblopen")
                    else: ops.append("new64 seed=%d" % s64)
            out.append({"name": "gen%d" % c, "ops": ops, "sticky": 1})
        return out

    def _deal64_ops(self, rng):
        """esl_rand64_Deal(m, n), 1 <= m <= n: method D runs while n > 13*m (then method A or the final floor(n*Vprime) step);
        shapes: m=1; n just above/below/at the 13*m switch; n >> m (long skips, slow y2 path); m = n (all taken); huge n;
        first uniform forced to 0 (log(0) = -inf, Vprime = 0, first S rejected) or to the largest value"""
        shape = rng.random()
        if shape < 0.15:   mm = 1; nn = rng.choice([1, 2, 3, 7, 27, 1000, 2**31, 2**40, 2**53 - 1, rng.randrange(1, 10**6)])
        elif shape < 0.35: mm = rng.choice([2, 3, 5, 10, 50, 200]); nn = max(mm, 13 * mm + rng.choice([-14, -1, 0, 1, 2, 13, 14, 27]))
        elif shape < 0.6:  mm = rng.choice([2, 3, 4, 7, 20, 100, rng.randrange(2, 400)]); nn = mm * rng.choice([14, 20, 100, 1000, 10**6]) + rng.randrange(0, 50)
        elif shape < 0.7:  nn = rng.choice([1, 2, 5, 14, 100, rng.randrange(1, 3000)]); mm = nn
        elif shape < 0.8:  nn = rng.choice([2**40, 2**45, 2**52, 10**15]); mm = rng.choice([1, 2, 13, 50, 300])
        else:
            nn = rng.choice([1, 2, 5, 14, 100, 1000, rng.randrange(1, 5000), rng.randrange(1, 10**6)])
            mm = rng.choice([1, 2, min(nn, 13), min(nn, 50), nn if nn < 3000 else 100, rng.randrange(1, min(nn, 2000) + 1)])
        mm = max(1, min(mm, nn))          # precondition of esl_rand64_Deal: 1 <= m <= n
        ops = []
        pk = rng.random()
        if pk < 0.12:   ops.append("pokeraw64 w=%d" % untemper64(rng.choice([0, 1 << 11, (1 << 11) - 1])))          # u = 0, 2^-53, 0
        elif pk < 0.24: ops.append("pokeraw64 w=%d" % untemper64(rng.choice([M64, M64 - (1 << 11), M64 >> 1, 1 << 63])))
        elif pk < 0.32: ops.append("pokeraw64 w=%d off=%d" % (untemper64(rng.choice([0, M64, (1 << 12) - 1, 1 << 12, M64 - (1 << 12)])), rng.randrange(1, 6)))
        ops.append("deal64 m=%d n=%d" % (mm, nn))
        return ops

    def compare(self, ctx, case, impl_out, model_out):
        # ops the model answers with "unmodelled" are judged by the monitor only
        keep = [i for i, m in enumerate(model_out) if m != "unmodelled"]
        if len(impl_out) != len(model_out):
            return super().compare(ctx, case, impl_out, model_out)
        return super().compare(ctx, case, [impl_out[i] for i in keep], [model_out[i] for i in keep])

    def nontrivial(self, case, out):
        return len(out) >= 2 and all(l.startswith("ok") for l in out)

    def monitor(self, ctx, case, out):
        # direct statements of the property on implementation output (ranges; reference stream is checked via the model)
        for op, l in zip(case["ops"], out):
            w = op.split()
            kv = dict(x.split("=", 1) for x in w[1:] if "=" in x)
            if not l.startswith("ok"):
                if l.startswith(("fault", "atexit")): continue
                return Failure("monitor", "operation %r returned %r" % (op, l))
            if w[0] in ("roll", "roll64"):
                v = int(l.split()[1])
                if not (0 <= v < int(kv["n"])):
                    return Failure("monitor", "roll of n=%s returned %d" % (kv["n"], v))
            elif w[0] in ("deal", "deal64"):
                m, n = int(kv["m"]), int(kv["n"])
                vals = [int(x) for x in l[3:].split(",") if x]
                if len(vals) != m or any(not (0 <= v < n) for v in vals) or any(a >= b for a, b in zip(vals, vals[1:])):
                    return Failure("monitor", "deal m=%d n=%d returned %r" % (m, n, vals[:20]))
            elif w[0] == "int64":
                if not (0 <= int(l.split()[1]) < 2**63):
                    return Failure("monitor", "esl_rand64_int64 returned %s outside 0..2^63-1" % l.split()[1])
            elif w[0] in ("random", "unipos", "dbl64", "dblclosed", "dblopen"):
                x = struct.unpack("<d", struct.pack("<Q", int(l.split()[1], 16)))[0]
                lo_open = w[0] in ("unipos", "dblopen"); hi_closed = w[0] == "dblclosed"
                if not ((x > 0 if lo_open else x >= 0) and (x <= 1 if hi_closed else x < 1)):
                    return Failure("monitor", "%s returned %r outside its interval" % (w[0], x))
            elif w[0] in ("dchoose", "dchoosecdf", "fchoose", "fchoosecdf"):
                if w[0][0] == "f":
                    p = [struct.unpack("<f", struct.pack("<I", int(t, 16)))[0] for t in kv["p"].split(",")]
                else:
                    p = [struct.unpack("<d", struct.pack("<Q", int(t, 16)))[0] for t in kv["p"].split(",")]
                i = int(l.split()[1])
                if w[0].endswith("cdf"): p = [p[0]] + [b - a for a, b in zip(p, p[1:])]
                if not (0 <= i < len(p)) or p[i] == 0.0:
                    return Failure("monitor", "choice returned index %d of zero probability" % i)
            elif w[0].startswith("seedzero") and l != "ok nonzero replay":
                return Failure("monitor", "seed 0: %s" % l)
            elif w[0] in ("new32", "newfast", "new64", "init") and l != "ok seed=%s" % kv["seed"]:
                return Failure("monitor", "seed %s reported as %s" % (kv["seed"], l))
        return None

SPEC = C09()
