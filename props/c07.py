"""C07 — fetching by key, number or coordinates returns what a sequential scan returns.
Model: lean/EaselModel/Sqio/{Model,Fetch}.lean, theorems: Props/C07.lean, harness: h_sqio.c (shared with C04, C02).
The index is built by the tool code itself (create_ssi_index of miniapps/esl-sfetch.c, #included by the harness)."""
from vlib.engine import Prop, Failure
from props import sqio_common as S

hx = S.hx


class C07(Prop):
    id = "C07"
    lean_modules = ["EaselModel.Props.C07"]
    lean_exe = "c07_driver"
    harness = "h_sqio.c"
    theorems = ["EaselModel.Props.C07." + t for t in S.C07_THEOREMS]
    claimed = True
    diverge_is_violation = True
    level_text = ("Theorems for every layout and every start: under the line geometry (l complete lines of b bytes / r residues before the target line) seeking to doff + l*b [+ (start-1)%r] and skipping start - actual_start residues delivers the record's residues from residue `start` on, in the residue, line and brute-force addressing cases; "
                  "esl_ssi_FindSubseq's three cases are exactly that arithmetic; absent key => eslENOTFOUND, start outside 1..L => eslERANGE, for every file and index; the tracker's guarantee (every line followed by another terminated line has rpl residues) and two decide-checked counter-examples showing it does NOT bound last lines. "
                  "The executable model of PositionByKey/ByNumber/Fetch/FetchInfo/FetchSubseq/read_nres is tied to the working tree by an exact differential run against a real SSI index built by esl-sfetch's create_ssi_index, all (key,start,end) on small files, and a fetch = slice-of-sequential-scan monitor (incl. esl-sfetch's own whole-record path = PositionByKey + Read + esl_sqio_Echo, its subsequence path with reverse complement, and its key-file / GDF-file loops (-f, -Cf); Echo'd bytes = bytes roff..eoff of the file).")
    level_note = ("FetchSubseq = slice of the scan is established by the differential run + monitor, not by a theorem about the whole reader. FASTA, EMBL/UniProt, GenBank/DDBJ (accessions as aliases); esl-afetch / Stockholm databases (1..20 quick, ..50 thorough alignments, names + accessions, prefix names) are covered by the harness + monitor only (real index built by esl-afetch's create_ssi_index, fetched entry = the entry of that name/accession, absent key => eslENOTFOUND), no model; the SSI file itself is C06. "
                  "Known finding (genuine defect, repair not small): seebuf's bpl/rpl tracker accepts a last/only line longer than rpl, FetchSubseq then returns other residues with eslOK - witnesses in known_findings.d/C07.json, theorem carried as bplrpl_sound_partial + bplrpl_unsound_*.")
    assumptions = ["the SSI index returns what create_ssi_index stored (C06)", "fread returns min(B, remaining) bytes; allocation never fails",
                   "the model mirrors esl_sqio_ascii.c / esl_ssi_FindSubseq by hand; fidelity is checked by the differential run only",
                   "esl-afetch / esl_msafile_PositionByKey (alignment databases) are outside the model: harness + monitor only"]
    technique = ("Lean 4 proofs (offset arithmetic of esl_ssi_FindSubseq in its three addressing cases, soundness/unsoundness of the bytes/residues-per-line tracker, error cases) "
                 "+ exact differential correspondence of the executable model of PositionByKey/ByNumber/Fetch/FetchInfo/FetchSubseq/read_nres with the ASan/UBSan build, "
                 "against a real SSI index built by esl-sfetch's create_ssi_index, + fetch = slice-of-scan monitors")
    trusted_base = ["hand model of esl_sqio_ascii.c / esl_ssi_FindSubseq tied by exact differential run (h_sqio.c)",
                    "the on-disk SSI index (esl_ssi.c, esl_newssi_*) is used as built by the real code; its own correctness is C06",
                    "Lean compiler/runtime for the executable driver; gcc; ASan/UBSan"]
    rule = ("cases = generated FASTA files (constant width / blocks of ten / ragged; CRLF; exactly-full last line; empty sequences; prefix names) x "
            "all or sampled (key,start,end) incl. boundary violations x fetch calls x text/digital x B; non-trivial = at least one successful subsequence fetch")

    def generated(self, ctx):
        return S.generated(ctx)

    def canonical(self, line):
        return S.canonical(line)

    def compare(self, ctx, case, impl_out, model_out):
        return S.compare(self, case, impl_out, model_out)

    def corpus(self, ctx):
        cs = []
        # the three addressing cases on one record each; start on a line boundary, in the last partial line, exactly-full last line
        for nm, f in (("residue", b">a d\nACGTAC\nGTACGT\nAC\n>b\nAAAAAA\nCCCCCC\n"),
                      ("line", b">a d\r\nACGTAC\r\nGTACGT\r\nAC\r\n>b\r\nAAAAAA\r\nCCCCCC\r\n"),
                      ("none", b">a d\nACGTAC\nGTAC\nGTAC\n>b\nAAAAAA\nCCCCCC")):
            ops = ["file ext=fa hex=" + hx(f), "open fmt=fasta abc=text B=5", "read", "read", "read", "index"]
            for k, L in (("a", 14), ("b", 12)):
                for s in range(1, L + 1):
                    for e in (s, min(L, s + 6), L):
                        ops.append("fetchsub key=%s s=%d e=%d" % (hx(k.encode()), s, e))
                ops += ["fetchsub key=%s s=%d e=%d" % (hx(k.encode()), s, e) for s, e in ((0, 3), (L + 1, L + 1), (3, 2), (2, L + 1), (-1, 2), (1, 0), (L, 0))]
                ops += ["toolsub key=%s s=%d e=%d" % (hx(k.encode()), s, e) for s, e in ((1, L), (L, 1), (5, 2), (3, 0))]
            ops += ["fetch key=" + hx(b"b"), "fetchinfo key=" + hx(b"a"), "fetch key=" + hx(b"zz"), "poskey key=" + hx(b"b"), "read", "posnum n=0", "readinfo", "posnum n=2", "fetchsub key=" + hx(b"zz") + " s=1 e=1"]
            cs.append({"name": "addr-" + nm, "ops": ops, "sticky": 1})
        # witnesses of the known finding (DESIGN 2.6): the tracker keeps rpl/bpl although a last line is longer / carries blanks
        for nm, f, k, s, e in (("long-single-line", b">A\nACGT\nAC\n>B\nACGTAC\n", "B", 5, 5), ("long-line-at-init", b">A\nAC\nACGT\n", "A", 5, 5),
                               ("unterminated-after-short", b">A\nACG\nACG\nA\nACG", "A", 9, 9), ("blank-in-last-line", b">a\nACGT\nACGT\n A C\n", "a", 10, 10)):
            cs.append({"name": "known-" + nm, "sticky": 1, "known_key": "C07:" + S.KEY_GEOM,
                       "ops": ["file ext=fa hex=" + hx(f), "open fmt=fasta abc=text B=4096", "read", "read", "read", "index",
                               "fetchsub key=%s s=%d e=%d" % (hx(k.encode()), s, e)]})
        # regression (50dd524): a letter outside the digital alphabet inside the requested record: eslEFORMAT from all three calls
        cs.append({"name": "fetch-illegal-residue", "sticky": 1, "meta": {"fetchspike": {"a": "ACE", "b": "ACGTAEGT"}},
                   "ops": ["file ext=fa hex=" + hx(b">a\nACE\n>b\nACGT\nAEGT\n"), "open fmt=fasta abc=dna B=4096", "index", "fetchsub key=61 s=1 e=3", "close",
                           "open fmt=fasta abc=dna B=3", "index", "fetchsub key=62 s=5 e=8", "close", "open fmt=fasta abc=rna B=7", "index", "fetch key=62", "close",
                           "open fmt=fasta abc=dna B=2", "index", "fetchinfo key=61", "close", "open fmt=fasta abc=text B=4096", "index", "fetchsub key=62 s=5 e=8"]})
        return cs

    def cases(self, ctx):
        rng = ctx.rng
        n = 700 if ctx.tier == "quick" else 6000
        out = []
        for c in range(n):
            kind = rng.choice(["dna", "dna", "dna", "rna", "amino"])
            geometry = rng.choice(["const", "const", "const", "ragged"])
            small = rng.random() < 0.6
            fmt = "fasta"
            if rng.random() < 0.2:
                fmt = rng.choice(["embl", "uniprot", "genbank", "ddbj"])
                kind = "amino" if fmt == "uniprot" else rng.choice(["dna", "rna"])
                data, meta = S.gen_linebased(rng, fmt, kind, nrec=rng.choice([1, 2, 3]), tier=ctx.tier)
            elif rng.random() < 0.4:
                # constant geometry with 0..3 extra ignorable bytes per line (bpl - rpl in 1..5), every (start, end)
                kind = rng.choice(["dna", "dna", "rna", "amino"])
                data, meta = S.gen_fasta_layout(rng, kind, nrec=rng.choice([1, 2]))
            else:
                data, meta = S.gen_fasta(rng, ctx.tier, kind, geometry=geometry, nrec=rng.choice([1, 2, 3, 4]) if small else None,
                                         maxlen=rng.choice([12, 30, 45]) if small and geometry == "const" else None)
            recs = meta["recs"]
            if not recs:
                continue
            clean = S.is_clean(data)          # esl-sfetch's own fetch path exits the process on failure: only on files outside the known finding
            ops = ["file ext=dat hex=" + hx(data)]
            abc = rng.choice(["text", "text", kind])
            B = rng.choice(S.BSIZES + [rng.randrange(1, 40)])
            if len(data) > 6000 and B < 7:
                B = 64
            ops.append("open fmt=%s abc=%s B=%d" % (fmt, abc, B))
            ops += ["read"] * (len(recs) + 1)
            if rng.random() < 0.35:
                # esl-sfetch without an index: sequential search for one key / for a key file (own sessions, before the main one)
                r0 = rng.choice(recs)
                k0 = r0["acc"] if (r0.get("acc") and rng.random() < 0.4) else r0["name"]
                pick = rng.sample(recs, min(len(recs), rng.choice([1, 2, 3])))
                pre = ["open fmt=%s abc=text B=%d" % (fmt, B), "toolfetch key=" + hx(k0.encode()), "close",
                       "open fmt=%s abc=text B=%d" % (fmt, B), "toolmulti text=" + hx(("# keys\n" + "".join((r["acc"] if (r.get("acc") and rng.random() < 0.5) else r["name"]) + "\n" for r in pick)).encode("latin-1")), "close"]
                ops[1:1] = pre
            ops.append("index")
            total = sum(len(r["seq"]) for r in recs)
            reqs = []
            for r in recs:
                L = len(r["seq"])
                k = hx(r["name"].encode())
                if total <= 60 or meta["geom"] == "layout":
                    reqs += [(k, s, e) for s in range(1, L + 1) for e in sorted({s, min(L, s + 1), min(L, s + meta["width"]), L, rng.randrange(s, L + 1)})]
                else:
                    w = meta["width"]
                    cand = sorted({x for x in (1, 2, w - 1, w, w + 1, 2 * w, 2 * w + 1, L - w, L - 1, L, L // 2, rng.randrange(1, L + 1) if L else 1, rng.randrange(1, L + 1) if L else 1) if 1 <= x <= L})
                    reqs += [(k, s, e) for s in cand for e in cand if s <= e]
            rng.shuffle(reqs)
            for k, s, e in reqs[: (160 if (total <= 60 or meta["geom"] == "layout") else 40)]:
                r = rng.random()
                if r < 0.8 or abc != "text" or not clean:
                    ops.append("fetchsub key=%s s=%d e=%d" % (k, s, e if rng.random() < 0.9 else 0))
                elif kind != "amino":       # the tool opens the file in text mode; start > end asks for the reverse complement
                    ops.append("toolsub key=%s s=%d e=%d" % ((k, e, s) if rng.random() < 0.5 and s != e else (k, s, e)))
                else:
                    ops.append("toolsub key=%s s=%d e=%d" % (k, s, e))
            # whole-record fetches, by key and by number, and failing requests
            for r in rng.sample(recs, min(len(recs), 3)):
                k = hx(r["name"].encode())
                L = len(r["seq"])
                ops.append(rng.choice(["fetch key=%s", "fetchinfo key=%s"]) % k)
                if ops[-1].startswith("fetch key") and rng.random() < 0.7:
                    ops.append("echo")            # esl_sqio_Echo of the record just fetched: the bytes roff..eoff of the file
                if abc == "text" and rng.random() < 0.6:
                    ops.append("toolfetch key=%s" % k)   # esl-sfetch's own whole-record path
                ops += ["poskey key=%s" % k, rng.choice(["read", "readinfo", "readseq"])]
                bad = rng.choice([(0, 1), (L + 1, L + 1), (1, L + 1), (2, 1) if L >= 2 else (0, 0), (-3, 1), (L + 5, 0), (L, L + 2), (0, 0)])
                ops.append("fetchsub key=%s s=%d e=%d" % ((k,) + bad))
            for r in recs:
                if r.get("acc"):
                    ka = hx(r["acc"].encode())
                    ops += ["fetch key=%s" % ka, "fetchsub key=%s s=1 e=%d" % (ka, min(5, len(r["seq"]))), "poskey key=%s" % ka, "readinfo"]
            if abc == "text" and clean and rng.random() < 0.5:
                # esl-sfetch -f <keyfile> and -Cf <gdffile>: the tool's own loops, comment and blank lines included
                pick = rng.sample(recs, min(len(recs), rng.choice([1, 2, 3])))
                ktxt = "# keys\n" + "".join(("%s\n" if rng.random() < 0.8 else " %s \t\n\n") % r["name"] for r in pick)
                ops.append("toolmulti text=" + hx(ktxt.encode("latin-1")))
                lines = ["# newname from to source"]
                for j, r in enumerate(pick):
                    L = len(r["seq"])
                    if L == 0:
                        continue
                    a_, b_ = rng.randrange(1, L + 1), rng.randrange(1, L + 1)
                    if kind == "amino" and a_ > b_:
                        a_, b_ = b_, a_
                    lines.append("%s%s%d %d\t%s" % (rng.choice(["new%d" % j, "n" * 31 + str(j), "x/1-2"]), rng.choice([" ", "\t", "  "]), a_, b_ if rng.random() < 0.85 or a_ > b_ else 0, r["name"]))
                if len(lines) > 1:
                    ops.append("toolmultisub text=" + hx(("\n".join(lines) + "\n").encode("latin-1")))
            ops += ["posnum n=%d" % rng.randrange(0, len(recs)), "read", "posnum n=%d" % len(recs)]
            for nm in ("", "nope", recs[0]["name"] + "x", recs[0]["name"][:-1] if len(recs[0]["name"]) > 1 else "q"):
                if nm not in [r["name"] for r in recs]:
                    ops.append(rng.choice(["fetchsub key=%s s=1 e=1", "fetch key=%s", "poskey key=%s", "fetchinfo key=%s"]) % hx(nm.encode()))
            ops.append("close")
            out.append({"name": "gen%d" % c, "ops": ops, "sticky": 1, "meta": {"kind": kind, "geom": meta["geom"]}})
        for c in range(40 if ctx.tier == "quick" else 600):
            out.append(S.afetch_case(rng, ctx.tier, c))
        for c in range(40 if ctx.tier == "quick" else 400):
            out.append(S.fetchspike_case(rng, c))
        return S.record_distribution(ctx, out)

    def nontrivial(self, case, out):
        return any((l.startswith("ok name=") and op.startswith(("fetchsub", "fetch "))) or l.startswith("ok nali=") for op, l in zip(case["ops"], out))

    def monitor(self, ctx, case, out):
        if (case.get("meta") or {}).get("afetch"):
            return S.monitor_afetch(case, out)
        if (case.get("meta") or {}).get("fetchspike"):
            return S.monitor_fetchspike(case, out)
        return S.keyed("C07", case, out, S._monitor_c07)

    def extra_evidence(self, ctx):
        return {}


SPEC = C07()
