"""Input generators shared by the C01 (alignment input is total) and C03 (write/read round trip) plug-ins.

Everything random comes from the `rng` passed in (ctx.rng, seeded by VERIF_SEED).
"""
import os

FORMATS = ["stockholm", "pfam", "a2m", "psiblast", "selex", "afa", "clustal", "clustallike", "phylip", "phylips"]
FMT_DIR = {"stockholm": "stockholm", "pfam": "stockholm", "a2m": "a2m", "psiblast": "psiblast", "selex": "selex", "afa": "afa",
           "clustal": "clustal", "clustallike": "clustal", "phylip": "phylip", "phylips": "phylips"}
AMINO = "ACDEFGHIKLMNPQRSTVWY"
AMINO_DEG = "BJZOUX"
DNA = "ACGT"
DNA_DEG = "RYMKSWHBVDN"
NAMECHARS = "abcdefghijklmnopqrstuvwxyzABCDEFGHIJKLMNOPQRSTUVWXYZ0123456789_|/.:-+[]()"


def hx(b):
    return b.hex() if b else "-"


# ------------------------------------------------------------------------------------------------
# random alignments
# ------------------------------------------------------------------------------------------------
class Aln:
    """a text alignment with optional annotation (all str)"""
    def __init__(self):
        self.names, self.rows, self.desc, self.acc, self.wgt = [], [], None, None, None
        self.name = self.adesc = self.aacc = self.au = None
        self.sscons = self.sacons = self.ppcons = self.rf = self.mm = None
        self.ss = self.sa = self.pp = None
        self.gf, self.gc, self.gs, self.gr, self.com, self.cut = [], [], [], [], [], None

    @property
    def n(self): return len(self.names)
    @property
    def alen(self): return len(self.rows[0]) if self.rows else 0


def rand_name(rng, maxlen=12, chars=NAMECHARS):
    k = rng.choice([1, 2, 3, 5, 8, 10, 11, rng.randrange(1, maxlen + 1)])
    s = "".join(rng.choice(chars) for _ in range(k))
    if s[0] in "#/>-.": s = "s" + s[1:]      # names that are not mistaken for markup by any format
    return s


def rand_aln(rng, kind="amino", nseq=None, alen=None, gapchars="-", lower=False, unique=True, maxname=12, namechars=NAMECHARS, degen=True):
    a = Aln()
    n = nseq if nseq is not None else rng.choice([1, 2, 3, 4, 5, 8, 16, 17, 33, rng.randrange(1, 61)])
    L = alen if alen is not None else rng.choice([1, 2, 10, 59, 60, 61, 120, 121, 199, 200, 201, rng.randrange(1, 701)])
    res = (AMINO if kind == "amino" else DNA)
    deg = (AMINO_DEG if kind == "amino" else DNA_DEG) if degen else ""
    if kind == "rna": res, deg = "ACGU", (DNA_DEG if degen else "")
    pgap = rng.choice([0.0, 0.05, 0.2, 0.5])
    seen = set()
    for i in range(n):
        while True:
            nm = rand_name(rng, maxname, namechars)
            if not unique or nm not in seen: break
        seen.add(nm)
        a.names.append(nm)
        row = []
        for _ in range(L):
            r = rng.random()
            if r < pgap: c = rng.choice(gapchars)
            elif r < pgap + 0.03 and deg: c = rng.choice(deg)
            else: c = rng.choice(res)
            if lower and rng.random() < 0.2: c = c.lower()
            row.append(c)
        a.rows.append("".join(row))
    return a


def annotate(rng, a, full=True):
    """add optional annotation; each piece independently present or absent"""
    L, n = a.alen, a.n
    text = lambda k=20: "".join(rng.choice("abcdefghijklmnopqrstuvwxyz ABCXYZ0123456789.,;:()[]-_") for _ in range(rng.randrange(1, k))).strip() or "x"
    col = lambda chars: "".join(rng.choice(chars) for _ in range(L))
    if rng.random() < 0.5: a.name = rand_name(rng)
    if rng.random() < 0.4: a.adesc = text(40)
    if rng.random() < 0.4: a.aacc = "PF%05d" % rng.randrange(100000)
    if rng.random() < 0.3: a.au = text(20)
    if rng.random() < 0.4: a.wgt = [float("%.2f" % (rng.random() * rng.choice([1, 10, 100]) + 0.01)) for _ in range(n)]
    if rng.random() < 0.4: a.acc = [("ACC%d" % i if rng.random() < 0.7 else None) for i in range(n)]
    if rng.random() < 0.4: a.desc = [(text(30) if rng.random() < 0.7 else None) for _ in range(n)]
    if a.acc and not any(a.acc): a.acc = None
    if a.desc and not any(a.desc): a.desc = None
    if rng.random() < 0.4: a.sscons = col("<>.-_,:")
    if rng.random() < 0.3: a.sacons = col("0123456789")
    if rng.random() < 0.3: a.ppcons = col("0123456789*.")
    if rng.random() < 0.4: a.rf = col("xX.~")
    if rng.random() < 0.2: a.mm = col("m.")
    if full:
        if rng.random() < 0.3: a.ss = [(col("HEC.<>") if rng.random() < 0.6 else None) for _ in range(n)]
        if rng.random() < 0.2: a.sa = [(col("0123456789") if rng.random() < 0.6 else None) for _ in range(n)]
        if rng.random() < 0.3: a.pp = [(col("0123456789*.") if rng.random() < 0.6 else None) for _ in range(n)]
        for f in ("ss", "sa", "pp"):
            v = getattr(a, f)
            if v and not any(v): setattr(a, f, None)
        for _ in range(rng.choice([0, 0, 1, 3])): a.gf.append((rng.choice(["CC", "RN", "DR", "BM", "XX", "C", "LongGFtag"]), text(40)))
        tags = rng.choice([["CSX", "XY", "Long_tag_thing"], ["C", "XY", "Long_tag_thing"], ["q"], ["CSX", "XY", "Long_tag_thing"]])
        for t in tags[:rng.choice([0, 0, 1, 2])]: a.gc.append((t, col("abcxyz.*")))
        for t in rng.choice([["OS", "LO"], ["O", "LongGStag"], ["OS", "LO"]])[:rng.choice([0, 0, 1, 2])]:
            v = [(text(15) if rng.random() < 0.6 else None) for _ in range(n)]
            if any(v): a.gs.append((t, v))
        for t in rng.choice([["csa", "TM"], ["c", "TM"], ["T"], ["csa", "TM"]])[:rng.choice([0, 0, 1, 2])]:
            v = [(col("abc.*") if rng.random() < 0.5 else None) for _ in range(n)]
            if any(v): a.gr.append((t, v))
        for _ in range(rng.choice([0, 0, 1, 2])): a.com.append(text(50))
        if rng.random() < 0.3:
            a.cut = [None] * 6
            for pair in rng.sample([0, 2, 4], rng.randrange(1, 4)):
                a.cut[pair] = float("%.1f" % (rng.random() * 50)); a.cut[pair + 1] = float("%.1f" % (rng.random() * 50))
    return a


# ------------------------------------------------------------------------------------------------
# independent python writers (valid files of each format)
# ------------------------------------------------------------------------------------------------
def w_afa(a, rng=None, nl="\n", cpl=60):
    out = []
    for i, nm in enumerate(a.names):
        h = ">" + nm
        if a.desc and a.desc[i]: h += " " + a.desc[i]
        out.append(h)
        r = a.rows[i]
        for p in range(0, len(r), cpl): out.append(r[p:p + cpl])
    return nl.join(out) + nl


def a2m_rows(a, cons):
    """cons[j] True if column j is consensus; dotless a2m rows"""
    rows = []
    for r in a.rows:
        s = []
        for j, c in enumerate(r):
            if c == "O": c = "X"
            if cons[j]: s.append("-" if c in "-._~" else c.upper())
            elif c not in "-._~": s.append(c.lower())
        rows.append("".join(s))
    return rows


def w_a2m(a, rng, nl="\n", cpl=60):
    cons = [rng.random() < 0.7 for _ in range(a.alen)]
    if not any(cons): cons[0] = True
    out = []
    for nm, r in zip(a.names, a2m_rows(a, cons)):
        out.append(">" + nm)
        for p in range(0, len(r), cpl): out.append(r[p:p + cpl])
    return nl.join(out) + nl


def w_clustal(a, rng=None, nl="\n", cpl=60, like=False):
    w = max(len(x) for x in a.names) + 2
    out = [("MUSCLE (3.7) multiple sequence alignment" if like else "CLUSTAL W (1.83) multiple sequence alignment"), ""]
    for p in range(0, a.alen, cpl):
        out.append("")
        for nm, r in zip(a.names, a.rows): out.append(nm.ljust(w) + r[p:p + cpl])
        k = len(a.rows[0][p:p + cpl])
        out.append(" " * w + "".join((rng.choice(" *:.") if rng else "*") for _ in range(k)))
    return nl.join(out) + nl


def w_psiblast(a, rng=None, nl="\n", cpl=60):
    w = max(len(x) for x in a.names) + 2
    out = []
    for p in range(0, a.alen, cpl):
        if p: out.append("")
        for nm, r in zip(a.names, a.rows): out.append(nm.ljust(w) + r[p:p + cpl])
    return nl.join(out) + nl


def w_selex(a, rng=None, nl="\n", cpl=60):
    w = max([len(x) for x in a.names] + [5]) + 2
    out = []
    for p in range(0, a.alen, cpl):
        if p: out.append("")
        if a.rf: out.append("#=RF".ljust(w) + a.rf[p:p + cpl])
        if a.sscons: out.append("#=CS".ljust(w) + a.sscons[p:p + cpl])
        for i, (nm, r) in enumerate(zip(a.names, a.rows)):
            out.append(nm.ljust(w) + r[p:p + cpl])
            if a.ss and a.ss[i]: out.append("#=SS".ljust(w) + a.ss[i][p:p + cpl])
            if a.sa and a.sa[i]: out.append("#=SA".ljust(w) + a.sa[i][p:p + cpl])
    return nl.join(out) + nl


def w_phylip(a, rng=None, nl="\n", cpl=60, seq=False, namew=10):
    out = [" %d %d" % (a.n, a.alen)]
    nm = [x[:namew].ljust(namew) for x in a.names]
    if seq:
        for i in range(a.n):
            r = a.rows[i]
            for p in range(0, len(r), cpl): out.append((nm[i] if p == 0 else "") + r[p:p + cpl])
    else:
        for p in range(0, a.alen, cpl):
            if p: out.append("")
            for i in range(a.n): out.append((nm[i] if p == 0 else "") + a.rows[i][p:p + cpl])
    return nl.join(out) + nl


def w_stockholm(a, rng=None, nl="\n", cpl=200, pfam=False):
    out = ["# STOCKHOLM 1.0"]
    for c in a.com: out.append("#" + (" " + c if c else ""))
    if a.name: out.append("#=GF ID " + a.name)
    if a.aacc: out.append("#=GF AC " + a.aacc)
    if a.adesc: out.append("#=GF DE " + a.adesc)
    if a.au: out.append("#=GF AU " + a.au)
    if a.cut:
        for k, tag in ((2, "GA"), (4, "NC"), (0, "TC")):
            if a.cut[k] is not None: out.append("#=GF %s %.1f %.1f" % (tag, a.cut[k], a.cut[k + 1]))
    for t, v in a.gf: out.append("#=GF %s %s" % (t, v))
    if a.wgt:
        for nm, wv in zip(a.names, a.wgt): out.append("#=GS %s WT %.2f" % (nm, wv))
    if a.acc:
        for nm, v in zip(a.names, a.acc):
            if v: out.append("#=GS %s AC %s" % (nm, v))
    if a.desc:
        for nm, v in zip(a.names, a.desc):
            if v: out.append("#=GS %s DE %s" % (nm, v))
    for t, v in a.gs:
        for nm, x in zip(a.names, v):
            if x: out.append("#=GS %s %s %s" % (nm, t, x))
    w = max([len(x) for x in a.names] + [0])
    tagw = 0
    for i in range(a.n):
        for t, v in ([("SS", a.ss)] if a.ss else []) + ([("SA", a.sa)] if a.sa else []) + ([("PP", a.pp)] if a.pp else []) + a.gr:
            if v[i]: tagw = max(tagw, len(t))
    gcw = max([len(t) for t, _ in a.gc] + [7 if x else 0 for x in (a.sscons, a.sacons, a.ppcons)] + [2 if a.rf else 0, 2 if a.mm else 0])
    margin = max(w + 1, (5 + w + 1 + tagw + 1) if tagw else 0, (5 + gcw + 1) if gcw else 0)
    step = a.alen if pfam else cpl
    for p in range(0, a.alen, max(step, 1)):
        out.append("")
        for i, nm in enumerate(a.names):
            out.append(nm.ljust(margin) + a.rows[i][p:p + step])
            for t, v in ([("SS", a.ss)] if a.ss else []) + ([("SA", a.sa)] if a.sa else []) + ([("PP", a.pp)] if a.pp else []) + a.gr:
                if v[i]: out.append(("#=GR %s %s" % (nm.ljust(w), t)).ljust(margin) + v[i][p:p + step])
        for t, v in [("SS_cons", a.sscons), ("SA_cons", a.sacons), ("PP_cons", a.ppcons), ("RF", a.rf), ("MM", a.mm)] + a.gc:
            if v: out.append(("#=GC " + t).ljust(margin) + v[p:p + step])
    out.append("//")
    return nl.join(out) + nl


def write_fmt(fmt, a, rng, nl="\n"):
    if fmt == "afa": return w_afa(a, rng, nl, rng.choice([60, 60, 10, 1000]))
    if fmt == "a2m": return w_a2m(a, rng, nl, rng.choice([60, 60, 7, 1000]))
    if fmt == "clustal": return w_clustal(a, rng, nl, rng.choice([60, 60, 13]))
    if fmt == "clustallike": return w_clustal(a, rng, nl, rng.choice([60, 60, 13]), like=True)
    if fmt == "psiblast": return w_psiblast(a, rng, nl, rng.choice([60, 60, 13, 1000]))
    if fmt == "selex": return w_selex(a, rng, nl, rng.choice([60, 60, 13, 1000]))
    if fmt == "phylip": return w_phylip(a, rng, nl, rng.choice([60, 60, 13]))
    if fmt == "phylips": return w_phylip(a, rng, nl, rng.choice([60, 60, 13]), seq=True)
    if fmt == "stockholm": return w_stockholm(a, rng, nl, rng.choice([200, 50, 13]))
    if fmt == "pfam": return w_stockholm(a, rng, nl, pfam=True)
    raise ValueError(fmt)


def valid_file(rng, fmt, small=False):
    """a mostly-valid file of the given format (bytes)"""
    kind = rng.choice(["amino", "amino", "dna", "rna"])
    nseq = rng.choice([1, 2, 3, 5, 16, 17]) if small else None
    alen = rng.choice([1, 5, 20, 61, 130]) if small else None
    if fmt in ("phylip", "phylips"):
        a = rand_aln(rng, kind, nseq, alen, gapchars="-", maxname=10, namechars="abcdefghijklmnopqrstuvwxyzABCDEFGHIJKLMNOPQRSTUVWXYZ0123456789_")
    elif fmt == "a2m":
        a = rand_aln(rng, kind, nseq, alen, gapchars="-.", lower=False)
    elif fmt == "psiblast":
        a = rand_aln(rng, kind, nseq, alen, gapchars="-", lower=True)
    elif fmt == "selex":
        a = rand_aln(rng, kind, nseq, alen, gapchars="-._", lower=True)
    elif fmt in ("stockholm", "pfam"):
        a = rand_aln(rng, kind, nseq, alen, gapchars="-._~", lower=True)
    else:
        a = rand_aln(rng, kind, nseq, alen, gapchars="-.", lower=(fmt == "afa"))
    if fmt in ("stockholm", "pfam"): annotate(rng, a)
    elif fmt == "selex": annotate(rng, a, full=False); a.ss = a.ss if rng.random() < 0.7 else None
    elif fmt == "afa" and rng.random() < 0.5: annotate(rng, a, full=False)
    nl = rng.choice(["\n", "\n", "\n", "\r\n"])
    return write_fmt(fmt, a, rng, nl).encode("latin-1"), a


# ------------------------------------------------------------------------------------------------
# structure-aware mutation (the malformed stream)
# ------------------------------------------------------------------------------------------------
EVIL = [b"\x7f", b"\x00", b"\r", b"\n", b"\x0c", b"\x0b", b"\t", b" ", b"\x80", b"\xff", b"\xc3\xa9", b">", b"#", b"/", b"//", b"-", b".", b"~", b"*", b"O", b"o",
        b"#=GC ", b"#=GR ", b"#=GS ", b"#=GF ", b"#=RF ", b"#=CS ", b"#=SS ", b"#=SA ", b"# STOCKHOLM 1.0", b"CLUSTAL", b"0", b"-1", b"99999999999", b"2147483648"]


def split_lines(b):
    """keep terminators"""
    out, i = [], 0
    while i < len(b):
        j = b.find(b"\n", i)
        if j < 0: out.append(b[i:]); break
        out.append(b[i:j + 1]); i = j + 1
    return out


def mutate(rng, data, others=None, nmut=None):
    lines = split_lines(data)
    k = nmut if nmut is not None else rng.choice([1, 1, 1, 2, 3, 5])
    for _ in range(k):
        if not lines: lines = [b""]
        op = rng.randrange(29)
        i = rng.randrange(len(lines))
        ln = lines[i]
        body = ln.rstrip(b"\r\n"); term = ln[len(body):]
        if op == 0: del lines[i]
        elif op == 1: lines.insert(i, ln)
        elif op == 2:
            j = rng.randrange(len(lines)); lines[i], lines[j] = lines[j], lines[i]
        elif op == 3 and body:                      # truncate line
            lines[i] = body[:rng.randrange(len(body))] + term
        elif op == 4:                               # extend line
            lines[i] = body + bytes(rng.choice(b"ACGTacgt-.XN*") for _ in range(rng.choice([1, 1, 2, 5, 60]))) + term
        elif op == 5 and body:                      # change a byte
            p = rng.randrange(len(body)); c = rng.choice([rng.choice(b"ACGTUacgtuNnXx-._~*Oo "), rng.randrange(256), body[p] ^ 0x20])
            lines[i] = body[:p] + bytes([c]) + body[p + 1:] + term
        elif op == 6: lines.insert(i, rng.choice([b"\n", b"  \n", b"\t\n", b"\r\n", b" \x0c\n"]))
        elif op == 7: lines[i] = body + rng.choice([b"\n", b"\r\n", b"", b"\r", b"\n\n"])
        elif op == 8:                               # insert evil token
            p = rng.randrange(len(body) + 1); lines[i] = body[:p] + rng.choice(EVIL) + body[p:] + term
        elif op == 9 and body:                      # delete a span
            p = rng.randrange(len(body)); q = min(len(body), p + rng.choice([1, 1, 2, 5, 20])); lines[i] = body[:p] + body[q:] + term
        elif op == 10:                              # truncate file
            lines = lines[:i + 1]
            if rng.random() < 0.5: lines[-1] = body[:rng.randrange(len(body) + 1)]
        elif op == 11 and others:                   # splice lines from another file
            o = split_lines(rng.choice(others))
            if o:
                j = rng.randrange(len(o)); lines[i:i] = o[j:j + rng.choice([1, 2, 5])]
        elif op == 12:                              # all CRLF / all LF
            crlf = rng.random() < 0.6
            lines = [(l.rstrip(b"\r\n") + (b"\r\n" if crlf else b"\n")) if l.endswith(b"\n") else l for l in lines]
        elif op == 13:                              # duplicate a block of lines at the end (extra rows in later blocks)
            j = rng.randrange(i, len(lines)); lines.extend(lines[i:j + 1])
        elif op == 14 and body:                     # change a number on the line
            import re
            m = list(re.finditer(rb"\d+", body))
            if m:
                mm = rng.choice(m); v = rng.choice([b"0", b"1", b"-1", b"2", b"99", b"100000", str(int(mm.group()) + rng.choice([-1, 1])).encode()])
                lines[i] = body[:mm.start()] + v + body[mm.end():] + term
        elif op == 15 and body:                     # shift the sequence column (leading blanks)
            lines[i] = rng.choice([b" ", b"  ", b"\t"]) + body + term
        elif op == 16 and body:                     # rename: change first token
            p = body.find(b" ")
            if p > 0: lines[i] = bytes(rng.choice(b"abcXYZ019_") for _ in range(rng.choice([1, 3, p, 12]))) + body[p:] + term
        elif op == 17 and body:                     # case flip of the whole line
            lines[i] = body.swapcase() + term
        elif op == 18:                              # move line to the end / start
            l = lines.pop(i); (lines.append(l) if rng.random() < 0.5 else lines.insert(0, l))
        elif op == 19 and body:                     # replace all occurrences of one symbol
            c = bytes([rng.choice(body)]); lines[i] = body.replace(c, rng.choice([b"", b".", b"-", b" ", b"~", b"o", b"O"])) + term
        elif op == 20:                              # add an annotation line of arbitrary width
            tag = rng.choice([b"#=RF ", b"#=CS ", b"#=SS ", b"#=SA ", b"#=GC SS_cons ", b"#=GC RF ", b"#=GC XX ", b"#=GR %s SS " % (body.split()[0] if body.split() else b"x"), b"#=GS x WT 1.0", b"#=GF ID foo", b"# c"])
            lines.insert(i + 1, tag + bytes(rng.choice(b"xX.<>-") for _ in range(rng.choice([0, 1, len(body), max(0, len(body) - len(tag)), 60]))) + (term or b"\n"))
        elif op == 22:                              # per-sequence annotation for a name never seen in any block, anywhere (also after the last block)
            nm = rng.choice([b"newseq", b"zz9", body.split()[0] + b"x" if body.split() else b"q"])
            ann = b"#=GS " + nm + rng.choice([b" DE some text", b" AC X12345", b" WT 0.50", b" OS tag value", b" WT x", b""]) + (term or b"\n")
            where = rng.choice(["here", "before_end", "after_blank"])
            if where == "before_end":
                ends = [j for j, l in enumerate(lines) if l.startswith(b"//")]
                lines.insert(ends[-1] if ends else len(lines), ann)
            elif where == "after_blank":
                blanks = [j for j, l in enumerate(lines) if not l.strip()]
                lines.insert((rng.choice(blanks) + 1) if blanks else i, ann)
            else: lines.insert(i + 1, ann)
        elif op in (23, 24):                        # rename / swap the tag of ONE Stockholm/SELEX annotation line (other-tags renamed between blocks)
            ann = [j for j, l in enumerate(lines) if l.lstrip(b" \t").startswith((b"#=GC", b"#=GR", b"#=GS", b"#=GF", b"#=RF", b"#=CS", b"#=SS", b"#=SA", b"#=MM"))]
            if ann:
                j = rng.choice(ann); toks = lines[j].split(b" ")
                nonempty = [x for x, t in enumerate(toks) if t.strip()]
                pos = 2 if toks[0].strip().startswith((b"#=GR", b"#=GS")) else 1
                if len(nonempty) > pos:
                    x = nonempty[pos]; old = toks[x]
                    others = [l.split()[pos] for l in lines if len(l.split()) > pos and l.split()[0] == toks[0].strip()]
                    new = rng.choice([b"ZZ", b"YY", b"SS_cons", b"SA_cons", b"PP_cons", b"RF", b"MM", b"SS", b"SA", b"PP", b"ID", b"WT", b"AC", b"DE", old[:-1] or b"Q", old + b"x"] + others)
                    if op == 24: new = new.ljust(len(old))[:max(len(old), len(new))] if len(new) <= len(old) else new    # keep column alignment when it fits
                    toks[x] = new
                    lines[j] = b" ".join(toks)
        elif op == 25:                              # drop or duplicate one annotation line (annotation present in only some blocks / twice in a block)
            ann = [j for j, l in enumerate(lines) if l.lstrip(b" \t").startswith((b"#=GC", b"#=GR", b"#=RF", b"#=CS", b"#=SS", b"#=SA", b"#=MM"))]
            if ann:
                j = rng.choice(ann)
                if rng.random() < 0.5: del lines[j]
                else: lines.insert(j, lines[j])
        elif op == 26 and body:                     # NUL / DEL / non-ASCII byte INSIDE the residue (last) field of a line: inmap[0], inmap[127], isascii()
            p0 = len(body) - len(body.split()[-1]) if body.split() else 0
            q = rng.randrange(p0, len(body) + 1)
            lines[i] = body[:q] + rng.choice([b"\x00", b"\x00", b"\x7f", b"\x80", b"\xff", b"\x01", b"\x1f"]) + body[q:] + term
        elif op == 27:                              # trailing white space on a line (right-to-left scans: rpos, last residue)
            lines[i] = body + rng.choice([b" ", b"  ", b"\t", b" \t ", b"\x0c", b"\x0b", b" " * 30]) + term
        elif op == 28:                              # trailing white space on EVERY line
            ws = rng.choice([b" ", b"\t", b"   "])
            lines = [(l.rstrip(b"\r\n") + ws + l[len(l.rstrip(b"\r\n")):]) for l in lines]
        elif op == 21 and body:                     # drop the final newline of the file
            lines[-1] = lines[-1].rstrip(b"\r\n")
    return b"".join(lines)


def block_anomaly(rng, fmt):
    """multi-block Stockholm / SELEX file built block by block, then ONE block is made to disagree with the others in its
    annotation lines: tag renamed, line dropped / added / duplicated / reordered / of another width, row renamed or moved.
    (the malformed stream for per-block bookkeeping: blinetype/bidx/ogc_len/ogr_len, lpos/rpos)"""
    n = rng.choice([1, 2, 3, 5]); nblk = rng.choice([2, 2, 3, 4]); w = rng.choice([1, 4, 9, 13])
    kind = rng.choice(["amino", "dna"])
    a = rand_aln(rng, kind, n, w * nblk, gapchars="-.", lower=False, maxname=8, namechars="abcdefghijklmnopqrstuvwxyz0123456789_")
    col = lambda chars, k: "".join(rng.choice(chars) for _ in range(k))
    blocks = []
    if fmt == "selex":
        tags = [t for t in ("#=RF", "#=CS", "#=MM") if rng.random() < 0.5]
        per = [t for t in ("#=SS", "#=SA") if rng.random() < 0.5]
        for b in range(nblk):
            ls = [(t, col("xX.<>", w)) for t in tags]
            for i in range(n):
                ls.append((a.names[i], a.rows[i][b * w:(b + 1) * w]))
                for t in per: ls.append((t, col("HE.<>", w)))
            blocks.append(ls)
    else:
        gc = [t for t in ("SS_cons", "RF", "YY", "ZZtag", "PP_cons") if rng.random() < 0.5] or ["YY"]
        gr = [t for t in ("SS", "PP", "QQ", "csa") if rng.random() < 0.5] or ["QQ"]
        for b in range(nblk):
            ls = []
            for i in range(n):
                ls.append((a.names[i], a.rows[i][b * w:(b + 1) * w]))
                for t in gr:
                    if i % 2 == 0 or t == "QQ": ls.append(("#=GR %s %s" % (a.names[i], t), col("abc.*", w)))
            for t in gc: ls.append(("#=GC " + t, col("xyz.<>", w)))
            blocks.append(ls)
    # the anomaly
    b = rng.randrange(nblk); ls = blocks[b]
    ann = [j for j, (h, _) in enumerate(ls) if h.startswith("#=")]
    op = rng.randrange(9)
    if op == 0 and ann:      # rename the tag of one annotation line
        j = rng.choice(ann); h, t = ls[j]; parts = h.split(" ")
        parts[-1] = rng.choice(["WW", "Vtag", parts[-1] + "2", parts[-1][:-1] or "K", "RF", "SS_cons", "SS", "PP", "#=RF", "#=CS"]) if not h.startswith(("#=RF", "#=CS", "#=MM", "#=SS", "#=SA")) else rng.choice(["#=RF", "#=CS", "#=MM", "#=SS", "#=SA", "#=XX"])
        ls[j] = (" ".join(parts), t)
    elif op == 1 and ann: del ls[rng.choice(ann)]
    elif op == 2 and ann: j = rng.choice(ann); ls.insert(j, ls[j])
    elif op == 3 and len(ann) >= 2:
        j, k = rng.sample(ann, 2); ls[j], ls[k] = ls[k], ls[j]
    elif op == 4 and ann:    # width of one annotation line
        j = rng.choice(ann); h, t = ls[j]; ls[j] = (h, rng.choice([t[:-1], t + "x", t + "xxxx", "", t[: len(t) // 2]]))
    elif op == 5:            # extra annotation line of a new tag in this block only
        ls.insert(rng.randrange(len(ls) + 1), ("#=GC NEWTAG" if fmt != "selex" else "#=RF", col("x.", w)))
    elif op == 6:            # rename a row in this block
        rows = [j for j, (h, _) in enumerate(ls) if not h.startswith("#=")]
        j = rng.choice(rows); ls[j] = (ls[j][0] + "x", ls[j][1])
    elif op == 7 and len(ls) >= 2:
        j, k = rng.sample(range(len(ls)), 2); ls[j], ls[k] = ls[k], ls[j]
    elif op == 8:            # row of another width
        rows = [j for j, (h, _) in enumerate(ls) if not h.startswith("#=")]
        j = rng.choice(rows); h, t = ls[j]; ls[j] = (h, rng.choice([t[:-1], t + "A", t + "ACGT"]))
    wn = max(len(h) for bl in blocks for h, _ in bl) + 2
    out = ["# STOCKHOLM 1.0"] if fmt != "selex" else []
    for bi, bl in enumerate(blocks):
        if bi or fmt != "selex": out.append("")
        for h, t in bl: out.append(h.ljust(wn) + t)
    if fmt != "selex": out.append("//")
    nl = rng.choice(["\n", "\n", "\r\n"])
    return (nl.join(out) + nl).encode("latin-1")


def seqcount_boundary(rng, fmt="stockholm"):
    """VALID multi-block Stockholm / SELEX files whose number of SEQUENCES sits on the doubling of the growable MSA and of the per-sequence parse
    data (16/17, 32/33, 64/65 names, first met in the header's #=GS lines or in the first block), with SPARSE per-sequence annotation (parsed and
    unparsed #=GR tags / #=SS #=SA on the early sequences only, the late only, a random subset) that is already recorded when the arrays grow;
    sometimes one anomaly in a later block (the malformed stream for the same bookkeeping)"""
    n = rng.choice([15, 16, 17, 18, 31, 32, 33, 34, 63, 64, 65]); nblk = rng.choice([2, 2, 3]); w = rng.choice([1, 3, 7])
    a = rand_aln(rng, rng.choice(["amino", "dna"]), n, w * nblk, gapchars="-", lower=False, maxname=8, namechars="abcdefghijklmnopqrstuvwxyz0123456789_")
    col = lambda chars, k: "".join(rng.choice(chars) for _ in range(k))
    def subset():
        shape = rng.choice(["all", "first", "early", "late", "last", "half", "few"])
        k = rng.choice([1, 8, 16])
        return {"all": lambda i: True, "first": lambda i: i == 0, "early": lambda i: i < k, "late": lambda i: i >= 16, "last": lambda i: i == n - 1,
                "half": lambda i: i % 2 == 0, "few": lambda i: i % 7 == 3}[shape]
    if fmt == "selex":
        per = [(t, subset()) for t in ("#=SS", "#=SA") if rng.random() < 0.6]
        top = [t for t in ("#=RF", "#=CS") if rng.random() < 0.4]
    else:
        per = [(t, subset()) for t in rng.sample(["SS", "SA", "PP", "AS", "LI", "csa", "T1", "T2"], rng.choice([1, 1, 2, 3, 5]))]
        top = [t for t in ("SS_cons", "RF", "XX", "YY") if rng.random() < 0.3]
    blocks = []
    for b in range(nblk):
        ls = []
        if fmt == "selex":
            for t in top: ls.append((t, col("xX.", w)))
        for i in range(n):
            ls.append((a.names[i], a.rows[i][b * w:(b + 1) * w]))
            for t, on in per:
                if on(i): ls.append((("#=GR %s %s" % (a.names[i], t)) if fmt != "selex" else t, col("abc.", w)))
        if fmt != "selex":
            for t in top: ls.append(("#=GC " + t, col("xyz.", w)))
        blocks.append(ls)
    if rng.random() < 0.25:
        ls = blocks[rng.randrange(1, nblk)]; an = rng.randrange(3)
        if an == 0 and len(ls) > 1: del ls[rng.randrange(len(ls))]
        elif an == 1: j = rng.randrange(len(ls)); ls.insert(j, ls[j])
        else: ls.append(("#=GR %s NEW" % a.names[rng.randrange(n)] if fmt != "selex" else "#=SS", col("x.", w)))
    wn = max(len(h) for bl in blocks for h, _ in bl) + 2
    out = []
    if fmt != "selex":
        out.append("# STOCKHOLM 1.0")
        r = rng.random()
        if r < 0.25:                                    # every name declared in the header (all expansions happen before any #=GR line)
            for i in range(n): out.append("#=GS %s WT %.2f" % (a.names[i], 1 + i / 10))
        elif r < 0.45:                                  # some names declared in the header, in another order than the block's
            for i in rng.sample(range(n), rng.choice([1, 2, n // 2])): out.append("#=GS %s DE text %d" % (a.names[i], i))
    for bi, bl in enumerate(blocks):
        if bi or fmt != "selex": out.append("")
        for h, t in bl: out.append(h.ljust(wn) + t)
    if fmt != "selex": out.append("//")
    return ("\n".join(out) + "\n").encode("latin-1")


def alloc_boundary(rng, fmt="stockholm"):
    """files that sit on the growth boundaries of the readers' arrays: blocks of exactly 16 / 32 lines (blinetype[]/bidx[] and
    ESL_SELEX_BLOCK of 16), 16 / 17 / 32 / 33 sequences (sqalloc doubling), 16+ / 32+ comment and #=GF lines, many distinct
    #=GS / #=GC / #=GR tags - optionally with ONE extra / missing line in a later block"""
    if rng.random() < 0.45: return seqcount_boundary(rng, fmt)
    target = rng.choice([15, 16, 17, 31, 32, 33])          # lines per block
    ngc = rng.choice([0, 1, 2, 5]) if fmt != "selex" else rng.choice([0, 1, 2])
    ngr = rng.choice([0, 0, 1]) if fmt != "selex" else rng.choice([0, 1])
    n = max(1, (target - ngc) // (1 + ngr)); ngc = target - n * (1 + ngr)
    nblk = rng.choice([2, 2, 3]); w = rng.choice([1, 5, 10])
    a = rand_aln(rng, rng.choice(["amino", "dna"]), n, w * nblk, gapchars="-", lower=False, maxname=8, namechars="abcdefghijklmnopqrstuvwxyz0123456789_")
    col = lambda chars, k: "".join(rng.choice(chars) for _ in range(k))
    blocks = []
    for b in range(nblk):
        ls = []
        if fmt == "selex":
            for t in ["#=RF", "#=CS"][:ngc]: ls.append((t, col("xX.", w)))
        for i in range(n):
            ls.append((a.names[i], a.rows[i][b * w:(b + 1) * w]))
            for k in range(ngr):
                ls.append((("#=GR %s T%d" % (a.names[i], k)) if fmt != "selex" else "#=SS", col("abc.", w)))
        if fmt != "selex":
            for k in range(ngc): ls.append(("#=GC " + ["SS_cons", "RF", "XX", "YY", "ZZ"][k % 5] + ("" if k < 5 else str(k)), col("xyz.", w)))
        blocks.append(ls)
    anomaly = rng.randrange(5)
    b = rng.randrange(1, nblk); ls = blocks[b]
    if anomaly == 1: ls.append(("#=GC NEW" if fmt != "selex" else "#=RF", col("x.", w)))
    elif anomaly == 2: ls.append(("#=GR %s NEW" % a.names[-1] if fmt != "selex" else "#=SA", col("x.", w)))
    elif anomaly == 3: ls.append(("extra" , col("ACGT", w)))
    elif anomaly == 4 and len(ls) > 1: del ls[rng.randrange(len(ls))]
    wn = max(len(h) for bl in blocks for h, _ in bl) + 2
    out = []
    if fmt != "selex":
        out.append("# STOCKHOLM 1.0")
        for k in range(rng.choice([0, 15, 16, 17, 32, 33, 70])): out.append("# comment %d" % k)
        for k in range(rng.choice([0, 15, 16, 17, 33])): out.append("#=GF CC line %d" % k)
        for k in range(rng.choice([0, 1, 9, 17])): out.append("#=GS %s T%d value" % (rng.choice(a.names), k))
    for bi, bl in enumerate(blocks):
        if bi or fmt != "selex": out.append("")
        for h, t in bl: out.append(h.ljust(wn) + t)
    if fmt != "selex": out.append("//")
    return ("\n".join(out) + "\n").encode("latin-1")


def odd_byte_in_residues(rng, fmt):
    """a small valid file of the format with ONE NUL / DEL / control / non-ASCII byte inside the residue text of a sequence line
    (input maps: inmap[0] is the replacement symbol, the tables are filled for 1..127, bytes >= 0x80 go through isascii())"""
    data, _ = valid_file(rng, fmt, small=True)
    lines = split_lines(data)
    cand = [i for i, l in enumerate(lines) if l.strip() and not l.lstrip().startswith((b"#", b">", b"//", b"CLUSTAL", b"MUSCLE")) and len(l.split()) >= 1 and i > 0]
    if fmt in ("afa", "a2m"): cand = [i for i, l in enumerate(lines) if l.strip() and not l.startswith(b">")]
    if not cand: return data
    i = rng.choice(cand); body = lines[i].rstrip(b"\r\n"); term = lines[i][len(body):]
    field = body.split()[-1]; p0 = len(body) - len(field)
    q = rng.randrange(p0, len(body) + 1) if rng.random() < 0.8 else len(body)
    lines[i] = body[:q] + rng.choice([b"\x00", b"\x00", b"\x7f", b"\x7f", b"\x80", b"\x01"]) + body[q:] + term
    return b"".join(lines)


def nul_line_adjacent(rng, fmt):
    """a valid (mostly multi-block) file of a line-oriented format with lines made ONLY of NUL bytes, or of NUL bytes mixed with
    blanks / tabs, placed ADJACENT to the lines of a block: above its first line, below its last, between two of its lines, in
    place of one of its lines, in place of the blank separator, or at the same position of EVERY block (so that all blocks keep the
    same number of lines).  esl_memspn(line, " \t") == n ("blank line") and esl_memtok(line, " \t") ("first token") must agree on
    such lines (strchr() finds the terminating NUL of the delimiter string): the block readers rely on it."""
    kind = rng.choice(["amino", "dna"])
    n = rng.choice([1, 2, 2, 3, 5]); cpl = rng.choice([4, 7, 13]); nblk = rng.choice([1, 2, 2, 3])
    alen = cpl * nblk - rng.choice([0, 0, 1]) if cpl * nblk > 1 else 1
    a = rand_aln(rng, kind, n, max(alen, 1), gapchars="-", lower=False, maxname=8, namechars="abcdefghijklmnopqrstuvwxyz0123456789_")
    if fmt == "selex" and rng.random() < 0.5:
        annotate(rng, a, full=False); a.ss = a.ss if rng.random() < 0.5 else None
    if fmt in ("stockholm", "pfam") and rng.random() < 0.4: annotate(rng, a)
    nl = rng.choice(["\n", "\n", "\n", "\r\n"])
    W = {"afa": lambda: w_afa(a, rng, nl, cpl), "a2m": lambda: w_a2m(a, rng, nl, cpl), "clustal": lambda: w_clustal(a, rng, nl, cpl),
         "clustallike": lambda: w_clustal(a, rng, nl, cpl, like=True), "psiblast": lambda: w_psiblast(a, rng, nl, cpl),
         "selex": lambda: w_selex(a, rng, nl, cpl), "phylip": lambda: w_phylip(a, rng, nl, cpl), "phylips": lambda: w_phylip(a, rng, nl, cpl, seq=True),
         "stockholm": lambda: w_stockholm(a, rng, nl, cpl), "pfam": lambda: w_stockholm(a, rng, nl, pfam=True)}
    lines = split_lines(W[fmt]().encode("latin-1"))
    nlb = nl.encode()

    def nul_line():
        r = rng.random()
        if r < 0.45: body = b"\x00" * rng.choice([1, 1, 2, 3, 8])
        elif r < 0.9:
            k = rng.choice([2, 3, 4, 6])
            body = bytes(rng.choice([0, 0, 32, 9]) for _ in range(k))
            if 0 not in body: body = body[:-1] + b"\x00"
        else: body = rng.choice([b"\x00\r", b" \x00 \x0c", b"\x00\x0b", b"\t\x00"])
        return body + nlb

    def blank(l): return l.strip(b" \t\r\n") == b""
    blocks, cur = [], []                          # maximal runs of non-blank lines (indices)
    for i, l in enumerate(lines):
        if blank(l):
            if cur: blocks.append(cur); cur = []
        else: cur.append(i)
    if cur: blocks.append(cur)
    if not blocks: return b"".join(lines)
    op = rng.randrange(7)
    ins = {}                                        # index -> lines inserted BEFORE that index
    rep = {}                                        # index -> replacement
    b = rng.choice(blocks)
    if op == 0: ins[b[0]] = [nul_line()]                                   # above the first line of a block
    elif op == 1: ins[b[-1] + 1] = [nul_line()]                            # below its last line
    elif op == 2: ins[rng.choice(b[1:] or b)] = [nul_line()]               # between two of its lines
    elif op == 3: rep[rng.choice(b)] = nul_line()                          # in place of one of its lines
    elif op == 4:                                                            # in place of a blank separator (joins two blocks)
        seps = [i for i, l in enumerate(lines) if blank(l)]
        if seps: rep[rng.choice(seps)] = nul_line()
        else: ins[b[0]] = [nul_line()]
    elif op == 5:                                                            # at the same position of every block
        off = rng.randrange(0, min(len(x) for x in blocks) + 1)
        for x in blocks: ins[(x[0] + off) if off < len(x) else x[-1] + 1] = [nul_line()]
    else:                                                                    # several, anywhere next to block lines
        for _ in range(rng.choice([2, 3])):
            x = rng.choice(blocks); ins.setdefault(rng.choice(x + [x[-1] + 1]), []).append(nul_line())
    out = []
    for i, l in enumerate(lines + [b""]):
        out.extend(ins.get(i, []))
        out.append(rep.get(i, l))
    return b"".join(out)


def earlystop_file(rng, fmt, T, exact=False):
    """alphabet guessing stops early once more than T (500 / 5000 / 50000) residues have been counted on whole lines: the first lines hold
    exactly T+1 (or T) DNA residues with all of A,C,G,T, everything after is protein-only text - the guess must not depend on it"""
    first = T + (1 if exact else rng.choice([1, 1, 0, 2]))
    w = 50
    dna = [rng.choice("ACGT") for _ in range(first)]
    dna[:4] = list("ACGT")
    lines = ["".join(dna[k:k + w]) for k in range(0, first, w)]
    prot = ["".join(rng.choice("EFILPQ") for _ in range(w)) for _ in range(rng.choice([3, 12]))]
    allres = lines + prot
    if fmt in ("afa", "a2m"):
        body = [">s0"] + lines + [">s1"] + prot
    elif fmt in ("stockholm", "pfam"):
        body = ["# STOCKHOLM 1.0"] + ["s%d  %s" % (k, r) for k, r in enumerate(allres)] + ["//"]
    elif fmt in ("clustal", "clustallike"):
        body = ["CLUSTAL W (1.83) multiple sequence alignment", ""] + ["s%d  %s" % (k, r) for k, r in enumerate(allres)] + [""]
    elif fmt in ("phylip", "phylips"):
        body = [" %d %d" % (len(allres), w)] + [("s%d" % k).ljust(10) + r for k, r in enumerate(allres)]
    else:
        body = ["s%d  %s" % (k, r) for k, r in enumerate(allres)]
    return ("\n".join(body) + "\n").encode("latin-1")


def raw_bytes(rng):
    n = rng.choice([0, 1, 2, 3, 5, 17, 64, 300, rng.randrange(0, 2000)])
    kind = rng.randrange(4)
    if kind == 0: return bytes(rng.randrange(256) for _ in range(n))
    if kind == 1: return bytes(rng.choice(b"\x00\r\n\n \t\x0c>#=/ACGTacgt-.123 \x80\xff") for _ in range(n))
    if kind == 2: return bytes(rng.choice(b"\r\n") for _ in range(n))
    pre = rng.choice([b">", b"# STOCKHOLM 1.0\n", b"CLUSTAL W multiple sequence alignment\n\n", b" 2 5\n", b"a ", b"\x0c", b" \t\n>", b"#=RF ", b"//\n", b"1 1\nx"])
    return pre + bytes(rng.choice(b"\x00\r\n \tACGTacgtXx-.~*>#=/0123456789\x80") for _ in range(n))


def load_testfiles(src):
    """{format-dir: [(name, bytes)]} from <src>/esl_msa_testfiles/* and stockholm/fasta files of <src>/formats"""
    out = {}
    base = os.path.join(src, "esl_msa_testfiles")
    if os.path.isdir(base):
        for d in sorted(os.listdir(base)):
            p = os.path.join(base, d)
            if not os.path.isdir(p): continue
            for fn in sorted(os.listdir(p)):
                if fn.startswith("00"): continue
                with open(os.path.join(p, fn), "rb") as f:
                    out.setdefault(d, []).append((fn, f.read()))
    fbase = os.path.join(src, "formats")
    if os.path.isdir(fbase):
        for fn, d in (("stockholm.1", "stockholm"), ("fasta", "afa"), ("fasta.2", "afa"), ("fasta.odd.1", "afa"), ("fasta.bad.1", "afa"),
                      ("fasta.bad.2", "afa"), ("fasta.bad.3", "afa"), ("genbank", "misc"), ("embl", "misc"), ("uniprot", "misc"), ("BLOSUM62", "misc")):
            p = os.path.join(fbase, fn)
            if os.path.exists(p):
                with open(p, "rb") as f:
                    out.setdefault(d, []).append(("formats/" + fn, f.read()[:65536]))
    return out
