"""Shared machinery of the sequence-file properties C04 / C02 / C07 (model: lean/EaselModel/Sqio/*, harness: h_sqio.c).

  * tables(ctx): kind-G regeneration of lean/EaselModel/Sqio/Tables.lean (alphabet input maps and complement tables
    dumped from the working tree's esl_alphabet.c by a tiny C program linked against the freshly built libeasel.a)
  * file generators (FASTA / EMBL / GenBank layouts, mutations, raw bytes) and record-line parsing for the monitors
"""
import os, subprocess, hashlib, re

DUMP_C = r'''
#include <stdio.h>
#include "easel.h"
#include "esl_alphabet.h"
int main(void){
  int types[3]={eslDNA,eslRNA,eslAMINO}; const char*nm[3]={"dna","rna","amino"}; int t,i;
  for(t=0;t<3;t++){ ESL_ALPHABET*a=esl_alphabet_Create(types[t]);
    printf("%s %d %d %s\n", nm[t], a->K, a->Kp, a->sym);
    for(i=0;i<128;i++) printf("%d ", a->inmap[i]);
    printf("\n");
    if(a->complement) for(i=0;i<a->Kp;i++) printf("%d ", a->complement[i]);
    printf("\n");
    esl_alphabet_Destroy(a);}
  printf("consts %d %d %d %d %d\n", eslDSQ_SENTINEL, eslDSQ_ILLEGAL, eslDSQ_IGNORED, eslDSQ_EOL, eslDSQ_EOD);
  return 0;}
'''


def dump_tables(ctx):
    src = os.path.join(ctx.work, "sqio_dump.c")
    exe = os.path.join(ctx.work, "sqio_dump")
    with open(src, "w") as f:
        f.write(DUMP_C)
    p = subprocess.run(["gcc", "-I" + ctx.src, "-fsanitize=address,undefined", src, os.path.join(ctx.src, "libeasel.a"),
                        "-lm", "-lpthread", "-o", exe], capture_output=True, text=True)
    if p.returncode != 0:
        raise RuntimeError("table dumper does not compile: " + p.stderr[-1500:])
    env = dict(os.environ, ASAN_OPTIONS="detect_leaks=0")
    p = subprocess.run([exe], capture_output=True, text=True, env=env, timeout=60)
    if p.returncode != 0:
        raise RuntimeError("table dumper failed: " + p.stderr[-1500:])
    return p.stdout


def tables_lean(dump):
    lines = dump.strip("\n").split("\n")
    out = ["/-! GENERATED on every run by props/sqio_common.py from the working tree's esl_alphabet.c (kind G). Do not edit. -/",
           "namespace EaselModel.Sqio.Tables", ""]
    i = 0
    while i < len(lines):
        w = lines[i].split()
        if w[0] == "consts":
            out.append("def dsqSentinel : UInt8 := %s\ndef dsqIllegal : UInt8 := %s\ndef dsqIgnored : UInt8 := %s\ndef dsqEol : UInt8 := %s\ndef dsqEod : UInt8 := %s" % tuple(w[1:6]))
            i += 1
            continue
        nm, K, Kp, sym = w[0], w[1], w[2], w[3]
        inmap = lines[i + 1].split()
        comp = lines[i + 2].split()
        out.append("def %sK : Nat := %s\ndef %sKp : Nat := %s" % (nm, K, nm, Kp))
        out.append("def %sSym : Array UInt8 := #[%s]" % (nm, ", ".join(str(ord(c)) for c in sym)))
        out.append("def %sInmap : Array UInt8 := #[%s]" % (nm, ", ".join(inmap)))
        out.append("def %sComp : Array UInt8 := #[%s]" % (nm, ", ".join(comp)))
        out.append("")
        i += 3
    out.append("end EaselModel.Sqio.Tables\n")
    return "\n".join(out)


def generated(ctx):
    return {"EaselModel/Sqio/Tables.lean": tables_lean(dump_tables(ctx))}


# ------------------------------------------------------------------------------------------------
# line parsing
# ------------------------------------------------------------------------------------------------
def hx(b):
    return b.hex() if b else "-"


def unhx(s):
    return b"" if s in ("-", "", None) else bytes.fromhex(s)


def kv(line):
    """'ok a=1 b=2 wf=1' -> ('ok', {'a': '1', ...})"""
    w = line.split()
    if not w:
        return "", {}
    return w[0], dict(x.split("=", 1) for x in w[1:] if "=" in x)


REC_INT = ("n", "L", "start", "end", "C", "W", "roff", "hoff", "doff", "eoff")


def rec(line):
    """record line -> dict with decoded fields, or None"""
    st, d = kv(line)
    if st not in ("ok", "eod") or "name" not in d:
        return None
    r = {"st": st}
    try:
        for k in ("name", "acc", "desc", "src", "seq"):
            r[k] = unhx(d.get(k, "-")) if d.get(k) not in ("NULL", "?") else None
        for k in REC_INT:
            r[k] = int(d[k])
    except (KeyError, ValueError):
        return None
    r["wf"] = d.get("wf", "?")
    return r


OFFS = re.compile(r" (roff|hoff|doff|eoff)=-?\d+")


def canonical(line):
    if line.startswith("fault"):
        return "fault"
    # (scan-gzip / scan-pipe lines keep their offsets: since ec6a8a0 loadmem() counts the bytes where ftello() fails)
    return line


# ------------------------------------------------------------------------------------------------
# FASTA generation (well-formed, boundary rich) -- C04 / C07 quantifier
# ------------------------------------------------------------------------------------------------
DNA = "ACGT"
DNA_DEG = "ACGTRYMKSWHBVDN"
AMINO = "ACDEFGHIKLMNPQRSTVWY"
AMINO_X = "ACDEFGHIKLMNPQRSTVWYBJZOUX"


SPIKES = "efjlopqzEFJLOPQZ" * 3 + "UuXxIiTtBbJj" + "0159" + "*-._~!@#$%&()[]{}?\\|;:,'\"+=^`" + " \t"


def rand_residues(rng, n, kind):
    if kind.startswith("spikeL:"):
        # letters only (every one is a residue in text mode): some are outside the nucleotide alphabets
        s = list(rand_residues(rng, n, kind[7:]))
        if s and rng.random() < 0.7:
            for _ in range(rng.choice([1, 1, 2])):
                s.insert(rng.choice([0, len(s), rng.randrange(len(s) + 1)]), rng.choice("efjlopqzEFJLOPQZUXIT"))
        return "".join(s)
    if kind.startswith("spike:"):
        # residues of the base alphabet with (usually) a few symbols that some alphabet / format selection must reject or skip:
        # letters outside the nucleotide alphabets, synonyms, digits, punctuation, blanks (never > / CR LF: those are structure)
        s = list(rand_residues(rng, n, kind[6:]))
        if s and rng.random() < 0.7:
            for _ in range(rng.choice([1, 1, 2, 3])):
                s.insert(rng.choice([0, len(s), len(s) - 1, rng.randrange(len(s) + 1), rng.randrange(len(s) + 1)]), rng.choice(SPIKES))
        return "".join(s)
    if kind == "dna":
        r = rng.random()
        al = DNA if r < 0.6 else (DNA + DNA.lower() if r < 0.8 else DNA_DEG + "acgtn")
    elif kind == "rna":
        al = "ACGU" if rng.random() < 0.7 else "ACGUNacgu"
    else:
        r = rng.random()
        al = AMINO if r < 0.6 else (AMINO_X + "acdefghik*" if r < 0.85 else "ABCDEFGHIJKLMNOPQRSTUVWXYZabcdefghijklmnopqrstuvwxyz*")   # every letter is a residue
    return "".join(rng.choice(al) for _ in range(n))


def rand_name(rng, used):
    base = ["seq", "s", "sp|P12345|X_Y", "gi|123", "A", "chr", "NAME.with-punct_1", "x" * 33, "n" * 70, "Z" * 31, "q" * 32]
    for _ in range(100):
        r = rng.random()
        if r < 0.12:      # allocation boundaries of sq->name / sq->source (eslSQ_NAMECHUNK = 32)
            n = rng.choice([29, 30, 31, 32, 33, 61, 62, 63, 64, 65, 127, 128])
            nm = ("%d" % rng.randrange(10, 100)) + rng.choice("QWK") * (n - 2)
        elif r < 0.5:
            nm = rng.choice(base) + str(rng.randrange(0, 30))
        elif r < 0.7 and used:
            nm = rng.choice(sorted(used))[: rng.randrange(1, 6)] + rng.choice(["", "1", "x"])    # prefixes of each other
        else:
            nm = "".join(rng.choice("abcXYZ019_|.") for _ in range(rng.randrange(1, 12)))
        if nm and nm not in used:
            used.add(nm)
            return nm
    nm = "u%d" % len(used)
    used.add(nm)
    return nm


def rand_desc(rng):
    r = rng.random()
    if r < 0.3:
        return ""
    if r < 0.42:      # allocation boundaries of sq->desc (eslSQ_DESCCHUNK = 128, doubled while parsing a FASTA header)
        return "d" * rng.choice([125, 126, 127, 128, 129, 253, 254, 255, 256, 257, 511, 512])
    if r < 0.8:
        return " ".join(rng.choice(["alpha", "beta", "x", "[Homo sapiens]", "a=b", ">", "1..20"]) for _ in range(rng.randrange(1, 5)))
    if r < 0.9:
        return "d" * rng.choice([126, 127, 128, 129, 255, 300])
    return "first\x01second entry"


def gen_fasta(rng, tier="quick", kind="dna", geometry=None, nrec=None, maxlen=None, spaces=None):
    """Return (bytes, meta). meta['recs'] = list of dict(name, desc, seq) as a conforming reader must see them;
    meta['geom'] in {'const', 'ragged'}; every record's residues are laid out in lines."""
    if nrec is None:
        nrec = rng.choice([0, 1, 1, 2, 3, 4, 6]) if tier == "quick" else rng.choice([0, 1, 2, 3, 5, 8, 20, 40])
    if geometry is None:
        geometry = "const" if rng.random() < 0.6 else "ragged"
    eol = "\r\n" if rng.random() < 0.3 else "\n"
    if geometry is not None and geometry == "cr":
        eol, geometry = "\r", "const"          # bare carriage returns (old Mac files): ends a header line, ignored inside the data
    final_nl = rng.random() < 0.75
    if spaces is None:
        spaces = rng.random() < 0.2
    width = rng.choice([1, 2, 3, 5, 10, 59, 60, 61, 80, 200, rng.randrange(1, 201)])
    used = set()
    out = []
    recs = []
    if rng.random() < 0.1:
        out.append(rng.choice(["\n", " \n", "\n\n", "\t"]))
    for i in range(nrec):
        if geometry == "ragged" and i == 0:
            L = rng.randrange(6 * width + 6, 8 * width + 40)  # at least four lines, so that lines 1 and 2 are both non-final
        elif maxlen is not None:
            L = rng.randrange(0, maxlen + 1)
        else:
            r = rng.random()
            if r < 0.08:
                L = 0
            elif r < 0.12:    # allocation boundaries of the residue array (eslSQ_SEQCHUNK = 256)
                L = rng.choice([253, 254, 255, 256, 257, 258, 511, 512, 513])
            elif r < 0.17:    # line-width boundaries of the FASTA writer (60 columns)
                L = rng.choice([59, 60, 61, 119, 120, 121, 180])
            elif r < 0.75:
                L = rng.randrange(1, 120)
            elif r < 0.93:
                L = rng.choice([width, 2 * width, 3 * width, width - 1 if width > 1 else 1, width + 1, 4 * width + 1])
            else:
                L = rng.randrange(200, 3000 if tier == "quick" else 20001)
        seq = rand_residues(rng, L, kind)
        L = len(seq)
        name = rand_name(rng, used)
        desc = rand_desc(rng)
        hdr = ">" + (rng.choice(["", "", " ", "\t"]) if rng.random() < 0.1 else "") + name
        if desc:
            hdr += rng.choice([" ", " ", "\t", "  "]) + desc
        elif rng.random() < 0.1:
            hdr += " "
        out.append(hdr + eol)
        lines = []
        p = 0
        while p < L:
            w = width if geometry == "const" else rng.randrange(1, 2 * width + 2)
            if geometry == "ragged" and i == 0 and len(lines) == 1 and w == len(lines[0]):
                w += 1                                       # make the raggedness visible to the line-geometry tracker at once
            lines.append(seq[p:p + w])
            p += w
        for j, ln in enumerate(lines):
            if spaces:
                # blocks of 10 separated by blanks, same pattern on every line (keeps bytes-per-line constant for full lines)
                ln = " ".join(ln[k:k + 10] for k in range(0, len(ln), 10))
            last = (j == len(lines) - 1) and (i == nrec - 1)
            out.append(ln + ("" if (last and not final_nl) else eol))
        if rng.random() < 0.08 and not (i == nrec - 1 and not final_nl):
            out.append(eol)                                  # blank line between records
        recs.append({"name": name, "desc": desc.split("\x01")[0], "seq": seq})
    if nrec and not final_nl and not recs[-1]["seq"]:
        pass
    data = "".join(out).encode("latin-1")
    return data, {"recs": recs, "geom": geometry, "width": width, "eol": eol, "final_nl": final_nl, "spaces": spaces, "kind": kind}


def gen_fasta_layout(rng, kind="dna", nrec=None):
    """Constant line geometry with exactly k in {0,1,2,3} ignorable bytes (blank / tab) per full line at fixed columns (leading,
    interior, trailing), LF or CRLF, so that bpl - rpl takes every value in 1..5; every sequence spans several lines; the last
    line is shorter or exactly full and carries the same columns. Returns (bytes, meta) like gen_fasta."""
    r = rng.choice([2, 3, 4, 5, 7, 10, 12, 20, 25, 30, rng.randrange(2, 41)])
    k = rng.choice([0, 1, 1, 1, 2, 2, 3])
    eol = "\r\n" if rng.random() < 0.35 else "\n"
    final_nl = rng.random() < 0.8
    cols = sorted(rng.choice([0, 0, r, rng.randrange(0, r + 1), rng.randrange(1, r) if r > 1 else 0]) for _ in range(k))   # insert before residue column c (r = trailing)
    blank = rng.choice([" ", " ", "\t"])
    if nrec is None:
        nrec = rng.choice([1, 1, 2, 3])
    used, out, recs = set(), [], []
    for i in range(nrec):
        nlines = rng.choice([2, 2, 3, 4, 6])
        L = (nlines - 1) * r + rng.choice([r, r, 1, r - 1 if r > 1 else 1, rng.randrange(1, r + 1)])
        seq = rand_residues(rng, L, kind)
        name = rand_name(rng, used)
        out.append(">" + name + (" " + rand_desc(rng).split("\x01")[0] if rng.random() < 0.4 else "") + eol)
        p = 0
        while p < L:
            ln = seq[p:p + r]
            full = len(ln) == r
            pieces, prev = [], 0
            for c in cols:
                if c <= len(ln) and (full or c < len(ln) or c == 0):
                    pieces.append(ln[prev:c] + blank)
                    prev = c
            text = "".join(pieces) + ln[prev:]
            p += r
            last = p >= L and i == nrec - 1
            out.append(text + ("" if (last and not final_nl) else eol))
        recs.append({"name": name, "desc": "", "seq": seq})
    data = "".join(out).encode("latin-1")
    return data, {"recs": recs, "geom": "layout", "width": r, "eol": eol, "final_nl": final_nl, "spaces": k > 0, "kind": kind, "k": k}


def gen_linebased(rng, fmt, kind="dna", nrec=None, tier="quick"):
    """Well-formed EMBL / UniProt (fmt 'embl','uniprot') or GenBank / DDBJ ('genbank','ddbj') files. Returns (bytes, meta)."""
    if nrec is None:
        nrec = rng.choice([1, 1, 2, 3, 5])
    eol = "\r\n" if rng.random() < 0.25 else "\n"
    final_nl = rng.random() < 0.85
    used, out, recs = set(), [], []
    if fmt in ("genbank", "ddbj") and rng.random() < 0.5:
        out.append("GBSMP.SEQ          Genetic Sequence Data Bank" + eol + "                 15 December 1992" + eol + eol)
    elif rng.random() < 0.15:
        out.append(eol)
    for i in range(nrec):
        r = rng.random()
        L = 0 if r < 0.05 else rng.randrange(1, 150) if r < 0.85 else rng.randrange(150, 1500 if tier == "quick" else 20001)
        seq = rand_residues(rng, L, kind)
        L = len(seq)
        name = "".join(c for c in rand_name(rng, used) if c not in " ;\t") or "n%d" % i
        acc = rng.choice(["", "P%05d" % rng.randrange(100000), "X%05d.%d" % (rng.randrange(100000), rng.randrange(1, 9))])
        while acc and acc in used:
            acc = "Q%06d" % rng.randrange(1000000)
        if acc:
            used.add(acc)
        desc = [w for w in rand_desc(rng).replace("\x01", " ").split(" ") if w][:8]
        per = rng.choice([60, 60, 30, 10, 70])
        if fmt in ("embl", "uniprot"):
            out.append("ID   %s%s %s; %d %s.%s" % (name, rng.choice([";", "", "  "]), "STD", L, "BP" if kind != "amino" else "AA", eol))
            out.append("XX" + eol)
            if rng.random() < 0.25:      # lines that match a keyword only on a shorter / longer prefix: must be skipped
                out.append(rng.choice(["AC  Z99999;", "ACX  Z99999;", "DE  not a description", "DEX  not a description", "SQ  x", "SQX  Sequence", "AC", "DE"]) + eol)
            if acc:
                out.append("AC   %s;%s%s" % (acc, rng.choice(["", " Q99999;"]), eol))
                if rng.random() < 0.3:
                    out.append("AC   Z00001; Z00002;" + eol)       # further accession lines: only the primary accession is kept
            dl = []
            for j in range(0, len(desc), 4):
                dl.append(" ".join(desc[j:j + 4]))
                out.append("DE   " + dl[-1] + rng.choice(["", " ", "."]) + eol)
            if rng.random() < 0.2:       # ... also behind the real AC / DE lines
                out.append(rng.choice(["DE  not a description", "DEX  not a description", "AC  Z99999;", "SQ  x", "SQX  Sequence"]) + eol)
            dtxt = None
            out.append("SQ   Sequence %d BP;%s" % (L, eol))
            for p in range(0, L, per):
                ln = seq[p:p + per]
                out.append("     " + " ".join(ln[k:k + 10] for k in range(0, len(ln), 10)) + ("   %9d" % min(L, p + per) if rng.random() < 0.8 else "") + eol)
        else:
            out.append("LOCUS       %s %d bp    DNA%s" % (name, L, eol))
            hl = []
            for j in range(0, len(desc), 4):
                hl.append(("DEFINITION  " if j == 0 else "            ") + " ".join(desc[j:j + 4]) + eol)
            if acc:
                hl.append("ACCESSION   %s%s" % (acc.split(".")[0], eol))
                hl.append("VERSION     %s  GI:%d%s" % (acc, rng.randrange(1, 99999), eol))
            if rng.random() < 0.35:
                # lines that match a keyword only on a shorter / longer prefix must be skipped - anywhere in the header, also BEHIND the
                # real VERSION / DEFINITION lines (a reader matching a shorter prefix would overwrite the accession / extend the description)
                for _ in range(rng.choice([1, 1, 2])):
                    hl.insert(rng.randrange(0, len(hl) + 1),
                              rng.choice(["VERSION  Z99999.1", "VERSION  Z99999.1", "VERSIONS  Z99999.1", "DEFINITIO  nothing", "DEFINITION nothing", "DEFINITIONX nothing",
                                          "ORIGI", "ORIGI N", "VERSION", "LOCUS  decoy 1 bp"]) + eol)
            out += hl
            out.append("ORIGIN      " + eol)
            for p in range(0, L, per):
                ln = seq[p:p + per]
                out.append("%9d " % (p + 1) + " ".join(ln[k:k + 10] for k in range(0, len(ln), 10)) + eol)
        last = i == nrec - 1
        out.append("//" + ("" if (last and not final_nl) else eol))
        recs.append({"name": name, "acc": acc, "seq": seq})
    return "".join(out).encode("latin-1"), {"recs": recs, "geom": "linebased", "width": 60, "kind": kind, "fmt": fmt}


def gen_boundary_linebased(rng, fmt, kind="dna"):
    """EMBL / UniProt / GenBank / DDBJ records whose name, accession and (multi-line) description lengths sit on the allocation
    boundaries of the ESL_SQ that reads them in file order (esl_sq_SetName/SetAccession: n >= alloc -> n+1;
    esl_sq_AppendDesc: dlen+newlen+1 >= dalloc -> dlen+newlen+128; allocations survive esl_sq_Reuse)."""
    eol = "\n"
    out, recs = [], []
    nalloc, aalloc, dalloc = 32, 32, 128
    used = set()
    for i in range(rng.choice([2, 3, 4, 5])):
        # description: joined length (pieces + joining blanks) on a boundary of the CURRENT dalloc
        tgt = rng.choice([dalloc - 2, dalloc - 1, dalloc, dalloc + 1, 2 * dalloc - 1, 2 * dalloc, rng.randrange(120, 137), rng.randrange(250, 263), rng.randrange(1, 40)])
        tgt = max(1, min(tgt, 700))
        k = rng.choice([1, 2, 2, 3, 4])
        k = max(1, min(k, (tgt + 1) // 2))
        body = tgt - (k - 1)
        cuts = sorted(rng.sample(range(1, body), k - 1)) if k > 1 and body > k else []
        if k > 1 and not cuts:
            k = 1; body = tgt
        lens = [b - a for a, b in zip([0] + cuts, cuts + [body])]
        pieces = ["".join(rng.choice("abcdefgh") for _ in range(n)) for n in lens]
        dlen = 0
        for pc in pieces:
            if dlen + len(pc) + 1 >= dalloc:
                dalloc = len(pc) + dlen + 128
            dlen = dlen + (1 if dlen > 0 else 0) + len(pc)
        nlen = rng.choice([nalloc - 2, nalloc - 1, nalloc, nalloc + 1, 2 * nalloc, rng.randrange(1, 12)])
        nlen = max(1, min(nlen, 300))
        name = None
        while name is None or name in used:
            name = "".join(rng.choice("ABCDEFGHJKLMNPQRSTUVWXYZ0123456789_") for _ in range(nlen))
        used.add(name)
        if nlen >= nalloc:
            nalloc = nlen + 1
        alen = rng.choice([0, aalloc - 2, aalloc - 1, aalloc, aalloc + 1, 8])
        alen = max(0, min(alen, 200))
        acc = ""
        while alen and (not acc or acc in used):
            acc = "".join(rng.choice("PQX0123456789") for _ in range(alen))
        if acc:
            used.add(acc)
            if alen >= aalloc:
                aalloc = alen + 1
        L = rng.choice([0, 1, 5, 60, 61, 254, 255, 256, 257, rng.randrange(1, 200)])
        seq = rand_residues(rng, L, kind)
        if fmt in ("embl", "uniprot"):
            out.append("ID   %s; STD; %d BP.%s" % (name, L, eol))
            if acc:
                out.append("AC   %s;%s" % (acc, eol))
            for pc in pieces:
                out.append("DE   " + pc + rng.choice(["", " ", "  "]) + eol)
            out.append("SQ   Sequence %d BP;%s" % (L, eol))
            for p in range(0, L, 60):
                out.append("     " + seq[p:p + 60] + eol)
        else:
            out.append("LOCUS       %s %d bp%s" % (name, L, eol))
            for j, pc in enumerate(pieces):
                out.append("DEFINITION  " + pc + eol)      # every line carries the keyword: only such lines are appended
            if acc:
                out.append("VERSION     %s  GI:1%s" % (acc, eol))
            out.append("ORIGIN" + eol)
            for p in range(0, L, 60):
                out.append("%9d %s%s" % (p + 1, seq[p:p + 60], eol))
        out.append("//" + eol)
        recs.append({"name": name, "acc": acc, "seq": seq})
    return "".join(out).encode("latin-1"), {"recs": recs, "geom": "linebased", "width": 60, "kind": kind, "fmt": fmt}


def gen_hmmpgmd(rng, kind="amino"):
    """hmmpgmd database: one `#` header line (optionally after white space), then plain FASTA"""
    data, meta = gen_fasta(rng, "quick", kind)
    hdr = rng.choice(["", "", "\n", " "]) + "#" + rng.choice(["res_cnt seq_cnt db_cnt 1 2 3", "", " x", "hdr with > inside"]) + rng.choice(["\n", "\r\n", "\n\n"])
    return hdr.encode("latin-1") + data, dict(meta, fmt="hmmpgmd")


def gen_daemon(rng, kind="dna", nrec=None):
    """Multi-record daemon-format stream: FASTA records, each terminated by a `//` line (optionally with trailing text, CRLF, blank
    lines after it; the last terminator with or without a newline)."""
    if nrec is None:
        nrec = rng.choice([1, 2, 2, 3, 5])
    eol = "\r\n" if rng.random() < 0.25 else "\n"
    used, out, recs = set(), [], []
    for i in range(nrec):
        L = rng.choice([0, 1, 5, 60, 61, rng.randrange(1, 200), rng.randrange(1, 200)])
        seq = rand_residues(rng, L, kind)
        L = len(seq)
        name = rand_name(rng, used)
        desc = rand_desc(rng).split("\x01")[0] if rng.random() < 0.5 else ""
        w = rng.choice([60, 10, 1, 200])
        out.append(">" + name + (" " + desc if desc else "") + eol)
        out += [seq[k:k + w] + eol for k in range(0, L, w)]
        last = i == nrec - 1
        out.append("//" + rng.choice(["", "", "", " end of record", "\t"]) + ("" if last and rng.random() < 0.3 else eol))
        if not last and rng.random() < 0.2:
            out.append(eol)
        recs.append({"name": name, "desc": desc, "seq": seq})
    return "".join(out).encode("latin-1"), {"recs": recs, "geom": "daemon", "width": 60, "kind": kind, "fmt": "daemon"}


BSIZES = [1, 2, 3, 7, 64, 4096]
BSWEEP = [1, 2, 3, 4, 5, 6, 7, 8, 9, 10, 11, 12, 13, 15, 16, 17, 31, 32, 33, 63, 64, 65, 100, 127, 128, 129, 255, 256, 257, 511, 512, 513,
          1000, 1023, 1024, 1025, 2047, 2048, 2049, 4095, 4096, 4097]


def pick_B(rng, data, small_ok=True):
    """read-block size (hook H2) for one session: the whole range 1..4097 is swept (BSWEEP + uniform), with extra weight on the sizes that
    put a block boundary at a structural position of THIS file: inside / at the end of the first header line (B smaller than, equal to,
    one more than the header line), at every record start ('>'), at an end-of-line pair (CR | LF), at the end of the file."""
    n = len(data)
    r = rng.random()
    if r < 0.30:
        B = rng.choice(BSIZES)
    elif r < 0.55:
        B = rng.choice(BSWEEP)
    elif r < 0.65:
        B = rng.randrange(1, 4098)
    elif r < 0.75:
        B = rng.randrange(1, 40)
    else:
        marks = [n - 1, n, n + 1]
        e = data.find(b"\n")
        if e >= 0:
            marks += [e - 1, e, e + 1, e + 2, max(1, e // 2)]
        k = data.find(b"\r\n")
        if k >= 0:
            marks += [k, k + 1, k + 2]
        g, cnt = data.find(b">", 1), 0
        while g >= 0 and cnt < 6:
            marks += [g - 1, g, g + 1]
            g, cnt = data.find(b">", g + 1), cnt + 1
        marks = [m for m in marks if 1 <= m <= 8192]
        B = rng.choice(marks) if marks else 1
    if not small_ok and B < 7:
        B = rng.choice([7, 64, 4096])
    return B


def fasta_geometry(data):
    """Independent (python) account of the line geometry of a FASTA file: list of records, each a list of
    (nbytes_including_eol, nresidues, terminated) for its data lines; blank/space-only lines included."""
    recs = []
    i, n = 0, len(data)
    # records start at '>' seen where the residue scanner looks for EOD; a simple line-based account is enough for generated files
    lines = data.split(b"\n")
    cur = None
    for k, ln in enumerate(lines):
        term = k < len(lines) - 1
        if ln.lstrip(b" \t\r\x0b\x0c").startswith(b">"):      # header_fasta skips white space in front of '>'
            cur = []
            recs.append(cur)
            continue
        if cur is None:
            continue
        if not term and ln == b"":
            continue
        nres = sum(1 for c in ln if chr(c).isalpha() or c == 42)
        cur.append((len(ln) + (1 if term else 0), nres, term))
    return recs


def geometry_sound(data, bpl, rpl):
    """The precondition of the offset arithmetic of esl_ssi_FindSubseq / reverse ReadWindow: every non-final data line of every
    record has exactly rpl residues and bpl bytes, every final line at most rpl residues, and - when bpl == rpl+1 selects
    residue addressing - no line has a non-residue byte other than its terminator."""
    for lines in fasta_geometry(data):
        while lines and lines[0][1] == 0 and lines[0][0] <= 2:   # blank lines right after the header are skipped by header_fasta
            lines = lines[1:]
        for j, (b, r, term) in enumerate(lines):
            if j < len(lines) - 1:
                if b != bpl or r != rpl:
                    return False
            elif r > rpl:
                return False
            if bpl == rpl + 1 and b - r > (1 if term else 0):
                return False
    return True


# ------------------------------------------------------------------------------------------------
# monitors (direct statements of the properties on the implementation's output lines)
# ------------------------------------------------------------------------------------------------
COMP = {"A": "T", "C": "G", "G": "C", "T": "A", "U": "A", "R": "Y", "Y": "R", "M": "K", "K": "M", "S": "S", "W": "W", "H": "D",
        "B": "V", "V": "B", "D": "H", "N": "N", "X": "X"}
COMP.update({k.lower(): v.lower() for k, v in list(COMP.items())})
for _c in "._-~*":
    COMP[_c] = _c


def revcomp_text(s):
    return bytes(ord(COMP.get(chr(c), "N")) for c in reversed(s))


DIGITAL_COMP = {"dna": [3, 2, 1, 0, 4, 6, 5, 8, 7, 9, 10, 14, 13, 12, 11, 15, 16, 17]}
DIGITAL_COMP["rna"] = DIGITAL_COMP["dna"]


def revcomp_any(seq, abc):
    if abc == "text":
        return revcomp_text(seq)
    t = DIGITAL_COMP[abc]
    return bytes(t[c] if c < len(t) else 255 for c in reversed(seq))


def sessions(case, out):
    """Split a case into sessions: [(file_bytes, open_kv, [(op, kv, line), ...]), ...] for every successful open."""
    res = []
    data = b""
    cur = None
    for op, line in zip(case["ops"], out):
        w = op.split()
        d = dict(x.split("=", 1) for x in w[1:] if "=" in x)
        if w[0] == "file":
            data = unhx(d.get("hex", "-"))
            cur = None
        elif w[0] == "open":
            if line.startswith("ok"):
                d = dict(d, rfmt=kv(line)[1].get("fmt", ""))
                cur = (data, d, [])
                res.append(cur)
            else:
                cur = None
        elif w[0] == "close":
            cur = None
        elif w[0] == "srcscan":
            # one synthetic session per scan through a gzip pipe / standard input
            cur = None
            if line.startswith(("scan-gzip ", "scan-stdin ", "scan-pipe ")):
                tag, rest = line.split(" ", 1)
                if rest.startswith("open-"):
                    continue                      # the open itself failed (empty file, undetectable format): nothing was read
                call = d.get("call", "read")
                opn = {"read": "read", "readinfo": "readinfo", "readseq": "readseq"}.get(call, "readwin")
                items = []
                for piece in rest.split(" ;; "):
                    items.append((opn, d, piece))
                    if opn == "readwin" and piece.startswith("eod"):
                        items.append(("reuse", {}, "ok"))
                res.append((data, d, items))      # offsets on a pipe are checked like those of a file (fix ec6a8a0)
        elif cur is not None:
            cur[2].append((w[0], d, line))
    return res


def check_offsets(data, r, text_mode):
    """offsets of a whole-record read are the true byte positions (FASTA)"""
    n = len(data)
    ro, ho, do, eo = r["roff"], r["hoff"], r["doff"], r["eoff"]
    if not (0 <= ro < n and data[ro:ro + 1] == b">"):
        return "roff=%d is not the byte position of '>'" % ro
    if ho != -1 and not (ro < ho <= n and (ho == n or data[ho] in (10, 13)) and b"\n" not in data[ro:ho] and b"\r" not in data[ro:ho]):
        return "hoff=%d is not the end of the header line" % ho
    if not (ro < do <= n and (data[do - 1] in (10, 13) or do == n) and (do == n or data[do] not in (10, 13))):
        return "doff=%d is not the first byte after the header line" % do
    if not (do - 1 <= eo < n and (eo == n - 1 or data[eo + 1:eo + 2] == b">")):
        return "eoff=%d is not the last byte of the record" % eo
    if text_mode and r["seq"] is not None and r["n"] == r["L"]:
        body = bytes(c for c in data[do:eo + 1] if chr(c).isalpha() or c == 42)
        if body != r["seq"]:
            return "residues between doff and eoff differ from the returned sequence"
    return None


def monitor_windows(items, abc, start_idx=0):
    """items: list of (op, kv, line) of one session. Check every complete forward (and reverse) window series.
    Returns (error or None, list of reconstructed (name, seq, L))."""
    recon = []
    i = 0
    fwd = None          # forward reconstruction of the current record
    cur = []            # windows of the current strand
    prev = None
    strand = 0
    rev_parts = None
    for op, d, line in items:
        if op == "reuse":
            fwd = None; cur = []; prev = None; strand = 0; rev_parts = None
            continue
        if op != "readwin":
            continue
        C, W = int(d["C"]), int(d["W"])
        st = line.split()[0] if line else ""
        r = rec(line)
        if st not in ("ok", "eod") or r is None:
            fwd = None; cur = []; prev = None
            continue
        if W > 0:
            if st == "ok":
                if r["seq"] is None:
                    return "window without residues", recon
                new = r["seq"][r["C"]:]
                ctx = r["seq"][:r["C"]]
                if prev is None:
                    if not (r["start"] == 1 and r["C"] == 0):
                        return "first window does not start at 1 with empty context: start=%d C=%d" % (r["start"], r["C"]), recon
                    fwd = b""
                else:
                    if r["C"] != min(C, prev["n"]):
                        return "context length %d, expected min(C=%d, previous n=%d)" % (r["C"], C, prev["n"]), recon
                    if ctx != fwd[len(fwd) - r["C"]:] if r["C"] else ctx != b"":
                        return "context is not the preceding %d residues" % r["C"], recon
                    if r["start"] + r["C"] != prev["end"] + 1:
                        return "window coordinates not contiguous: start=%d C=%d previous end=%d" % (r["start"], r["C"], prev["end"]), recon
                if not (1 <= len(new) <= W and r["W"] == len(new) and r["end"] == r["start"] + r["n"] - 1):
                    return "window size/coordinates inconsistent: W=%d n=%d start=%d end=%d" % (r["W"], r["n"], r["start"], r["end"]), recon
                if prev is not None and prev["W"] < prev["reqW"]:
                    return "a short window was followed by another window", recon
                fwd += new
                prev = dict(r, reqW=W)
            else:  # eod
                if fwd is None:
                    fwd = b""
                if r["L"] != len(fwd):
                    return "EOD reports L=%d but the windows delivered %d residues" % (r["L"], len(fwd)), recon
                recon.append((r["name"], fwd, r["L"]))
                prev = None
                strand = 1
                rev_parts = None
        else:
            W = -W
            if fwd is None:
                continue
            want = revcomp_any(fwd, abc)
            if st == "ok":
                new = r["seq"][r["C"]:]
                if rev_parts is None:
                    rev_parts = b""
                    if not (r["start"] == len(fwd) and r["C"] == 0):
                        return "first reverse window does not start at L with empty context", recon
                else:
                    if r["seq"][:r["C"]] != rev_parts[len(rev_parts) - r["C"]:] if r["C"] else False:
                        return "reverse context is not the preceding residues of the reverse strand", recon
                    if r["start"] - r["C"] != prevr["end"] - 1:
                        return "reverse window coordinates not contiguous", recon
                if not (r["start"] - r["end"] + 1 == r["n"] and r["W"] == len(new) and 1 <= len(new) <= W):
                    return "reverse window size/coordinates inconsistent", recon
                rev_parts += new
                prevr = r
                if want[:len(rev_parts)] != rev_parts:
                    return "reverse windows are not the reverse complement of the forward sequence", recon
            else:
                if rev_parts is None:
                    rev_parts = b""
                if rev_parts != want:
                    return "reverse strand windows delivered %d residues, expected the %d-residue reverse complement" % (len(rev_parts), len(want)), recon
                rev_parts = None
    return None, recon


KEY_GEOM = "seebuf:line-geometry-accepts-long-last-line"


def last_record_empty(data):
    """the last FASTA record has a header line and nothing but end-of-line characters after it"""
    k = data.rfind(b">")
    if k < 0:
        return False
    rest = data[k:]
    e = min([x for x in (rest.find(b"\n"), rest.find(b"\r")) if x >= 0] or [len(rest)])
    return rest[e:].strip(b"\r\n") == b""


def geom_unsound(data, line):
    """a `geom` / `index` answer that claims constant line geometry which the file does not have"""
    st, d = kv(line)
    try:
        b, r = int(d.get("bpl", "0")), int(d.get("rpl", "0"))
    except ValueError:
        return False
    return st == "ok" and b > 0 and r > 0 and not geometry_sound(data, b, r)


GEOM_OPS = ("readwin", "fetchsub", "toolsub", "geom", "index", "wfasta")


def known_regions(case, impl_out, model_out=None):
    """Per op index: None, or the key of the known finding whose region the op lies in (DESIGN 2.6).
    Region: the line-geometry tracker reported (on either side) a constant geometry the file does not have; every later
    geometry-dependent answer of that session."""
    keys = [None] * len(case["ops"])
    data = b""
    unsound = False
    skipdead = False
    for i, op in enumerate(case["ops"]):
        w = op.split()
        if w[0] == "file":
            d = dict(x.split("=", 1) for x in w[1:] if "=" in x)
            data = unhx(d.get("hex", "-"))
        if w[0] in ("file", "open", "close"):
            unsound = False
            skipdead = False
            continue
        lines = [o[i] for o in (impl_out, model_out) if o is not None and i < len(o)]
        if w[0] in ("geom", "index") and any(geom_unsound(data, l) for l in lines):
            unsound = KEY_GEOM
        if unsound and (w[0] in GEOM_OPS or skipdead):
            keys[i] = unsound
            if any(not l.startswith(("ok", "eod", "eof")) for l in lines):
                skipdead = True
    return keys


def is_clean(data):
    """generator-side: the file's line geometry cannot mislead the tracker (either no record has two lines, or the first
    two-line record's first line fixes a (bpl, rpl) that the whole file obeys)"""
    for lines in fasta_geometry(data):
        while lines and lines[0][1] == 0 and lines[0][0] <= 2:
            lines = lines[1:]
        if len(lines) >= 2:
            return geometry_sound(data, lines[0][0], lines[0][1])
    return True


def compare(prop, case, impl_out, model_out):
    """exact comparison, except (a) lines the model declares outside its scope (`unmodelled`), (b) ops inside the region
    of a known finding (tolerated whether or not the repair has landed)"""
    keys = known_regions(case, impl_out, model_out)
    n = max(len(impl_out), len(model_out))
    for i in range(n):
        a = prop.canonical(impl_out[i]) if i < len(impl_out) else "<missing>"
        b = prop.canonical(model_out[i]) if i < len(model_out) else "<missing>"
        if b == "unmodelled" and a != "<missing>":
            continue
        if a.startswith("atexit ") and b == "<missing>":
            continue
        if a == "<missing>" and any(l.startswith("fault") for l in impl_out):
            break                      # the implementation died earlier in this case: reported as a fault, nothing left to compare
        if i < len(keys) and keys[i] is not None and not a.startswith("fault"):
            continue
        if a != b:
            return (i, a[:400], b[:400])
    return None


def basic_line_checks(case, out, Failure):
    """checks that apply to every property: well-formed records, no internal exception, no unknown status"""
    for op, l in zip(case["ops"], out):
        if " wf=0" in l:
            return Failure("monitor", "ill-formed ESL_SQ returned by %r: %s" % (op[:60], l[l.index(" wf=0") + 1:][:80]))
        if op.startswith("echo") and l == "einval exc":           # documented misuse: Echo() of an ESL_SQ without disk offsets (eslEINVAL)
            continue
        if l.endswith(" exc") and not l.startswith("esyntax"):   # ESYNTAX = documented misuse (reverse window before forward strand)
            return Failure("monitor", "internal exception raised by %r: %s" % (op[:60], l[:80]))
        if l.startswith("estatus?"):
            return Failure("monitor", "undocumented status from %r" % op[:60])
    return None


def keyed(prop_id, case, out, failure_fn):
    """run a monitor on the ops outside the known regions first; a failure that only appears inside one carries its key"""
    from vlib.engine import Failure
    keys = known_regions(case, out)
    if any(keys):
        masked = [l if k is None else "known-region" for l, k in zip(out, keys)]
        f = failure_fn(case, masked)
        if f:
            return f
        f = failure_fn(case, out)
        if f:
            f.key = "%s:%s" % (prop_id, next(k for k in keys if k))
        return f
    return failure_fn(case, out)


def parse_block(line):
    """'ok count=2 complete=1 | name=.. n=.. ... seq=.. | ... | wf=1' -> (count, complete, [dict])"""
    parts = line.split(" | ")
    st, d = kv(parts[0])
    items = []
    for p in parts[1:]:
        if p.startswith("wf="):
            continue
        _, e = kv("x " + p)
        try:
            items.append({"name": unhx(e["name"]), "n": int(e["n"]), "L": int(e["L"]), "start": int(e["start"]), "end": int(e["end"]),
                          "C": int(e["C"]), "W": int(e["W"]), "seq": unhx(e["seq"]) if e["seq"] != "?" else None})
        except (KeyError, ValueError):
            return None
    return int(d.get("count", -1)), int(d.get("complete", -1)), items


def monitor_blocks(items, abc):
    """ReadBlock: short mode = whole records in file order; long-target mode = windows whose new parts reassemble each record.
    Returns (error, [(name, seq)])"""
    recon = []
    cur = None
    for op, d, line in items:
        if op != "readblock" or not line.startswith("ok"):
            continue
        b = parse_block(line)
        if b is None:
            return "unparsable block line", recon
        count, complete, ents = b
        if count != len(ents):
            return "block count=%d but %d entries" % (count, len(ents)), recon
        lng = d.get("long") == "1"
        for e in ents:
            if e["seq"] is None or len(e["seq"]) != e["n"]:
                return "block entry with n=%d but %d residues" % (e["n"], len(e["seq"] or b"")), recon
            if not lng:
                recon.append((e["name"], e["seq"]))
                continue
            new = e["seq"][e["C"]:]
            if cur is not None and cur[0] == e["name"] and e["start"] + e["C"] == cur[2] + 1 and cur[2] >= 1 and (e["start"] > 1 or e["C"] > 0):
                if e["C"] and cur[1][len(cur[1]) - e["C"]:] != e["seq"][:e["C"]]:
                    return "block window context is not the preceding residues", recon
                cur = (cur[0], cur[1] + new, e["end"])
                recon[-1] = (cur[0], cur[1])
            else:
                if e["n"] and not (e["start"] == 1 and e["C"] == 0):
                    return "first window of a record in a block does not start at 1: start=%d C=%d" % (e["start"], e["C"]), recon
                cur = (e["name"], new, e["end"] if e["n"] else 0)
                recon.append((cur[0], cur[1]))
            if e["n"] and e["end"] != e["start"] + e["n"] - 1:
                return "block window coordinates inconsistent", recon
    return None, recon


def monitor_c04(case, out):
    return keyed("C04", case, out, _monitor_c04)


def open_must_succeed(case, out, Failure):
    """generated files with at least one record are well formed: every open (declared or autodetected format) must succeed"""
    if (case.get("meta") or {}).get("nrec", 0) <= 0:
        return None
    lead_ws = False
    for op, l in zip(case["ops"], out):
        if op.startswith("file "):
            d = dict(x.split("=", 1) for x in op.split()[1:] if "=" in x)
            lead_ws = unhx(d.get("hex", "-"))[:1] in (b" ", b"\t", b"\n", b"\r", b"")
        if " fmt=unknown" in op and lead_ws:
            continue        # autodetection looks at the first byte of the first non-blank line: white space before '>' defeats it
        if op.startswith("open ") and not l.startswith(("ok", "fault", "atexit")):
            return Failure("monitor", "opening a well-formed file failed: %s -> %s" % (op[:60], l[:40]))
        if op.startswith("srcscan ") and " open-" in l[:24]:
            return Failure("monitor", "opening a well-formed file through a pipe / stdin failed: %s -> %s" % (op[:60], l[:40]))
    return None


def _monitor_c04(case, out):
    from vlib.engine import Failure
    f = basic_line_checks(case, out, Failure) or open_must_succeed(case, out, Failure)
    if f:
        return f
    byfile = {}
    for data, od, items in sessions(case, out):
        abc = od.get("abc", "text")
        if od.get("rfmt", "1").isdigit() and int(od.get("rfmt", "1")) >= 100:
            continue          # autodetection handed the file to the alignment readers: a different reading of the bytes, not compared
        fasta = (od.get("fmt") == "fasta" or od.get("rfmt") == "1") and not od.get("nooff")
        nooff = bool(od.get("nooff"))
        items = [(op, d, line) for op, d, line in items if line != "known-region"] if not any(
            line == "known-region" and op == "readwin" for op, d, line in items) else [x for x in items if x[0] != "readwin"]
        merged = byfile.setdefault(data, {"recs": {}, "counts": set()})
        idx = 0
        complete = False
        for op, d, line in items:
            if op == "pos":
                if d.get("off") == "0" and line.startswith("ok"):
                    idx = 0                  # rewound: a second pass over the same records
                    complete = False
                else:
                    break
                continue
            if op in ("read", "readinfo", "readseq"):
                st = line.split()[0] if line else ""
                if st == "eof":
                    complete = True
                    continue
                if st == "dead":
                    break
                r = rec(line)
                if st != "ok" or r is None:
                    return Failure("monitor", "%s on a well-formed file returned %r" % (op, line[:80]))
                err = check_offsets(data, r, abc == "text" and op != "readinfo") if fasta else None
                if err:
                    return Failure("monitor", "%s record %d (B=%s abc=%s): %s" % (op, idx, od.get("B"), abc, err))
                m = merged["recs"].setdefault(idx, {})
                fields = {"roff": r["roff"], "doff": r["doff"], "eoff": r["eoff"], "L": r["L"]} if not nooff else {"L": r["L"]}
                if op != "readseq":
                    fields.update(name=r["name"], acc=r["acc"], desc=r["desc"])
                    if not nooff:
                        fields["hoff"] = r["hoff"]
                if op != "readinfo":
                    fields["seq:" + abc] = r["seq"]
                    if r["n"] != r["L"] or len(r["seq"] or b"") != r["n"]:
                        return Failure("monitor", "%s record %d: n=%d L=%d but %d residues returned" % (op, idx, r["n"], r["L"], len(r["seq"] or b"")))
                for k, v in fields.items():
                    if k in m and m[k][0] != v:
                        return Failure("monitor", "record %d: %s differs between %s (B=%s abc=%s) and %s: %r vs %r" % (
                            idx, k, op, od.get("B"), abc, m[k][1], str(v)[:60], str(m[k][0])[:60]))
                    m.setdefault(k, (v, "%s B=%s abc=%s" % (op, od.get("B"), abc)))
                idx += 1
            elif op == "roundtrip":
                if line.startswith("ok") and " same=1" not in line:
                    return Failure("monitor", "writing the records as FASTA and re-reading does not reproduce them: " + line[:80])
        if complete and any(op in ("read", "readinfo", "readseq") for op, _, _ in items):
            merged["counts"].add(idx)
            if len(merged["counts"]) > 1:
                return Failure("monitor", "number of records differs between read paths: %s" % sorted(merged["counts"]))
        if any(op == "readblock" for op, _, _ in items):
            err, recon = monitor_blocks(items, abc)
            if err:
                return Failure("monitor", "blocks (B=%s abc=%s): %s" % (od.get("B"), abc, err))
            ended = any(op == "readblock" and line == "eof" for op, _, line in items)
            for i, (name, seq) in enumerate(recon):
                m = merged["recs"].setdefault(i, {})
                last = i == len(recon) - 1
                for k, v in (("name", name), ("seq:" + abc, seq)):
                    if k in m and m[k][0] != v and not (k.startswith("seq") and last and not ended):
                        return Failure("monitor", "record %d: %s delivered by ReadBlock (B=%s abc=%s) differs from %s" % (i, k, od.get("B"), abc, m[k][1]))
                    if not (k.startswith("seq") and last and not ended):
                        m.setdefault(k, (v, "blocks B=%s abc=%s" % (od.get("B"), abc)))
        if any(op == "readwin" for op, _, _ in items):
            err, recon = monitor_windows(items, abc)
            if err:
                return Failure("monitor", "windows (B=%s abc=%s): %s" % (od.get("B"), abc, err))
            for i, (name, seq, L) in enumerate(recon):
                m = merged["recs"].setdefault(i, {})
                for k, v in (("name", name), ("L", L), ("seq:" + abc, seq)):
                    if k in m and m[k][0] != v:
                        return Failure("monitor", "record %d: %s reassembled from windows (B=%s abc=%s) differs from %s" % (i, k, od.get("B"), abc, m[k][1]))
                    m.setdefault(k, (v, "windows B=%s abc=%s" % (od.get("B"), abc)))
    return None


C04_THEOREMS = ["fwd_first_window", "fwd_windows_tile", "rev_first_window", "rev_windows_tile", "rev_offset_brute_force",
                "addbuf_moves_only_bpos", "loadbuf_ignores_bpos", "nextchar_block_size_independent",
                "writeFasta_keeps_residues", "open_block_size_independent", "header_fasta_block_size_independent",
                "seebuf_is_byte_fold", "buffer_cut_invisible", "readinfo_loop_is_file_fold", "readInfo_block_size_independent",
                "readInfo_after_open_block_size_independent",
                "residue_loop_closed_form", "header_fasta_closed_form", "read_one_record_closed_form", "open_is_openFasta",
                "read_all_eq_parseFasta", "read_all_eq_specFasta", "read_all_block_size_independent",
                "readInfo_closed_form", "readSequence_closed_form", "read_readInfo_readSequence_agree",
                "windows_eq_read", "windows_then_ready", "file_windows_eq_specFasta", "windows_concat_eq_read", "windows_coords", "read_nres_closed_form", "readBlock_short_eq_read", "write_read_roundtrip", "writeFasta_is_fastaText", "write_read_roundtrip_digital", "writeFasta_is_fastaText_digital",
                "loadbuf_line_closed_form", "loadbuf_line_block_size_independent", "open_line_based",
                "rev_first_window_eq_revcomp_slice", "rev_next_window_eq_revcomp_slice", "rev_window_eq_revcomp_slice_line", "rev_window_eq_revcomp_slice_residue",
                "header_embl_block_size_independent", "header_genbank_block_size_independent", "read_linebased_block_size_independent", "open_line_based_sim",
                "read_all_linebased_block_size_independent", "readInfo_readSequence_linebased_block_size_independent",
                "readWindow_readBlock_linebased_block_size_independent"]
C02_THEOREMS = ["loadbuf_total", "nextchar_total", "nextchar_no_fault", "seebuf_total", "inmaps_agree",
                "read_total", "read_no_fault", "readInfo_total", "readSequence_total", "read_all_total", "readBlock_total", "read_nres_total", "read_nres_total_any", "readWindow_total", "read_linebased_total", "read_all_linebased_total"]
C07_THEOREMS = ["findSubseq_absent", "findSubseq_out_of_range", "fetchSubseq_absent", "fetchSubseq_start_out_of_range", "findSubseq_cases",
                "lands_on_start_line", "lands_on_start_residue", "lands_on_start_none", "bplrpl_sound_partial", "bplrpl_unsound_single_line", "bplrpl_unsound_at_init",
                "echo_eq_scan_bytes", "echo_unset_offsets", "echo_of_scanned_record", "echo_of_read_record",
                "fetchSubseq_eq_scan_slice_brute", "fetchSubseq_eq_scan_slice_line", "fetchSubseq_eq_scan_slice_residue", "fetchSubseq_end_out_of_range", "scanned_record_shape", "fetch_eq_scan"]


def _monitor_c07(case, out):
    """fetch = scan: every fetched record / subsequence equals the record / slice delivered by the sequential scan of the same session"""
    from vlib.engine import Failure
    f = basic_line_checks(case, out, Failure)
    if f:
        return f
    for data, od, items in sessions(case, out):
        abc = od.get("abc", "text")
        scan = []           # records of the leading sequential scan
        scanning = True
        indexed = False
        pending = None      # record positioned by poskey / posnum
        last_fetch = None
        byname = {}
        for op, d, line in items:
            if line == "known-region":
                pending = None
                continue
            st = line.split()[0] if line else ""
            if op == "index":
                scanning = False
                indexed = line.startswith("ok")
                for r in scan:
                    byname.setdefault(r["name"], r)
                    if r["acc"]:
                        byname.setdefault(r["acc"], r)
                continue
            if scanning:
                if op == "read" and st == "ok":
                    r = rec(line)
                    if r:
                        scan.append(r)
                continue
            if not indexed:
                continue
            key = unhx(d.get("key", "-")) if "key" in d else None
            src = byname.get(key) if key is not None else None
            if op in ("toolmulti", "toolmultisub"):
                src = True
            if op in ("fetch", "fetchinfo", "fetchsub", "poskey", "toolsub", "toolfetch") and src is None:
                if st in ("ok", "eod") or line.startswith("ok"):
                    return Failure("monitor", "%s of absent key %r returned data: %s" % (op, key, line[:80]))
                if st != "enotfound" and op != "toolsub":
                    return Failure("monitor", "%s of absent key %r returned %s, not eslENOTFOUND" % (op, key, st))
                pending = None
                continue
            if op in ("fetch", "fetchinfo"):
                r = rec(line)
                if st != "ok" or r is None:
                    return Failure("monitor", "%s of key %r failed: %s" % (op, key, line[:80]))
                for k in ("name", "acc", "desc", "L", "roff", "doff", "eoff") + (("seq",) if op == "fetch" else ()):
                    if r[k] != src[k]:
                        return Failure("monitor", "%s key=%r: %s = %r but the sequential scan gave %r" % (op, key, k, str(r[k])[:50], str(src[k])[:50]))
                last_fetch = r if op == "fetch" else None
            elif op == "echo":
                if line.startswith("ok hex=") and last_fetch is not None:
                    got = unhx(line.split("hex=")[1].split()[0])
                    if got != data[last_fetch["roff"]:last_fetch["eoff"] + 1]:
                        return Failure("monitor", "esl_sqio_Echo wrote %d bytes that are not the record's bytes %d..%d of the file" % (len(got), last_fetch["roff"], last_fetch["eoff"]))
                elif not line.startswith(("ok", "dead")):
                    return Failure("monitor", "esl_sqio_Echo failed: " + line[:60])
            elif op == "toolfetch":
                if not line.startswith("ok hex="):
                    return Failure("monitor", "esl-sfetch whole-record fetch of %r failed: %s" % (key, line[:80]))
                got = unhx(line.split("hex=")[1].split()[0])
                if got != data[src["roff"]:src["eoff"] + 1]:
                    return Failure("monitor", "esl-sfetch %r wrote %d bytes that are not the record's bytes %d..%d of the file" % (key, len(got), src["roff"], src["eoff"]))
            elif op == "toolmulti":
                if not line.startswith("ok hex="):
                    return Failure("monitor", "esl-sfetch -f failed: %s" % line[:80])
                got = unhx(line.split("hex=")[1].split()[0])
                ks = [l.split()[0] for l in unhx(d.get("text", "-")).split(b"\n") if l.strip() and not l.strip().startswith(b"#")]
                want = b"".join(data[byname[k]["roff"]:byname[k]["eoff"] + 1] for k in ks if k in byname)
                if got != want:
                    return Failure("monitor", "esl-sfetch -f wrote %d bytes, the %d named records occupy %d bytes of the file" % (len(got), len(ks), len(want)))
            elif op == "toolmultisub":
                if not line.startswith("ok hex="):
                    return Failure("monitor", "esl-sfetch -Cf failed: %s" % line[:80])
                got = unhx(line.split("hex=")[1].split()[0])
                want = b""
                for l in unhx(d.get("text", "-")).split(b"\n"):
                    t = l.split()
                    if len(t) != 4 or t[0].startswith(b"#") or t[3] not in byname:
                        continue
                    sA, eA, sr = int(t[1]), int(t[2]), byname[t[3]]
                    lo, hi, rc = (eA, sA, True) if (eA != 0 and sA > eA) else (sA, sr["L"] if eA == 0 else eA, False)
                    sub = sr["seq"][lo - 1:hi]
                    if rc:
                        sub = revcomp_text(sub)
                    hdr = b">" + t[0] + (b" " + sr["acc"] if sr["acc"] else b"") + (b" " + sr["desc"] if sr["desc"] else b"") + b"\n"
                    want += hdr + b"".join(sub[k:k + 60] + b"\n" for k in range(0, len(sub), 60))
                if abc == "text" and got != want:
                    return Failure("monitor", "esl-sfetch -Cf wrote %r..., expected %r..." % (got[:60], want[:60]))
            elif op == "fetchsub":
                s, e = int(d["s"]), int(d["e"])
                L = src["L"]
                e2 = L if e == 0 else e
                valid = 1 <= s <= L and s <= e2 <= L
                r = rec(line)
                if not valid:
                    if st == "ok":
                        return Failure("monitor", "fetchsub key=%r %d..%d outside 1..%d returned data" % (key, s, e, L))
                    if st != "erange":
                        return Failure("monitor", "fetchsub key=%r %d..%d outside 1..%d returned %s, not eslERANGE" % (key, s, e, L, line[:60]))
                else:
                    if st != "ok" or r is None:
                        return Failure("monitor", "fetchsub key=%r %d..%d (L=%d) failed: %s" % (key, s, e, L, line[:80]))
                    if r["seq"] != src["seq"][s - 1:e2]:
                        return Failure("monitor", "fetchsub key=%r %d..%d returned %r, the scanned sequence has %r there" % (
                            key, s, e, (r["seq"] or b"")[:40], src["seq"][s - 1:e2][:40]))
                    if not (r["start"] == s and r["end"] == e2 and r["n"] == e2 - s + 1 and r["L"] == L and r["src"] == key
                            and r["acc"] == src["acc"] and r["desc"] == src["desc"]):
                        return Failure("monitor", "fetchsub key=%r %d..%d: coordinates/annotation wrong: %s" % (key, s, e, line[:120]))
            elif op == "toolsub":
                s, e = int(d["s"]), int(d["e"])
                L = src["L"]
                if not line.startswith("ok hex="):
                    return Failure("monitor", "esl-sfetch subsequence fetch %r %d..%d failed: %s" % (key, s, e, line[:80]))
                if abc == "text" or True:
                    lo, hi, rc = (e, s, True) if (e != 0 and s > e) else (s, L if e == 0 else e, False)
                    want = src["seq"] if abc == "text" else None
                    got = unhx(line.split("hex=")[1].split()[0])
                    body = b"".join(got.split(b"\n")[1:])
                    if abc == "text":
                        w = want[lo - 1:hi]
                        if rc:
                            w = revcomp_text(w)
                        if body != w:
                            return Failure("monitor", "esl-sfetch -c %d..%d %r wrote %r, expected %r" % (s, e, key, body[:40], w[:40]))
            elif op in ("poskey", "posnum"):
                if op == "posnum":
                    n = int(d["n"])
                    names = sorted({r["name"] for r in scan})
                    if n >= len(names):
                        if st != "enotfound":
                            return Failure("monitor", "posnum %d beyond the %d records returned %s" % (n, len(names), st))
                        pending = None
                        continue
                    src = byname[names[n]]
                if st != "ok":
                    return Failure("monitor", "%s failed: %s" % (op, line[:60]))
                pending = src
            elif op in ("read", "readinfo", "readseq") and pending is not None:
                r = rec(line)
                if st != "ok" or r is None:
                    return Failure("monitor", "%s after positioning failed: %s" % (op, line[:60]))
                ks = {"read": ("name", "desc", "seq", "L", "roff"), "readinfo": ("name", "desc", "L", "roff"), "readseq": ("seq", "L", "roff")}[op]
                for k in ks:
                    if r[k] != pending[k]:
                        return Failure("monitor", "%s after positioning on %r: %s differs from the sequential scan" % (op, pending["name"], k))
                pending = None
    return None


# ------------------------------------------------------------------------------------------------
# alignment databases (second half of C07): esl-afetch index + fetch, harness + monitor only
# ------------------------------------------------------------------------------------------------
def fnv1a(b):
    h = 0xcbf29ce484222325
    for c in b:
        h = ((h ^ c) * 0x100000001b3) & 0xFFFFFFFFFFFFFFFF
    return h


def gen_stockholm_db(rng, tier="quick"):
    """Multi-alignment Stockholm file of 1..50 alignments with unique names, optional unique accessions (aliases), names that
    are prefixes of each other. Returns (bytes, entries) with entries = [(name, acc, [candidate record texts])]."""
    nali = rng.choice([1, 2, 3, 5, 10, 50 if tier != "quick" else 20])
    eol = "\r\n" if rng.random() < 0.15 else "\n"
    used = set()
    out, ents = [], []
    for i in range(nali):
        name = "".join(c for c in rand_name(rng, used) if c not in " \t") or "a%d" % i
        acc = ""
        if rng.random() < 0.5:
            acc = "PF%05d" % rng.randrange(100000)
            while acc in used:
                acc = "RF%05d" % rng.randrange(100000)
            used.add(acc)
        nseq = rng.randrange(1, 6)
        alen = rng.randrange(1, 70)
        lead = eol * rng.choice([0, 0, 0, 1, 2]) if i > 0 else ""
        body = "# STOCKHOLM 1.0" + eol
        if rng.random() < 0.3:
            body += eol
        body += "#=GF ID " + name + eol
        if acc:
            body += "#=GF AC " + acc + eol
        if rng.random() < 0.3:
            body += "#=GF DE " + rand_desc(rng).replace("\x01", " ") + eol
        for j in range(nseq):
            body += "s%d%s %s%s" % (j, "x" * rng.randrange(0, 4), "".join(rng.choice("ACGU-.acgu") for _ in range(alen)), eol)
        if rng.random() < 0.3:
            body += "#=GC SS_cons " + "." * alen + eol
        # the parser accepts an indented terminator (regression for 986143b: esl-afetch's regurgitate must accept it too)
        body += rng.choice(["", "", "", "", "", "", "", "", " ", "\t  "]) + "//" + eol
        out.append(lead + body)
        norm = lambda t: t.replace("\r\n", "\n").encode("latin-1")
        ents.append((name, acc, [norm(body), norm(lead + body)]))
    return "".join(out).encode("latin-1"), ents


def afetch_case(rng, tier, idx):
    data, ents = gen_stockholm_db(rng, tier)
    keys, expect = [], []
    pool = list(ents)
    rng.shuffle(pool)
    for name, acc, texts in pool[:12]:
        keys.append(name.encode()); expect.append([(fnv1a(t), len(t)) for t in texts])
        if acc:
            keys.append(acc.encode()); expect.append([(fnv1a(t), len(t)) for t in texts])
    allk = {e[0] for e in ents} | {e[1] for e in ents if e[1]}
    for cand in ("nope", ents[0][0] + "x", ents[0][0][:-1], "PF", ""):
        if cand and cand not in allk:
            keys.append(cand.encode()); expect.append(None)
    return {"name": "afetch%d" % idx, "sticky": 1, "ops": ["afetch hex=%s keys=%s" % (hx(data), ",".join(hx(k) for k in keys))],
            "meta": {"afetch": {"nali": len(ents), "keys": [hx(k) for k in keys], "expect": expect}}}


def monitor_afetch(case, out):
    from vlib.engine import Failure
    m = (case.get("meta") or {}).get("afetch")
    if not m or not out:
        return None
    l = out[0]
    if not l.startswith("ok nali="):
        if l.startswith(("fault", "atexit")):
            return None
        return Failure("monitor", "indexing / opening a well-formed alignment database failed: " + l[:80])
    st, d = kv(l)
    if int(d["nali"]) != m["nali"]:
        return Failure("monitor", "sequential scan found %s alignments, the file has %d" % (d["nali"], m["nali"]))
    res = [x for x in d.get("r", "").split(",") if x]
    if len(res) != len(m["keys"]):
        return Failure("monitor", "afetch answered %d keys of %d" % (len(res), len(m["keys"])))
    for r, k, exp in zip(res, m["keys"], m["expect"]):
        kk, status, h, n = r.split(":")
        if exp is None:
            if status != "enotfound":
                return Failure("monitor", "alignment fetch of absent key %r returned %s" % (unhx(k), status))
        else:
            if status != "ok":
                return Failure("monitor", "alignment fetch of key %r failed: %s" % (unhx(k), status))
            if (int(h), int(n)) not in [tuple(e) for e in exp]:
                return Failure("monitor", "alignment fetched for key %r (%s bytes) is not the alignment of that name/accession (%d bytes)" % (unhx(k), n, exp[0][1]))
    return None


# ------------------------------------------------------------------------------------------------
# alignment files read as sequences (C02): harness + monitor only
# ------------------------------------------------------------------------------------------------
def gen_msa_as_seqs(rng):
    """A small Stockholm file (1..4 alignments) with per-sequence and consensus annotation; returns (bytes, rows) where rows is the
    list of (name, dealigned residues) in reading order."""
    out, rows = [], []
    used = set()
    for a in range(rng.choice([1, 1, 2, 4])):
        nseq = rng.randrange(1, 7)
        alen = rng.choice([1, 5, 30, 60, 255, 256, 257, rng.randrange(1, 120)])
        boundary = rng.random() < 0.45      # dealigned lengths on the allocation boundaries of the ESL_SQ (residues, ss, xr share salloc)
        if boundary:
            alen = rng.choice([260, 300, 520, 530, 700, 1100])
        names = []
        for j in range(nseq):
            nm = "".join(c for c in rand_name(rng, used) if c not in " \t/")
            names.append(nm or "r%d_%d" % (a, j))
        body = "# STOCKHOLM 1.0\n#=GF ID ali%d\n" % a
        if rng.random() < 0.3:
            body += "#=GS %s DE some description\n#=GS %s AC ACC%d\n" % (names[0], names[0], a)
        seqs = ["".join(rng.choice("ACGUacgu-.") if rng.random() < 0.9 else rng.choice("-.") for _ in range(alen)) for _ in range(nseq)]
        if boundary:
            seqs = []
            for j in range(nseq):
                T = min(alen, rng.choice([253, 254, 255, 256, 257, 258, 510, 511, 512, 513, 514, 600, 1030, alen]))
                gaps = set(rng.sample(range(alen), alen - T))
                seqs.append("".join(rng.choice("-.") if k in gaps else rng.choice("ACGUacgu") for k in range(alen)))
        blocks = [(0, alen)] if rng.random() < 0.6 or alen < 4 else [(0, alen // 2), (alen // 2, alen)]
        has_ss = [rng.random() < (0.7 if boundary else 0.3) for _ in names]     # the same annotation lines in every block, in the same order
        has_xx = [rng.random() < (0.5 if boundary else 0.2) for _ in names]
        has_pp = [rng.random() < 0.3 for _ in names]
        has_cons = rng.random() < 0.3
        for lo, hi in blocks:
            for j, (nm, sq_) in enumerate(zip(names, seqs)):
                body += "%s %s\n" % (nm, sq_[lo:hi])
                if has_ss[j]:
                    body += "#=GR %s SS %s\n" % (nm, "." * (hi - lo))
                if has_xx[j]:
                    body += "#=GR %s XX %s\n" % (nm, "x" * (hi - lo))
                if has_pp[j]:
                    body += "#=GR %s PP %s\n#=GR %s SA %s\n" % (nm, "".join("*" if c not in "-." else "." for c in sq_[lo:hi]), nm, "".join("9" if c not in "-." else "-" for c in sq_[lo:hi]))
            if has_cons:
                body += "#=GC SS_cons %s\n" % ("." * (hi - lo))
            body += "\n"
        body += "//\n"
        out.append(body)
        for nm, sq_ in zip(names, seqs):
            rows.append((nm, "".join(c for c in sq_ if c not in "-_.~")))
    return "".join(out).encode("latin-1"), rows


def msaseq_case(rng, idx):
    data, rows = gen_msa_as_seqs(rng)
    ops = ["file ext=sto hex=" + hx(data)]
    for s_ in range(rng.choice([1, 2])):
        abc = rng.choice(["text", "text", "rna", "dna"])
        ops.append("open fmt=%s abc=%s B=%d" % (rng.choice(["stockholm", "pfam", "unknown"]), abc, rng.choice([4096, 64, 7])))
        call = rng.choice(["read", "readseq", "readinfo", "readinfo", "win", "block", "mixed"])
        n = len(rows) + 1
        if call == "win":
            for nm, sq_ in rows:
                W = rng.choice([1, 3, 10, 60, 5000, max(1, len(sq_))])
                W = max(W, len(sq_) // 60 + 1)          # at most ~60 windows per sequence, always to the end of the sequence
                C = rng.choice([0, 0, 2, 10])
                ops += ["readwin C=%d W=%d" % (C, W)] * ((len(sq_) + W - 1) // W + 1)
                # (no reverse-strand windows here: known finding C02:readwindow-msa:reverse-strand-coordinates)
                ops.append("reuse")
            ops.append("readwin C=0 W=10")
        elif call == "block":
            lng = 0      # (long-target mode is documented for unaligned DNA files only: "DNA, not an alignment")
            ops += ["readblock list=%d maxres=%d maxseq=%d init=%d long=%d ctx=%d" % (
                rng.choice([1, 2, 8]), rng.choice([-1, -1, 100, 256, 1000]) if lng else -1, rng.choice([-1, 1, 3]), rng.choice([0, 1]), lng, rng.choice([0, 5]))] * (n if not lng else 3 * n)
        elif call == "mixed":
            ops += [rng.choice(["read", "readinfo", "readseq"]) for _ in range(n)]
        else:
            ops += [call] * n
        ops.append("close")
    return {"name": "msaseq%d" % idx, "ops": ops, "sticky": 1, "meta": {"msaseq": [(a, b) for a, b in rows]}}


def monitor_msaseq(case, out):
    """every sequence delivered from an alignment file is the corresponding row with the gap characters removed"""
    from vlib.engine import Failure
    rows = (case.get("meta") or {}).get("msaseq")
    if not rows:
        return None
    for op, l in zip(case["ops"], out):
        if op.startswith("open ") and not l.startswith(("ok", "fault", "atexit")):
            return Failure("monitor", "opening a well-formed alignment file as a sequence file failed: %s -> %s" % (op, l[:40]))
    for data, od, items in sessions(case, out):
        abc = od.get("abc", "text")
        idx = 0
        for op, d, line in items:
            if op not in ("read", "readseq", "readinfo"):
                break
            st = line.split()[0] if line else ""
            if st == "eof":
                if idx != len(rows):
                    return Failure("monitor", "alignment file read as sequences ended after %d of %d sequences" % (idx, len(rows)))
                continue
            r = rec(line)
            if st != "ok" or r is None or idx >= len(rows):
                return Failure("monitor", "%s on a well-formed alignment file (sequence %d of %d) returned %r" % (op, idx, len(rows), line[:80]))
            nm, seq = rows[idx]
            if r["name"] != nm.encode():
                return Failure("monitor", "sequence %d read from the alignment is named %r, the row is %r" % (idx, r["name"], nm))
            if op != "readinfo":
                if r["n"] != len(seq) or (abc == "text" and r["seq"] != seq.encode()):
                    return Failure("monitor", "sequence %d (%s) read from the alignment has %d residues %r, the dealigned row has %d: %r" % (
                        idx, nm, r["n"], (r["seq"] or b"")[:30], len(seq), seq[:30]))
            idx += 1
        if any(op == "readwin" for op, _, _ in items):
            err, recon = monitor_windows(items, abc)
            if err:
                return Failure("monitor", "windows over an alignment file (abc=%s): %s" % (abc, err))
            for i, (name, seq, L) in enumerate(recon):
                # (an all-gap row comes back as an immediate EOD whose info record carries no name: the annotation is only copied with a window)
                if i < len(rows) and ((name != rows[i][0].encode() and L > 0) or L != len(rows[i][1]) or (abc == "text" and seq != rows[i][1].encode())):
                    return Failure("monitor", "windows over sequence %d of the alignment do not reassemble the dealigned row" % i)
    return None


# ------------------------------------------------------------------------------------------------
# format x alphabet matrix: residues delivered == the file's legal residues, illegal symbols are format errors (C02)
# ------------------------------------------------------------------------------------------------
MATRIX_FORMATS = ["fasta", "embl", "uniprot", "genbank", "ddbj", "daemon", "hmmpgmd"]
MATRIX_ABCS = ["text", "amino", "dna", "rna"]
MATRIX_CALLS = ["read", "readinfo", "readseq", "readwin", "readblock"]


def _abc_codes(sym, equiv):
    t = {}
    for i, c in enumerate(sym):
        if c != "-":                       # the sequence-file input maps reject the gap character: these are ungapped formats
            t[c] = i
            t[c.lower()] = i
    for a, b in equiv:
        t[a] = sym.index(b)
        t[a.lower()] = sym.index(b)
    return t


ABC_CODES = {
    "dna": _abc_codes("ACGT-RYMKSWHBVDN*~", [("U", "T"), ("X", "N"), ("I", "A"), ("_", "-"), (".", "-")]),
    "rna": _abc_codes("ACGU-RYMKSWHBVDN*~", [("T", "U"), ("X", "N"), ("I", "A"), ("_", "-"), (".", "-")]),
    "amino": _abc_codes("ACDEFGHIKLMNPQRSTVWY-BJZOUX*~", [("_", "-"), (".", "-")]),
}


def expected_residues(seq, fmt, abc):
    """What a read of a record whose sequence lines hold the characters `seq` must deliver under format `fmt` and alphabet `abc`:
    the bytes of sq->seq / the codes of sq->dsq, or None when a character is illegal (the read must fail with eslEFORMAT).
    Restated from the documentation of the formats and alphabets, independently of the model's tables."""
    ign = " \t\r" + ("0123456789" if fmt in ("embl", "uniprot", "genbank", "ddbj") else "")
    out = bytearray()
    for c in seq:
        if c in ign:
            continue
        if abc == "text":
            if not ((c.isalpha() and ord(c) < 128) or c == "*"):
                return None
            out.append(ord(c))
        else:
            code = ABC_CODES[abc].get(c)
            if code is None:
                return None
            out.append(code)
    return bytes(out)


def matrix_case(rng, k):
    """case k of the systematic sweep: format k mod 7, every alphabet, the read calls rotating"""
    fmt = MATRIX_FORMATS[k % 7]
    base = rng.choice(["dna", "dna", "rna", "amino"])
    kind = "spike:" + base
    if fmt == "fasta":
        data, meta = gen_fasta(rng, "quick", kind, nrec=rng.choice([1, 2, 3]), maxlen=rng.choice([5, 70, 300]))
    elif fmt == "hmmpgmd":
        hdr = "#" + rng.choice(["res_cnt seq_cnt", "", " x"]) + "\n"
        data, meta = gen_fasta(rng, "quick", kind, nrec=rng.choice([1, 2, 3]), maxlen=rng.choice([5, 70, 300]))
        data = hdr.encode() + data
    elif fmt == "daemon":
        data, meta = gen_daemon(rng, kind, nrec=rng.choice([1, 2, 3]))
    else:
        data, meta = gen_linebased(rng, fmt, kind, nrec=rng.choice([1, 2, 3]))
    ops = ["file ext=dat hex=" + hx(data)]
    nrec = len(meta["recs"])
    for j, abc in enumerate(MATRIX_ABCS):
        call = MATRIX_CALLS[(k // 7 + j) % 5]
        ops.append("open fmt=%s abc=%s B=%d" % (fmt, abc, 4096 if fmt == "daemon" else pick_B(rng, data)))
        if call == "readwin":
            # one window over the whole record, then the call that reports its end, then esl_sq_Reuse() (a record without residues
            # reports its end at once)
            for r in meta["recs"]:
                e = expected_residues(r["seq"], fmt, abc)
                ops += ["readwin C=0 W=100000"] * (1 if e is not None and len(e) == 0 else 2) + ["reuse"]
            ops += ["readwin C=0 W=100000"]
        elif call == "readblock":
            ops += ["readblock list=%d maxres=-1 maxseq=-1 init=0 long=0 ctx=0" % rng.choice([1, 2, 8])] * (nrec + 1)
        else:
            ops += [call] * (nrec + 1)
        ops.append("close")
    return {"name": "matrix%d-%s" % (k, fmt), "ops": ops, "sticky": 1, "meta": {"matrix": [r["seq"] for r in meta["recs"]]}}


def monitor_matrix(case, out):
    """for every explicit format selection x alphabet x read call: the residues delivered are exactly the file's legal residues
    (count and content recomputed here from the file's sequence characters), and a record holding a symbol that is illegal under
    the selection fails with eslEFORMAT and a message - never eslOK"""
    from vlib.engine import Failure
    seqs = (case.get("meta") or {}).get("matrix")
    if seqs is None:
        return None
    for data, od, items in sessions(case, out):
        fmt, abc = od.get("fmt"), od.get("abc", "text")
        if fmt not in MATRIX_FORMATS:
            continue
        exp = [expected_residues(s, fmt, abc) for s in seqs]
        tag = "fmt=%s abc=%s B=%s" % (fmt, abc, od.get("B"))
        idx = 0
        got = False

        def bad(what, line):
            return Failure("monitor", "%s: record %d: %s; got %r" % (tag, idx, what, line[:70]))

        for op, d, line in items:
            st = line.split()[0] if line else ""
            if st in ("fault", "atexit", "known-region"):
                return None
            if st in ("dead", "closed"):
                break
            if op in ("read", "readseq", "readinfo", "readwin"):
                if idx >= len(exp):
                    if st != "eof":
                        return bad("expected end of file after %d records" % len(exp), line)
                    continue
                e = exp[idx]
                if st == "eformat":
                    if e is not None:
                        return bad("all %d sequence symbols are legal under this selection but the read failed" % len(e), line)
                    if " nomsg" in line:
                        return bad("eslEFORMAT without a message", line)
                    break
                if e is None:
                    return bad("the record holds a symbol that is illegal under this selection: expected eslEFORMAT", line)
                if op == "readwin":
                    if st == "ok":
                        r = rec(line)
                        if r is None or r["seq"] != e:
                            return bad("window over the whole record must deliver its %d legal residues" % len(e), line)
                        got = True
                    elif st == "eod":
                        if not got and len(e) != 0:
                            return bad("end of data before the record's %d residues were delivered" % len(e), line)
                        idx += 1
                        got = False
                    else:
                        return bad("unexpected status", line)
                    continue
                r = rec(line)
                if st != "ok" or r is None:
                    return bad("expected eslOK", line)
                if op == "readinfo":
                    if r["L"] != len(e):
                        return bad("ReadInfo L=%d, the file has %d legal residues" % (r["L"], len(e)), line)
                elif r["n"] != len(e) or r["seq"] != e:
                    return bad("%d residues delivered, the file has %d legal residues %r" % (r["n"], len(e), e[:20]), line)
                idx += 1
            elif op == "readblock":
                if st == "eof":
                    if idx < len(exp):
                        return bad("ReadBlock reported end of file before record %d of %d" % (idx, len(exp)), line)
                    continue
                k = int(d.get("list", "1"))
                window = exp[idx:idx + k]
                if st == "eformat":
                    if all(x is not None for x in window):
                        return bad("every symbol of the next %d records is legal but ReadBlock failed" % len(window), line)
                    if " nomsg" in line:
                        return bad("eslEFORMAT without a message", line)
                    break
                b = parse_block(line) if st == "ok" else None
                if b is None:
                    return bad("expected a block", line)
                for ent in b[2]:
                    if idx >= len(exp):
                        return bad("ReadBlock delivered more records than the file has", line)
                    e = exp[idx]
                    if e is None:
                        return bad("the record holds a symbol that is illegal under this selection: expected eslEFORMAT from ReadBlock", line)
                    if ent["n"] != len(e) or ent["seq"] != e:
                        return bad("ReadBlock delivered %d residues, the file has %d legal residues" % (ent["n"], len(e)), line)
                    idx += 1
    return None


def fetchspike_case(rng, k):
    """C07: keyed retrieval from a file opened in digital mode when the record holds letters outside the alphabet: PositionByKey
    succeeds, the read inside Fetch / FetchInfo / FetchSubseq fails - the call must report eslEFORMAT, not eslOK"""
    fmt = ["fasta", "embl", "genbank", "ddbj", "uniprot"][k % 5]
    kind = "spikeL:" + rng.choice(["dna", "rna"])
    if fmt == "fasta":
        data, meta = gen_fasta(rng, "quick", kind, geometry="const", nrec=rng.choice([1, 2, 3]), maxlen=rng.choice([8, 70, 200]))
    else:
        data, meta = gen_linebased(rng, fmt, kind, nrec=rng.choice([1, 2, 3]))
    recs = meta["recs"]
    ops = ["file ext=dat hex=" + hx(data)]
    for abc in rng.sample(["text", "dna", "rna", "amino"], 3):
        B = pick_B(rng, data)
        for r in rng.sample(recs, min(len(recs), 2)):
            key = r["acc"] if (r.get("acc") and rng.random() < 0.3) else r["name"]
            # (one failing call ends a session: a fresh session per request)
            ops += ["open fmt=%s abc=%s B=%d" % (fmt, abc, B), "index"]
            call = rng.choice(["fetch", "fetchinfo", "fetchsub"])
            if call == "fetchsub":
                n = len(r["seq"])
                ops.append("fetchsub key=%s s=%d e=%d" % (hx(key.encode()), 1, rng.choice([0, n]) if n else 0))
            else:
                ops.append("%s key=%s" % (call, hx(key.encode())))
            ops.append("close")
    return {"name": "fetchspike%d-%s" % (k, fmt), "ops": ops, "sticky": 1,
            "meta": {"fetchspike": {r["name"]: r["seq"] for r in recs} | {r["acc"]: r["seq"] for r in recs if r.get("acc")}}}


def monitor_fetchspike(case, out):
    from vlib.engine import Failure
    seqs = case["meta"]["fetchspike"]
    # (regression of 50dd524: FetchSubseq used to turn the eslEFORMAT of its read into an eslEINCONCEIVABLE exception)
    f = basic_line_checks(case, out, Failure)
    if f:
        return f
    for data, od, items in sessions(case, out):
        fmt, abc = od.get("fmt"), od.get("abc", "text")
        for op, d, line in items:
            if op not in ("fetch", "fetchinfo", "fetchsub"):
                continue
            st = line.split()[0] if line else ""
            if st in ("fault", "atexit", "dead", "closed", "bad-op"):
                continue
            key = unhx(d.get("key", "-")).decode("latin-1")
            if key not in seqs:
                continue
            e = expected_residues(seqs[key], fmt, abc)
            tag = "%s key=%r (fmt=%s abc=%s B=%s)" % (op, key, fmt, abc, od.get("B"))
            if e is None:
                if st in ("ok", "eod"):
                    return Failure("monitor", "%s: the record holds a letter outside the alphabet, the call returned %s" % (tag, line[:60]))
                continue
            if op == "fetchsub" and len(e) == 0:
                continue
            r = rec(line)
            if st != "ok" or r is None:
                return Failure("monitor", "%s: every symbol is legal but the call failed: %s" % (tag, line[:60]))
            if op == "fetch" and r["seq"] != e:
                return Failure("monitor", "%s: %d residues fetched, the file has %d legal residues" % (tag, r["n"], len(e)))
            if op == "fetchinfo" and r["L"] != len(e):
                return Failure("monitor", "%s: L=%d, the file has %d legal residues" % (tag, r["L"], len(e)))
            if op == "fetchsub":
                s_, e_ = int(d["s"]), int(d["e"]) or len(e)
                if r["seq"] != e[s_ - 1:e_]:
                    return Failure("monitor", "%s %d..%d: not the slice of the file's legal residues" % (tag, s_, e_))
    return None


def record_distribution(ctx, cases):
    """input distribution for the evidence file: ops, format selections, modes, block sizes, file sizes"""
    from collections import Counter
    ops, fmts, abcs, bs, sizes = Counter(), Counter(), Counter(), Counter(), []
    for c in cases:
        for o in c["ops"]:
            w = o.split()
            ops[w[0]] += 1
            d = dict(x.split("=", 1) for x in w[1:] if "=" in x)
            if w[0] in ("open", "srcscan"):
                fmts[d.get("fmt", "?")] += 1; abcs[d.get("abc", "?")] += 1; bs[d.get("B", "?")] += 1
            elif w[0] == "file":
                sizes.append((len(d.get("hex", "-")) // 2) if d.get("hex", "-") != "-" else 0)
    sizes.sort()
    ctx.stats["input_distribution"] = {
        "cases": len(cases), "ops": dict(ops.most_common()), "format_selections": dict(fmts.most_common()), "modes": dict(abcs.most_common()),
        "block_sizes": dict(sorted(bs.items(), key=lambda kv: -kv[1])[:12]),
        "file_bytes": {"n": len(sizes), "min": sizes[0] if sizes else 0, "median": sizes[len(sizes) // 2] if sizes else 0, "max": sizes[-1] if sizes else 0}}
    return cases
