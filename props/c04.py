"""C04 — all ways of reading a sequence file agree with each other and with the file.
Model: lean/EaselModel/Sqio/*, theorems: Props/C04.lean, harness: h_sqio.c (shared with C02, C07)."""
from vlib.engine import Prop, Failure
from props import sqio_common as S

hx = S.hx

# theorems added in round 6 (kept here: sqio_common.py is shared with C02 / C07)
R6_THEOREMS = ["tracker_iff", "tracker_unset_iff", "tracker_sound", "tracker_rejects_former_exceptions", "position_then_read_eq_record", "rewind_then_read_all_eq_parseFasta",
               "tracker_ignores_where_seebuf_stops", "position_yields_ready_handle", "position_then_read_all_eq_spec", "position_at_record_then_read_all_eq_scan_tail",
               "position_then_readInfo_readSequence_eq_record", "position_then_windows_eq_record_windows"]


def tracker_predicate(data):
    """Python rendering of Props/C04.lean `tracker_iff` (Sqio/TrackerExact.lean): None if no data line of the file is followed by another
    line of its record (the tracker stays unset), else (w, p, holds): the bytes / residues of the first such line and whether the file
    has that constant geometry (every line followed by another is exactly (w, p); every line at all has <= p residues and
    <= w - p - 1 ignored bytes besides its newline)."""
    recs = []
    for lines in S.fasta_geometry(data):
        while lines and lines[0][1] == 0 and lines[0][0] <= 2:   # blank lines right after the header are skipped by header_fasta
            lines = lines[1:]
        recs.append(lines)
    nonfinal = [l for lines in recs for l in lines[:-1]]
    if not nonfinal:
        return None
    w, p = nonfinal[0][0], nonfinal[0][1]
    holds = p > 0 and w > 0 and all((b, r) == (w, p) for b, r, _ in nonfinal) and all(
        r <= p and b - r - (1 if term else 0) <= w - p - 1 for lines in recs for b, r, term in lines)
    return w, p, holds


def gen_boundary(rng, kind):
    """FASTA files at the boundaries the quantifier names: per-LINE mixture of LF / CRLF terminators, last record unterminated (or an
    unterminated header), record lengths 0 / 1 / w-1 / w / w+1 / k*w. Returns (bytes, [(roff, header+data byte length, residues)])."""
    w = rng.choice([1, 2, 5, 10, 60])
    nrec = rng.choice([1, 2, 3, 4])
    mix = rng.random() < 0.7
    eol0 = rng.choice(["\n", "\r\n"])
    used, out, recs = set(), [], []
    pos = 0
    for i in range(nrec):
        L = rng.choice([0, 1, max(1, w - 1), w, w + 1, 2 * w, 3 * w, 3 * w + 1, rng.randrange(0, 6 * w + 2)])
        sq_ = S.rand_residues(rng, L, kind)
        L = len(sq_)
        nm = S.rand_name(rng, used)
        ds = rng.choice(["", "", "d", "a b c"])
        text = ">" + nm + ((" " + ds) if ds else "") + (rng.choice(["\n", "\r\n"]) if mix else eol0)
        for k in range(0, L, w):
            text += sq_[k:k + w] + (rng.choice(["\n", "\r\n"]) if mix else eol0)
        recs.append([pos, len(text), sq_])
        out.append(text)
        pos += len(text)
    text = "".join(out)
    if rng.random() < 0.4:
        cut = 2 if text.endswith("\r\n") else 1
        text = text[:-cut]
        recs[-1][1] -= cut
    return text.encode("latin-1"), recs


def gen_trackscan(rng):
    """FASTA files aimed at the line-geometry tracker: per record 0..5 lines whose residue counts are p, p-1, p+1, 1 in every
    position (first / inner / last line, one-line and two-line records first or later), 0..2 blanks per line, LF or CRLF,
    last line terminated or not. Residues only from ACGT (text and digital mode agree on them)."""
    p = rng.choice([1, 2, 3, 4, 7, 10, 60])
    eol = rng.choice(["\n", "\n", "\r\n"])
    nrec = rng.choice([1, 2, 2, 3, 3, 4, 6])
    pad = rng.choice([0, 0, 0, 1, 2])
    clean = rng.random() < 0.35
    out, lens = [], []
    for i in range(nrec):
        lens.append(0)
        nl = rng.choice([0, 1, 1, 2, 2, 3, 3, 4, 5])
        out.append(">t%d%s%s" % (i, rng.choice(["", " d", " a b"]), eol))
        for j in range(nl):
            last = j == nl - 1
            if clean:
                r = p if not last else rng.choice([p, max(1, p - 1), 1, p])
            else:
                r = rng.choice([p, p, p, p, p + 1, max(1, p - 1), 1, 2 * p])
            ln = "".join(rng.choice("ACGT") for _ in range(r))
            lens[-1] += r
            k = pad if (clean or rng.random() < 0.8) else rng.choice([0, 1, 2])
            for _ in range(k):
                q = rng.randrange(0, len(ln) + 1)
                ln = ln[:q] + " " + ln[q:]
            out.append(ln + eol)
    text = "".join(out)
    if rng.random() < 0.3 and text.endswith(eol):
        text = text[:-len(eol)]                                  # unterminated last line (or header)
    return text.encode("latin-1"), lens


class C04(Prop):
    id = "C04"
    lean_modules = ["EaselModel.Props.C04"]
    lean_exe = "c04_driver"
    harness = "h_sqio.c"
    theorems = ["EaselModel.Props.C04." + t for t in S.C04_THEOREMS + R6_THEOREMS]
    claimed = True
    diverge_is_violation = True
    level_text = ("Theorems for EVERY byte string and EVERY read-block size B >= 1 (FASTA, text and DNA/RNA/amino digital mode): reading with sqascii_Read from esl_sqfile_Open on returns exactly the records and the final status of the declarative parser specFasta (30 lines of dropWhile/takeWhile/filter over the list of file bytes): name, description, residues, the true byte offsets roff/hoff/doff/eoff and L (read_all_eq_specFasta; corollary read_all_block_size_independent); "
                  "Read, ReadInfo and ReadSequence agree field by field from every ready handle (read_readInfo_readSequence_agree, with the closed forms readInfo_closed_form / readSequence_closed_form); "
                  "the forward ReadWindow series of a record, for every request stream (C_k >= 0, W_k >= 1), is exactly the declarative window series specWindows of the residues Read returns - context = min(C, previous window) preceding residues, min(W, left) new ones, 1-based contiguous coordinates, residues R[start..end] - then eslEOD with L = |R|, same name/acc/desc/roff/hoff/doff, cursor where Read leaves it (windows_eq_read; windows_concat_eq_read: the new parts concatenate to Read's residues; windows_coords; file_windows_eq_specFasta: the loop over a whole file, from open on, returns the specWindows of specFasta's records), on top of the closed form of read_nres for every B (read_nres_closed_form); "
                  "whole-sequence ReadBlock fills its slots with the next records of the same parser (readBlock_short_eq_read); reverse-strand windows: the schedule tiles 1..L downwards (rev_windows_tile) and, when the handle holds no line geometry (brute-force addressing), every reverse window IS esl_sq_ReverseComplement of the residues start..end of the scanned record (rev_first_window_eq_revcomp_slice, rev_next_window_eq_revcomp_slice), and likewise under line / residue addressing when the data really has the geometry bpl/rpl promise (rev_window_eq_revcomp_slice_line / _residue), on top of read_nres with nskip > 0 in closed form; "
                  "the line-geometry tracker (seebuf_linegeometry, repaired by 283ccd7): after a scan of whole records bpl and rpl are both positive IF AND ONLY IF some line is followed by another line of its record, every such line has exactly bpl bytes and rpl residues, and every line at all (last, only, unterminated) has at most rpl residues and at most bpl-rpl-1 ignored bytes (tracker_iff; tracker_sound is the direction the reverse-window / FetchSubseq theorems need), and the tracker state does not depend on where seebuf stops inside a line - any pieces of a line = the line in one piece, so the iff holds for every block size and window width (tracker_ignores_where_seebuf_stops); esl_sqfile_Position: for EVERY offset inside the file and every block size the handle after Position is a ready handle on the bytes from that offset, so every ready-handle theorem (Read closed form, Read/ReadInfo/ReadSequence agreement, window series, whole-sequence ReadBlock) holds after it (position_yields_ready_handle); Position then the read loop = the declarative parser specAll on the rest of the file with offsets counted from the start of the file (position_then_read_all_eq_spec; rewind_then_read_all_eq_parseFasta for offset 0); Position at a scanned record's roff then Read = that record (position_then_read_eq_record); "
                  "write + re-read (text and digital mode): specFasta applied to what esl_sqascii_WriteFasta writes for any list of writable records returns exactly these records (write_read_roundtrip, write_read_roundtrip_digital); line-based formats (EMBL/UniProt/GenBank/DDBJ): loadbuf in line mode delivers the next line of the FILE for every B (loadbuf_line_closed_form), header_embl / header_genbank and the WHOLE of sqascii_Read return the same status and the same ESL_SQ (every field) for any two block sizes, from open on through every record of the file, likewise ReadInfo, ReadSequence, forward ReadWindow and whole-sequence ReadBlock (read_all_linebased_block_size_independent, read_linebased_block_size_independent, readInfo_readSequence_linebased_block_size_independent, readWindow_readBlock_linebased_block_size_independent; by simulation). "
                  "Tie: the executable line-by-line model of the ascii reader (FASTA, EMBL/UniProt, GenBank/DDBJ, daemon, hmmpgmd, autodetection; block size B a parameter) is compared exactly with the ASan/UBSan build over Read / ReadInfo / ReadSequence / windows on both strands / ReadBlock (short and long-target) / FASTA round trip x text and digital mode x B swept over 1..4097 (fixed list, uniform, and the sizes that put a block boundary inside/at the end of the header line, at every '>', between CR and LF, at the end of the file), "
                  "and agreement monitors (records equal across read paths, block sizes and modes; offsets are the true byte positions, also on CRLF files; windows reassemble the sequence; reverse strand = reverse complement; write+re-read reproduces the records) give the concrete failing input.")
    level_note = ("Not theorems (exact differential run + monitors only): a declarative parser for the line-based formats (EMBL/UniProt, GenBank/DDBJ: block-size independence of Read/ReadInfo/ReadSequence/forward ReadWindow/whole-sequence ReadBlock is a theorem; Read = a declarative spec and cross-call agreement there are not), daemon/hmmpgmd, the composition 'seebuf over the bytes of a file = the line events of tracker_iff' (tracker_iff is a theorem about the tracker fed with each record's completed lines; that the real seebuf, called block by block and window by window, produces these events is tied by the trackscan monitor on the implementation's bpl/rpl and by the exact comparison of the `geom` op), long-target ReadBlock, ReadWindow on a record whose data holds an illegal byte (the window theorems assume the whole-record read succeeds). "
                  "The same files are also read through a real gzip -dc pipe, through standard input re-opened on the file, and through standard input as a real pipe (cat file |) in a child process, and compared with the model including the four offsets; alignment files read as sequences are outside C04's theorems (the C02 builder models that branch in Sqio/MsaSeq*.lean). The byte-level bridge 'tracker over the bytes of a record = tracker over its line counts' and 'geometry => FullLines hypotheses of the window / FetchSubseq theorems' are C07's TrackBytes.lean / GeomBridge.lean. Offsets on a pipe (gzip -dc, and a real pipe on standard input fed by cat) are compared exactly and checked as byte positions since the repair ec6a8a0 (loadmem counts bytes where ftello() fails).")
    assumptions = ["fread returns min(B, remaining) bytes; allocation never fails (eslEMEM paths not modelled)",
                   "the model mirrors esl_sqio_ascii.c by hand; fidelity is checked by the differential run only",
                   "alignment files read as sequences are outside C04's theorems (modelled by C02: Sqio/MsaSeq*.lean); a gzip pipe / standard input deliver the bytes of the file (popen / freopen / pipe+cat plumbing trusted)",
                   "after a failed call the handle is not used again (the API leaves its state unspecified)",
                   "theorems about one call start from a ready handle (Ready / HReady: block mode, FASTA maps, cursor on a byte or at end of file) - proved to hold after esl_sqfile_Open and after every successful call"]
    technique = ("Lean 4 proofs about an executable line-by-line model of esl_sqio_ascii.c's FASTA reader core and its specification, "
                 "+ exact differential correspondence of the model with the ASan/UBSan build over generated files x read calls x window geometries x read-block sizes, "
                 "+ property monitors on the implementation's output")
    trusted_base = ["hand model of esl_sqio_ascii.c (loadmem loadbuf nextchar seebuf addbuf skipbuf read_nres skip_whitespace header/skip/end_{fasta,embl,genbank} end_daemon fileheader_hmmpgmd GuessFileFormat Read ReadInfo ReadSequence ReadWindow ReadBlock Position WriteFasta) tied by exact differential run (h_sqio.c)",
                    "gzip, cat and fork/freopen/pipe (standard input is re-opened on the file, or made a real pipe fed by cat, in a child process)",
                    "alphabet tables regenerated from esl_alphabet.c on every run (kind G)",
                    "Lean compiler/runtime for the executable driver; gcc; ASan/UBSan"]
    rule = ("cases = generated FASTA files (0..6 records quick / 0..40 thorough, constant or ragged widths, blanks, CRLF, with/without final newline) "
            "read by Read / ReadInfo / ReadSequence / forward+reverse windows (C,W) / round trip, in text and digital mode, B in {1,2,3,7,64,4096}; "
            "+ boundary shapes (LF/CRLF mixed per line, unterminated last record, B = k*B+-1 against record byte sizes, windows C,W in {0,1,L-1,L,L+1} and W*k = L, Position at every record offset in shuffled order), tracker scans (trackscan), pipe sources (gzip -dc, stdin re-opened, stdin as a real pipe); "
            "non-trivial = a session that returned at least one record; distinct by output trace")

    def generated(self, ctx):
        return S.generated(ctx)

    def canonical(self, line):
        return S.canonical(line)

    def compare(self, ctx, case, impl_out, model_out):
        return S.compare(self, case, impl_out, model_out)

    # ---------------------------------------------------------------- cases
    def corpus(self, ctx):
        f = b">seq1 desc one\nACGTACGT\nACGT\n>seq2\nAAAA\n\n>s3 d\n"
        ops = ["file ext=fa hex=" + hx(f), "open fmt=fasta abc=text B=3", "read", "read", "read", "read", "close",
               "open fmt=fasta abc=dna B=7", "readinfo", "readseq", "readinfo", "readinfo", "close",
               "open fmt=fasta abc=text B=4096", "readwin C=2 W=5", "readwin C=2 W=5", "readwin C=2 W=5", "readwin C=2 W=5",
               "readwin C=2 W=-5", "readwin C=2 W=-5", "readwin C=2 W=-5", "readwin C=2 W=-5", "reuse", "readwin C=0 W=3", "wfasta", "roundtrip"]
        cs = [{"name": "boot", "ops": ops, "sticky": 1}]
        # block boundaries inside '>', header, EOL pairs and windows
        g = b"\n >a  d1\r\nAC GT\r\nAC\r\n\r\n>b\r\n>c x\r\nacgtn*\r\n"
        for B in (1, 2, 3, 5):
            cs.append({"name": "crlf-B%d" % B, "sticky": 1, "ops": ["file ext=fa hex=" + hx(g), "open fmt=fasta abc=text B=%d" % B] + ["read"] * 4 + ["close",
                       "open fmt=fasta abc=dna B=%d" % B, "readwin C=1 W=2", "readwin C=1 W=2", "readwin C=1 W=2", "readwin C=1 W=2", "readwin C=1 W=-4", "readwin C=1 W=-4", "readwin C=1 W=-4",
                       "reuse", "readwin C=1 W=2", "reuse", "readwin C=0 W=100", "readwin C=0 W=100", "roundtrip"]})
        # every block size 1..len+1 on the CRLF file (block boundary at every byte: inside '>', the header, between CR and LF, in blank lines):
        # exact comparison with the model + the offsets monitor (roff/hoff/doff/eoff are the true byte positions) + cross-B agreement
        ops = ["file ext=fa hex=" + hx(g)]
        for B in range(1, len(g) + 2):
            ops += ["open fmt=fasta abc=%s B=%d" % ("text" if B % 2 else "dna", B)] + [("read", "readinfo", "readseq")[B % 3]] * 4 + ["close"]
        cs.append({"name": "crlf-every-B", "sticky": 1, "ops": ops})
        # regression: ReadSequence on a file whose last record is empty (repaired by b245751 "skip_fasta empty last record")
        for nm, f in (("nl", b">a\nAC\n>b desc\n"), ("nonl", b">a\nAC\n>b"), ("only", b">chr23 alpha >\n"), ("blank", b">\tacaaYY x >\n\n")):
            cs.append({"name": "skipfasta-empty-last-" + nm, "sticky": 1, "ops": ["file ext=fa hex=" + hx(f), "open fmt=fasta abc=text B=3", "read", "read", "read", "close",
                       "open fmt=fasta abc=dna B=4096", "readseq", "readseq", "readseq", "close", "open fmt=fasta abc=text B=1", "readinfo", "readseq", "readinfo"]})
        # regression: reverse windows with unset (-1) bpl/rpl (repaired by 2dacdd7)
        for nm, f in (("blocks", b">1Y\nCAAGCCACAA CTGGTAAGCC TATCTTCTTT C\n"), ("two-lines-no-nl", b">a\nACGT\nAC")):
            cs.append({"name": "readwindow-unset-geometry-" + nm, "sticky": 1, "ops": ["file ext=fa hex=" + hx(f), "open fmt=fasta abc=text B=4096", "readwin C=0 W=100", "readwin C=0 W=100", "geom",
                       "readwin C=0 W=-10", "readwin C=0 W=-10", "readwin C=0 W=-10", "readwin C=0 W=-10", "close", "open fmt=fasta abc=dna B=2", "readwin C=2 W=3", "readwin C=2 W=3", "readwin C=2 W=3",
                       "readwin C=2 W=3", "readwin C=2 W=3", "readwin C=2 W=3", "readwin C=2 W=3", "readwin C=2 W=3", "readwin C=2 W=3", "readwin C=2 W=3", "readwin C=2 W=3", "readwin C=2 W=3", "geom",
                       "readwin C=1 W=-1", "readwin C=1 W=-1", "readwin C=1 W=-1", "readwin C=1 W=-1", "readwin C=1 W=-1", "readwin C=1 W=-1", "readwin C=1 W=-1"]})
        # regression (repaired by ec6a8a0, was known finding C04:pipe:offsets-from-ftello): offsets through a gzip -dc pipe and through a
        # REAL pipe on standard input are the byte positions in the stream - compared exactly with the model and checked by the offsets
        # monitor; small B puts every record in its own read block (the count moff + mn is carried from block to block), format given and
        # autodetected (recording branch of loadmem)
        f = b">a\nAC\n"
        g2 = b">a first\nAC\n>b second\n" + b"ACGTACGTACGTACGTACGTACGTACGTACGTACGTACGTACGTACGTACGTACGTACGT\n" * 9 + b">c\nGGTT\n>d\n"
        ops = ["file ext=fa hex=" + hx(f), "srcscan src=gzip fmt=fasta abc=text B=4096 call=read C=0 W=1", "srcscan src=pipe fmt=fasta abc=text B=4096 call=read C=0 W=1",
               "file ext=dat hex=" + hx(g2)]
        for src in ("gzip", "pipe", "stdin"):
            for B, fmt, call in ((4096, "fasta", "read"), (7, "fasta", "readinfo"), (64, "unknown", "read"), (1, "fasta", "readseq"), (100, "unknown", "win"), (4096, "unknown", "read")):
                ops.append("srcscan src=%s fmt=%s abc=%s B=%d call=%s C=2 W=50" % (src, fmt, "text" if B != 7 else "dna", B, call))
        cs.append({"name": "pipe-offsets", "sticky": 1, "ops": ops})
        # the input map (inmap_fasta / inmap_embl / inmap_genbank / inmap_daemon) of every modelled format x alphabet, all 128 codes, compared
        # exactly: the theorems are stated over inmapFasta abc etc.; generated inputs rarely hold control characters or punctuation
        import random as _random
        rg = _random.Random(4)
        ops = []
        for fmt_ in ("fasta", "hmmpgmd", "daemon", "embl", "uniprot", "genbank", "ddbj"):
            if fmt_ == "fasta":
                f_ = b">a d\nACGT\nAC\n"
            elif fmt_ == "hmmpgmd":
                f_ = S.gen_hmmpgmd(rg, "dna")[0]
            elif fmt_ == "daemon":
                f_ = S.gen_daemon(rg, "dna", nrec=2)[0]
            else:
                f_ = S.gen_linebased(rg, fmt_, "dna", tier="quick")[0]
            ops.append("file ext=dat hex=" + hx(f_))
            for abc_ in ("text", "dna", "rna", "amino"):
                ops += ["open fmt=%s abc=%s B=4096" % (fmt_, abc_), "inmap", "read", "inmap", "close"]
        cs.append({"name": "inmap-all-formats", "sticky": 0, "ops": ops})
        # regression (repaired by 283ccd7, was known finding C04:seebuf:line-geometry-accepts-long-last-line), seen through reverse windows
        cs.append({"name": "geometry-long-single-line", "sticky": 1,
                   "ops": ["file ext=fa hex=" + hx(b">A\nACGT\nAC\n>B\nACGTAC\n"), "open fmt=fasta abc=text B=4096", "readwin C=0 W=100", "readwin C=0 W=100", "reuse",
                           "readwin C=0 W=100", "readwin C=0 W=100", "geom", "readwin C=0 W=-2"]})
        return cs

    def cases(self, ctx):
        rng = ctx.rng
        n = 900 if ctx.tier == "quick" else 8000
        out = []
        for c in range(n):
            kind = rng.choice(["dna", "dna", "dna", "rna", "amino"])
            if rng.random() < 0.10:
                # boundary shapes of the quantifier: LF/CRLF mixed per line, unterminated last record, B = k*B +- 1 against the byte size of
                # a record, windows (C, W) in {0, 1, L-1, L, L+1} and W*k = L exactly, esl_sqfile_Position at every record offset then Read
                kind = rng.choice(["dna", "rna", "amino"])
                data, recs_ = gen_boundary(rng, kind)
                nrec = len(recs_)
                ops = ["file ext=fa hex=" + hx(data), "open fmt=fasta abc=text B=4096"] + ["read"] * (nrec + 1) + ["close"]
                def bsize():
                    off, nb, _ = rng.choice(recs_)
                    k = rng.choice([1, 1, 2, 3])
                    return max(1, rng.choice([nb // k - 1, nb // k, nb // k + 1, (off + nb) // k - 1, (off + nb) // k, (off + nb) // k + 1, max(1, off) - 1, max(1, off), off + 1]))
                # (a) Position at every record offset (in a shuffled order, some twice), then Read / ReadInfo / ReadSequence: the record there
                abc = rng.choice(["text", kind])
                ops.append("open fmt=fasta abc=%s B=%d" % (abc, bsize()))
                ops += ["read"] * rng.choice([0, 1, nrec + 1])
                order = list(range(nrec)) + [rng.randrange(nrec) for _ in range(2)]
                rng.shuffle(order)
                for k in order:
                    ops += ["pos off=%d" % recs_[k][0], rng.choice(["read", "read", "readinfo", "readseq"])]
                    if rng.random() < 0.3 and k + 1 < nrec:
                        ops.append("read")                     # and the one after it
                ops += ["pos off=0"] + ["read"] * (nrec + 1) + ["close"]
                # (b) windows at the boundaries
                for _ in range(rng.choice([1, 2])):
                    abc = rng.choice(["text", kind])
                    ops.append("open fmt=fasta abc=%s B=%d" % (abc, bsize()))
                    for off, nb, sq_ in recs_:
                        L = len(sq_)
                        divs = [d for d in range(1, L + 1) if L % d == 0] or [1]
                        W = rng.choice([1, max(1, L - 1), max(1, L), L + 1, rng.choice(divs), rng.choice(divs), 2, 3])
                        C = rng.choice([0, 1, max(0, L - 1), L, L + 1, W, max(0, W - 1), W + 1])
                        if L > 3 and rng.random() < 0.35:
                            # context LARGER than the window on a sequence with several windows (C > W, L > W): the saved context is
                            # not full for the first ceil(C/W) windows
                            W = rng.choice([1, 2, 3, max(1, L // 4)])
                            C = rng.choice([W + 1, 2 * W, 3 * W + 1, L, 50])
                        nwin = min(70, (L + W - 1) // W if L else 0)
                        if (L + W - 1) // W > 70:
                            W = L // 60 + 1
                            nwin = (L + W - 1) // W
                        ops += ["readwin C=%d W=%d" % (C, W)] * (nwin + 1)
                        if kind != "amino" and abc != "amino" and rng.random() < 0.6:
                            ops.append("geom")
                            ops += ["readwin C=%d W=%d" % (rng.choice([0, 1, C]), -W)] * (nwin + 1)
                        ops.append("reuse")
                    ops += ["readwin C=0 W=1", "close"]
                out.append({"name": "boundary%d" % c, "ops": ops, "sticky": 1,
                            "meta": {"kind": kind, "geom": "boundary", "nrec": nrec, "posscan": [r[0] for r in recs_]}})
                # (c) the forward window series from a record offset (position_then_windows_eq_record_windows), C > W included: own case,
                # exact comparison with the model + monitor_position only (the session monitors of sqio_common count windows from record 0)
                ops = ["file ext=fa hex=" + hx(data), "open fmt=fasta abc=text B=4096"] + ["read"] * (nrec + 1) + ["close"]
                ops.append("open fmt=fasta abc=%s B=%d" % (rng.choice(["text", kind]), bsize()))
                for k in order[:3]:
                    L = len(recs_[k][2])
                    W = rng.choice([1, 2, 3, 7, max(1, L)])
                    C = rng.choice([0, 1, W + 1, 3 * W + 1])
                    if (L + W - 1) // W > 60:
                        W = L // 50 + 1
                    ops += ["pos off=%d" % recs_[k][0]] + ["readwin C=%d W=%d" % (C, W)] * ((L + W - 1) // W + 1) + ["reuse"]
                ops.append("close")
                out.append({"name": "poswin%d" % c, "ops": ops, "sticky": 1,
                            "meta": {"kind": kind, "geom": "boundary", "nrec": nrec, "posscan": [r[0] for r in recs_], "poswin": True}})
                continue
            if rng.random() < 0.06:
                # sequential scan + `geom`: the tracker's final (bpl, rpl) must be what tracker_iff (Sqio/TrackerExact.lean) says for the
                # file's lines - checked on the implementation's answer by monitor()
                data, lens = gen_trackscan(rng)
                nrec = len(lens)
                ops = ["file ext=fa hex=" + hx(data)]
                for _ in range(rng.choice([1, 2])):
                    call = rng.choice(["read", "read", "win", "readinfo"])      # (ReadSequence goes through skip_fasta, which never starts the line bookkeeping)
                    ops.append("open fmt=fasta abc=%s B=%d" % (rng.choice(["text", "dna"]), S.pick_B(rng, data)))
                    if call == "win":
                        W = rng.choice([3, 7, 64, 5000])
                        for L in lens:
                            ops += ["readwin C=%d W=%d" % (rng.choice([0, 2]), W)] * ((L + W - 1) // W + 1) + ["reuse"]
                        ops.append("readwin C=0 W=%d" % W)
                    else:
                        ops += [call] * (nrec + 1)
                    ops += ["geom", "close"]
                out.append({"name": "trackscan%d" % c, "ops": ops, "sticky": 1, "meta": {"kind": "dna", "geom": "trackscan", "nrec": nrec, "trackscan": True}})
                continue
            if rng.random() < 0.12:
                # ReadBlock long-target stream: records that leave 0,1,2,3,... residues free in a block before a long record, requested
                # context smaller / equal / larger than the carried-over piece, max_init_window on and off
                kind = rng.choice(["dna", "rna"])
                mr = rng.choice([16, 64, 100, 257])
                ctxv = rng.choice([0, 1, max(1, mr // 20), 10, 20, 40, mr, mr + 7])
                ini = rng.choice([0, 0, 1])
                lens = []
                for _ in range(rng.choice([2, 3, 4])):
                    lens.append(max(0, mr - rng.choice([0, 1, 2, 3, 4, 5, 8, mr // 2])) if rng.random() < 0.6 else rng.randrange(0, 2 * mr))
                    lens.append(rng.choice([mr, 2 * mr, 3 * mr + 1, 10 * mr, rng.randrange(mr, 12 * mr)]))
                used = set()
                w = rng.choice([60, 60, 25, 200])
                txt, recs_ = "", []
                for L in lens:
                    sq_ = S.rand_residues(rng, L, kind)
                    nm = S.rand_name(rng, used)
                    txt += ">" + nm + "\n" + "".join(sq_[k:k + w] + "\n" for k in range(0, L, w))
                    recs_.append(sq_)
                data = txt.encode("latin-1")
                total = sum(lens)
                ops = ["file ext=fa hex=" + hx(data), "open fmt=fasta abc=%s B=4096" % kind] + ["read"] * (len(lens) + 1) + ["close"]
                for s_ in range(rng.choice([1, 2])):
                    ops.append("open fmt=fasta abc=%s B=%d" % (kind, S.pick_B(rng, data, small_ok=len(data) <= 6000)))
                    ncalls = min(400, total // max(1, mr // 20 if not ini else mr) + 2 * len(lens) + 4)
                    ops += ["readblock list=%d maxres=%d maxseq=%d init=%d long=1 ctx=%d" % (rng.choice([1, 2, 3, 8]), mr, rng.choice([-1, -1, 1, 2]), ini, ctxv)] * ncalls
                    ops.append("close")
                out.append({"name": "blockstream%d" % c, "ops": ops, "sticky": 1, "meta": {"kind": kind, "geom": "blockstream", "nrec": len(lens)}})
                continue
            layout = rng.random() < 0.45
            if layout:
                # constant geometry with 0..3 extra ignorable bytes per line: every window start column, both strands
                kind = rng.choice(["dna", "dna", "rna"])
                data, meta = S.gen_fasta_layout(rng, kind)
                r = meta["width"]
                ops = ["file ext=fa hex=" + hx(data), "open fmt=fasta abc=text B=%d" % S.pick_B(rng, data)] + ["read"] * (len(meta["recs"]) + 1) + ["close"]
                for s in range(rng.choice([1, 2])):
                    abc = rng.choice(["text", kind])
                    ops.append("open fmt=fasta abc=%s B=%d" % (abc, S.pick_B(rng, data)))
                    for rc in meta["recs"]:
                        L = len(rc["seq"])
                        Wf = rng.choice([1, 2, r - 1 if r > 1 else 1, r, r + 1, r + 2, 2 * r + 1, L, 5000, rng.randrange(1, r + 3)])
                        Cf = rng.choice([0, 1, 2, r, 50])
                        ops += ["readwin C=%d W=%d" % (Cf, Wf)] * ((L + Wf - 1) // Wf + 1)
                        ops.append("geom")
                        Wr = rng.choice([1, 1, 2, 3, r - 1 if r > 1 else 1, r, r + 1, r + 2, rng.randrange(1, r + 3), rng.randrange(1, r + 3)])
                        Cr = rng.choice([0, 0, 1, 2, r, 50])
                        ops += ["readwin C=%d W=%d" % (Cr, -Wr)] * ((L + Wr - 1) // Wr + 1)
                        ops.append("reuse")
                    ops += ["readwin C=0 W=10", "close"]
                out.append({"name": "layout%d" % c, "ops": ops, "sticky": 1, "meta": {"kind": kind, "geom": "layout", "nrec": len(meta["recs"])}})
                continue
            fmt = "fasta"
            if rng.random() < 0.05:
                fmt = "hmmpgmd"          # '#' header line + FASTA
                data, meta = S.gen_hmmpgmd(rng, kind)
            elif rng.random() < 0.07:
                fmt = "daemon"           # multi-record daemon streams (every record ends with a // line)
                # (the daemon reader requires each // terminator inside one read buffer: default block size, stream shorter than a block;
                #  it is a pipe format: no repositioning, hence no reverse-strand windows)
                data, meta = S.gen_daemon(rng, kind)
                while len(data) > 3900:
                    data, meta = S.gen_daemon(rng, kind, nrec=2)
            elif rng.random() < 0.22:
                fmt = rng.choice(["embl", "uniprot", "genbank", "ddbj"])
                if fmt == "uniprot":
                    kind = "amino"
                if rng.random() < 0.4:
                    data, meta = S.gen_boundary_linebased(rng, fmt, kind)
                else:
                    data, meta = S.gen_linebased(rng, fmt, kind, tier=ctx.tier)
            else:
                data, meta = S.gen_fasta(rng, ctx.tier, kind, geometry="cr" if rng.random() < 0.05 else None)
            nrec = len(meta["recs"])
            ops = ["file ext=dat hex=" + hx(data), "open fmt=%s abc=text B=4096" % fmt] + ["read"] * (nrec + 1) + ["close"]
            if rng.random() < 0.3:
                # the same bytes through a gzip -dc pipe / through standard input (format given or autodetected on the stream)
                for _ in range(rng.choice([1, 2])):
                    call = rng.choice(["read", "readinfo", "readseq", "win"])
                    abc2 = rng.choice(["text", kind])
                    ops.append("srcscan src=%s fmt=%s abc=%s B=%d call=%s C=%d W=%d" % (
                        rng.choice(["gzip", "stdin", "pipe"]), fmt if (rng.random() < 0.6 or fmt in ("daemon", "hmmpgmd")) else "unknown", abc2, S.pick_B(rng, data, small_ok=len(data) <= 4000) if fmt != "daemon" else 4096, call,
                        rng.choice([0, 2, 10]), rng.choice([1, 7, 60, 5000])))
            nsess = rng.choice([2, 3, 4])
            for s in range(nsess):
                abc = rng.choice(["text", "text", kind])
                B = S.pick_B(rng, data, small_ok=sum(len(r["seq"]) for r in meta["recs"]) <= 4000)
                if fmt == "daemon":
                    B = 4096
                ops.append("open fmt=%s abc=%s B=%d" % (fmt if (rng.random() < 0.8 or fmt in ("daemon", "hmmpgmd")) else "unknown", abc, B))
                if abc == "text" and rng.random() < 0.15 and (fmt == "fasta" or (B == 4096 and fmt != "hmmpgmd")):
                    # (line-based formats with a first line longer than the read block lose the start of the recording: the first
                    #  loadbuf at open overwrites <mem> before recording starts - latent with the default block size, see report)
                    ops.append("guessabc")      # must leave the handle at the start of the file
                mode = rng.choice(["read", "info", "seq", "mixed", "win", "win", "winrev", "rt" if fmt == "fasta" else "winrev", "block"])
                if fmt in ("daemon", "hmmpgmd") and mode == "rt" or fmt == "daemon" and mode == "winrev":
                    mode = "win"
                if mode == "block":
                    total = sum(len(r["seq"]) for r in meta["recs"])
                    lng = 1 if abc in ("dna", "rna") and rng.random() < 0.7 else 0
                    ls = rng.choice([1, 2, 3, 8])
                    L0 = len(meta["recs"][0]["seq"]) if meta["recs"] else 1
                    mr = rng.choice([-1, 7, 20, 60, 100, 1000, max(1, total // 3), max(1, L0), max(1, L0 - 1), L0 + 1, max(1, L0 // 2)])
                    ms = rng.choice([-1, -1, 1, 2])
                    ini = rng.choice([0, 1])
                    ctxv = rng.choice([0, 0, 3, 10])
                    ncalls = min(80, (nrec + 2) if not lng else (nrec + 2 + (total // mr if mr > 0 else 0)))
                    ops += ["readblock list=%d maxres=%d maxseq=%d init=%d long=%d ctx=%d" % (ls, mr, ms, ini, lng, ctxv)] * ncalls
                    ops.append("close")
                    continue
                if mode in ("read", "info", "seq"):
                    ops += [{"read": "read", "info": "readinfo", "seq": "readseq"}[mode]] * (nrec + 1)
                    if rng.random() < 0.4 and fmt != "hmmpgmd":     # (rewinding an hmmpgmd file lands on its # header line again)
                        # esl_sqfile_Position: rewind and read again (to the monitor a second pass over the same records)
                        ops += ["close", "open fmt=%s abc=%s B=%d" % (fmt, abc, B), "read", "pos off=0"] + [rng.choice(["read", "readinfo", "readseq"]) for _ in range(nrec + 1)]
                elif mode == "mixed":
                    ops += [rng.choice(["read", "readinfo", "readseq"]) for _ in range(nrec + 1)]
                elif mode == "rt":
                    ops += ["roundtrip"] + ["read", "wfasta"] * min(nrec, 2)
                else:
                    for r in meta["recs"]:
                        L = len(r["seq"])
                        C = rng.choice([0, 0, 1, 2, 5, 10, 50, rng.randrange(0, 51)])
                        W = rng.choice([1, 2, 3, 7, 10, 60, 100, 5000, max(1, L), max(1, L - 1), L + 1, max(1, L // 2), rng.randrange(1, 200)])
                        if L >= 250 and rng.random() < 0.5:
                            # C + W on the allocation boundary of the residue array (esl_sq_GrowTo(sq, C+W), eslSQ_SEQCHUNK = 256)
                            C = rng.choice([0, 1, 6, 50])
                            W = rng.choice([253, 254, 255, 256, 257]) - C
                        nwin = (L + W - 1) // W if L else 0
                        if nwin > 60:
                            W = max(W, L // 40 + 1)
                            nwin = (L + W - 1) // W
                        vary = rng.random() < 0.15
                        if rng.random() < 0.2:
                            # the request changes from call to call, context AND width (the theorem windows_eq_read quantifies over
                            # every request stream (C_k, W_k)): widths drawn per call until the record is used up, then the EOD call
                            rem, lo = L, max(1, L // 40)
                            while rem > 0:
                                Wk = max(lo, rng.choice([1, 2, 3, W, W, max(1, W // 2), W + 1, rng.randrange(1, 120)]))
                                ops.append("readwin C=%d W=%d" % (rng.choice([0, 1, C, C, 50, rng.randrange(0, 20)]), Wk))
                                rem -= Wk
                            ops.append("readwin C=%d W=%d" % (C, W))
                        else:
                            for k in range(nwin + 1):
                                ops.append("readwin C=%d W=%d" % (C if not vary else rng.choice([0, 1, C, 50]), W))
                        if mode == "winrev" and abc != "amino" and kind != "amino":
                            ops.append("geom")
                            Wr = rng.choice([W, W, 1, 3, max(1, L), rng.randrange(1, 100)])
                            nrev = (L + Wr - 1) // Wr if L else 0
                            if nrev > 60:
                                Wr = max(Wr, L // 40 + 1)
                                nrev = (L + Wr - 1) // Wr
                            Cr = rng.choice([0, C, 1, 7])
                            for k in range(nrev + 1):
                                ops.append("readwin C=%d W=%d" % (Cr, -Wr))
                        ops.append("reuse")
                    ops.append("readwin C=0 W=10")     # EOF after the last record
                ops.append("close")
            out.append({"name": "gen%d" % c, "ops": ops, "sticky": 1, "meta": {"kind": kind, "geom": meta["geom"], "nrec": nrec}})
        return S.record_distribution(ctx, out)

    def nontrivial(self, case, out):
        return sum(1 for l in out if l.startswith("ok name=")) >= 1

    # ---------------------------------------------------------------- monitor
    def monitor_position(self, case, out):
        """position_then_read_eq_record / rewind_then_read_all_eq_parseFasta on the implementation: within a case, after
        esl_sqfile_Position(off) the next Read / ReadInfo / ReadSequence returns the record whose roff is off in the sequential scan of the
        same file (first session), field by field (ReadInfo: no residues; its L may be -1 or the length)."""
        meta = case.get("meta") or {}
        if "posscan" not in meta:
            return None
        byoff, order, pending, nxt = {}, [], None, None
        wacc, wref, cur_open = None, None, ""
        first = True
        for op, l in zip(case["ops"], out):
            w = op.split()
            if w[0] == "open":
                cur_open = op
            if w[0] == "close":
                first = False
                pending = nxt = wacc = None
            elif w[0] == "pos":
                off = int(w[1].split("=")[1])
                if not l.startswith("ok"):
                    return Failure("monitor", "esl_sqfile_Position(%d) on a record offset failed: %s" % (off, l[:40]))
                pending, nxt = off, None
            elif w[0] == "readwin" and not first and (pending is not None or wacc is not None):
                # forward window series after Position(off): the new parts reassemble the scanned record at off, then eslEOD with its L
                if pending is not None:
                    if pending not in byoff:
                        return Failure("monitor", "generator offset %d is not a record offset of the sequential scan %s" % (pending, order))
                    wacc, wref, pending = b"", byoff[pending], None
                r = S.rec(l)
                if r is None:
                    return Failure("monitor", "ReadWindow after Position(%d) returned %r" % (wref["roff"], l[:60]))
                if r["st"] == "eod":
                    if r["L"] != wref["L"] or len(wacc) != wref["L"]:
                        return Failure("monitor", "windows after Position(%d): %d residues delivered, eslEOD reports L=%d, the scan has L=%d" % (wref["roff"], len(wacc), r["L"], wref["L"]))
                    wacc = None
                else:
                    sq_ = r.get("seq") or b""
                    if r["n"] != r["C"] + r["W"] or len(sq_) != r["n"] or r["start"] + r["C"] != len(wacc) + 1 or r["end"] != len(wacc) + r["W"]:
                        return Failure("monitor", "window after Position(%d): start=%d end=%d C=%d W=%d n=%d after %d residues" % (wref["roff"], r["start"], r["end"], r["C"], r["W"], r["n"], len(wacc)))
                    wacc += sq_[r["C"]:]
                    if " abc=text" in cur_open and wref.get("seq") is not None and wacc != wref["seq"][:len(wacc)]:
                        return Failure("monitor", "windows after Position(%d) deliver other residues than the scan" % wref["roff"])
            elif w[0] in ("read", "readinfo", "readseq"):
                r = S.rec(l)
                if first:
                    if r is not None:
                        byoff[r["roff"]] = r
                        order.append(r["roff"])
                    continue
                want_off = pending if pending is not None else nxt
                pending = nxt = None
                if want_off is None:
                    continue
                if want_off not in byoff:
                    return Failure("monitor", "generator offset %d is not a record offset of the sequential scan %s" % (want_off, order))
                ref = byoff[want_off]
                if r is None:
                    return Failure("monitor", "%s after Position(%d) returned %r, the scan has record %r there" % (w[0], want_off, l[:60], ref["name"]))
                keys = ["name", "acc", "desc", "roff", "hoff", "doff", "eoff"] + ([] if w[0] == "readinfo" else ["seq", "n", "L"])
                if w[0] == "readseq":
                    keys = ["seq", "n", "L", "doff", "eoff"]
                for k in keys:
                    if k == "seq" and len(r.get("seq") or b"") == len(ref.get("seq") or b"") and r.get("seq") != ref.get("seq"):
                        continue          # digital vs text encoding of the same residues (agreement across modes is monitor_c04's business)
                    if r.get(k) != ref.get(k):
                        return Failure("monitor", "%s after Position(%d): %s = %r, the sequential scan has %r" % (w[0], want_off, k, r.get(k), ref.get(k)))
                i = order.index(want_off)
                nxt = order[i + 1] if i + 1 < len(order) else None
        return None

    def monitor(self, ctx, case, out):
        if (case.get("meta") or {}).get("poswin"):
            return self.monitor_position(case, out)
        f = S.monitor_c04(case, out) or self.monitor_position(case, out)
        if f or not (case.get("meta") or {}).get("trackscan"):
            return f
        # tracker_iff (TrackerExact.lean) against the real seebuf(): after a sequential scan of the whole file from open on, by Read or
        # forward windows of any width (seebuf then stops in the middle of lines), bpl, rpl > 0 iff the file has the constant geometry
        data = S.unhx(case["ops"][0].split("hex=")[1])
        want = tracker_predicate(data)
        eof_seen = False
        for op, l in zip(case["ops"], out):
            if op.startswith("open "):
                eof_seen = False
            elif l.startswith("eof"):
                eof_seen = True
            elif op == "geom" and eof_seen and l.startswith("ok bpl="):
                d = dict(x.split("=", 1) for x in l.split()[1:])
                got = (int(d["bpl"]), int(d["rpl"]))
                if want is None:
                    ok = got == (-1, -1)
                elif want[2]:
                    ok = got == (want[0], want[1])
                else:
                    ok = not (got[0] > 0 and got[1] > 0)
                if not ok:
                    return Failure("monitor", "line-geometry tracker after a full scan: (bpl, rpl) = %s, but tracker_iff says %s" % (
                        got, "unset (-1, -1)" if want is None else ("(%d, %d)" % want[:2] if want[2] else "not both positive (first full line (%d, %d), geometry not constant)" % want[:2])))
        return None


SPEC = C04()
