"""C11 — maximum-likelihood fits and histograms.
Model: lean/EaselModel/Stats/*, theorems: Props/C11.lean, harness: h_stats.c, driver: Driver/C11.lean"""
import math, struct, statistics
from fractions import Fraction
from vlib.engine import Prop, Failure, run_side

INT_MAX = 2**31 - 1


def dbits(x):
    return "%016x" % struct.unpack("<Q", struct.pack("<d", float(x)))[0]


def fbits(s):
    return struct.unpack("<d", struct.pack("<Q", int(s, 16)))[0]


def nextup(x, k=1):
    for _ in range(k):
        x = math.nextafter(x, math.inf)
    return x


def nextdown(x, k=1):
    for _ in range(k):
        x = math.nextafter(x, -math.inf)
    return x


def fnv_bits(vals):
    h = 0xcbf29ce484222325
    for v in vals:
        h = ((h ^ struct.unpack("<Q", struct.pack("<d", v))[0]) * 0x100000001b3) & 0xFFFFFFFFFFFFFFFF
    return "%016x" % h


def kv(line):
    return dict(x.split("=", 1) for x in line.split()[1:] if "=" in x)


def parse_xs(s):
    return [] if s in ("-", "", None) else [fbits(t) for t in s.split(",")]


CG_KINDS = ("sxp", "weibull", "gumbeltrunc", "gev")

# ------------------------------------------------------------------------------------------------
# log-likelihoods (python floats, fsum) used by the monitors
# ------------------------------------------------------------------------------------------------
def ll_exp(xs, mu, lam):
    if not (lam > 0) or any(x < mu for x in xs): return -math.inf
    return len(xs) * math.log(lam) - lam * math.fsum(x - mu for x in xs)


def safe_exp(t):
    return math.exp(t) if t < 700 else math.inf


def ll_gumbel(xs, mu, lam, z=0, phi=0.0):
    if not (lam > 0): return -math.inf
    s = len(xs) * math.log(lam) - math.fsum(lam * (x - mu) for x in xs) - math.fsum(safe_exp(-lam * (x - mu)) for x in xs)
    if z: s -= z * safe_exp(-lam * (phi - mu))
    return s


def ll_gumbel_trunc(xs, mu, lam, phi):
    if not (lam > 0): return -math.inf
    y = safe_exp(-lam * (phi - mu))
    surv = -math.expm1(-y)          # 1 - exp(-y)
    if surv <= 0: return -math.inf
    return ll_gumbel(xs, mu, lam) - len(xs) * math.log(surv)


def ll_lognormal_mu(xs, mu, sigma):
    return -math.fsum(0.5 * ((math.log(x) - mu) / sigma) ** 2 for x in xs)


def ll_gamma(xs, mu, lam, tau):
    if not (lam > 0 and tau > 0) or any(x <= mu for x in xs): return -math.inf
    n = len(xs)
    return n * (tau * math.log(lam) - math.lgamma(tau)) + (tau - 1) * math.fsum(math.log(x - mu) for x in xs) - lam * math.fsum(x - mu for x in xs)


def ll_weibull(xs, mu, lam, tau):
    if not (lam > 0 and tau > 0): return -math.inf
    s = []
    for x in xs:
        if x == mu:
            if tau < 1: continue          # the code's own convention ("hack: disallow infinity")
            if tau > 1: return -math.inf
        y = lam * (x - mu)
        if y < 0: return -math.inf
        s.append(math.log(lam * tau) + ((tau - 1) * math.log(y) if y > 0 else 0.0) - y ** tau)
    return math.fsum(s)


def ll_sxp(xs, mu, lam, tau):
    if not (lam > 0 and tau > 0) or any(x < mu for x in xs): return -math.inf
    n = len(xs)
    try:
        return n * (math.log(lam * tau) - math.lgamma(1.0 / tau)) - math.fsum((lam * (x - mu)) ** tau for x in xs)
    except OverflowError:
        return -math.inf


def gammp(a, x):
    """regularised lower incomplete gamma P(a,x) (series / continued fraction)"""
    if x <= 0 or a <= 0: return 0.0
    gln = math.lgamma(a)
    if x < a + 1.0:
        ap, term = a, 1.0 / a; tot = term
        for _ in range(1000):
            ap += 1.0; term *= x / ap; tot += term
            if abs(term) < abs(tot) * 1e-16: break
        return min(1.0, tot * math.exp(-x + a * math.log(x) - gln))
    tiny = 1e-300
    b = x + 1.0 - a; c = 1.0 / tiny; d = 1.0 / b; h = d
    for i in range(1, 1000):
        an = -i * (i - a); b += 2.0
        d = an * d + b
        if abs(d) < tiny: d = tiny
        c = b + an / c
        if abs(c) < tiny: c = tiny
        d = 1.0 / d; de = d * c; h *= de
        if abs(de - 1.0) < 1e-16: break
    try:
        return max(0.0, 1.0 - math.exp(-x + a * math.log(x) - gln) * h)
    except OverflowError:
        return 1.0


def cdf_weibull(x, mu, lam, tau):
    if x <= mu: return 0.0
    try: return -math.expm1(-((lam * (x - mu)) ** tau))
    except OverflowError: return 1.0


def cdf_sxp(x, mu, lam, tau):
    if x <= mu: return 0.0
    try: return gammp(1.0 / tau, (lam * (x - mu)) ** tau)
    except OverflowError: return 1.0


def ll_binned(cdf, bins, mu, lam, tau):
    """bins = [(count, lower, upper)]; Σ count·log(F(upper) - F(max(lower, mu)))"""
    if not (lam > 0 and tau > 0): return -math.inf
    tot = []
    for c, a, b in bins:
        d = cdf(b, mu, lam, tau) - cdf(max(a, mu), mu, lam, tau)
        if d <= 0: return -math.inf
        tot.append(c * math.log(d))
    return math.fsum(tot)


def ll_gamma_weighted(pts, mu, lam, tau):
    """pts = [(count, value)]: gamma log-likelihood of weighted points"""
    if not (lam > 0 and tau > 0) or any(v <= mu for _, v in pts): return -math.inf
    n = sum(c for c, _ in pts)
    return n * (tau * math.log(lam) - math.lgamma(tau)) + (tau - 1) * math.fsum(c * math.log(v - mu) for c, v in pts) - lam * math.fsum(c * (v - mu) for c, v in pts)


def ll_gev(xs, mu, lam, alpha):
    if not lam > 0: return -math.inf
    tot = []
    for x in xs:
        y = lam * (x - mu)
        if abs(y * alpha) < 1e-12:
            tot.append(math.log(lam) - y - safe_exp(-y)); continue
        ya1 = 1.0 + alpha * y
        if ya1 <= 0: return -math.inf
        l = math.log(ya1)
        tot.append(math.log(lam) - (1.0 + 1.0 / alpha) * l - safe_exp(-l / alpha))
    return math.fsum(tot)


def pattern_search(ll, p0, unit, max_evals=260):
    """coordinate pattern search around p0 (steps 10% .. 0.01% of `unit`): best logL found nearby"""
    base = ll(*p0)
    best, bp, step, evals = base, list(p0), 0.1, 0
    while step > 1e-4 and evals < max_evals:
        moved = False
        for i in range(len(p0)):
            for sg in (1, -1):
                q = list(bp); q[i] = q[i] + sg * step * unit[i]
                v = ll(*q); evals += 1
                if v > best: best, bp, moved = v, q, True
        if not moved: step /= 2
    return base, best, bp


# ------------------------------------------------------------------------------------------------
# quantile grids of the laws
# ------------------------------------------------------------------------------------------------
def grid(kind, n, mu, lam, tau):
    ps = [(i + 0.5) / n for i in range(n)]
    if kind == "exp": return [mu - math.log1p(-p) / lam for p in ps]
    if kind == "gumbel": return [mu - math.log(-math.log(p)) / lam for p in ps]
    if kind == "weibull": return [mu + (-math.log1p(-p)) ** (1.0 / tau) / lam for p in ps]
    if kind == "lognormal":
        nd = statistics.NormalDist()
        return [math.exp(mu + lam * nd.inv_cdf(p)) for p in ps]
    if kind == "gev":       # tau = shape alpha
        return [mu + math.expm1(-tau * math.log(-math.log(p))) / (tau * lam) if abs(tau) > 1e-12 else mu - math.log(-math.log(p)) / lam for p in ps]
    if kind == "gamma": return [mu + gamma_quantile(tau, p) / lam for p in ps]
    if kind == "sxp": return [mu + gamma_quantile(1.0 / tau, p) ** (1.0 / tau) / lam for p in ps]
    raise ValueError(kind)


_GQ = {}
def gamma_quantile(a, p):
    """y with P(a, y) = p (bisection on the regularised incomplete gamma function)"""
    key = (a, p)
    if key in _GQ: return _GQ[key]
    lo, hi = 0.0, max(1.0, a)
    while gammp(a, hi) < p: hi *= 2.0
    for _ in range(200):
        mid = 0.5 * (lo + hi)
        if gammp(a, mid) < p: lo = mid
        else: hi = mid
        if hi - lo <= 1e-15 * hi: break
    _GQ[key] = 0.5 * (lo + hi)
    return _GQ[key]


class C11(Prop):
    id = "C11"
    lean_modules = ["EaselModel.Props.C11"]
    lean_exe = "c11_driver"
    harness = "h_stats.c"
    theorems = ["EaselModel.Props.C11." + t for t in (
        "score2bin_interval", "bins_partition", "add_never_faults", "add_counts_once", "histogram_accounts", "bookkeeping_true",
        "sorted_flag_sound", "collect_then_tail", "tail_query_agrees", "rank_query_agrees", "tailmass_query_agrees",
        "settail_agrees_with_raw_data", "settailbymass_agrees_with_raw_data", "declare_censoring_agrees", "lognormal_fit_closed_form", "lognormal_mu_is_maximiser",
        "gumbel_profile_concave", "gumbel_complete_fit_near_optimal", "gumbel_censored_fit_near_optimal",
        "cg_return_means_stopping_rule", "cg_hangs_only_in_brent", "weibull_sxp_fit_post", "truncated_gumbel_fit_post", "weibull_binned_fit_post", "gamma_binned_fit_post", "gamma_engine_post", "cg_fit_location_is_minimum",
        "exp_fit_closed_form", "exp_fit_is_maximiser", "gumbel_mu_is_maximiser", "lawless_is_derivative", "gumbel_complete_fit_stationary",
        "gumbel_censored_fit_stationary", "gumbel_loc_fits_closed_form", "gumbel_fits_terminate",
        # round 3: the solvers
        "bisection_total_documented_status", "bisection_keeps_root_bracketed", "newton_root_total_documented_status", "bisection_converges", "bisection_negative_root_regression",
        "bracket_postcondition", "brent_descends_from_its_start", "brent_nonfinite_interval_exits", "cg_value_is_objective_at_result", "cg_is_not_a_descent_method",
        # round 4
        "cg_statistics_are_of_the_proved_run", "cg_terminates_within_max_iterations", "cg_descends_unless_brent_loses_the_bracket_point",
        "weibull_objective_is_neg_loglik", "weibull_loglik_derivatives", "weibull_fit_optimality_certificate", "weibull_stationary_is_global_maximiser_partial", "weibull_stationary_point_is_unique_maximiser_partial",
        "weibull_sxp_fit_parameters_positive", "gamma_rate_is_maximiser", "truncated_gumbel_gradient_is_derivative", "exp_binned_fit_is_maximiser", "exp_binned_loglik_closed_form",
        "set_expect_fills_all_bins", "expected_tail_emin_in_range", "expected_counts_account_for_the_mass", "goodness_never_faults", "goodness_accounts_for_its_counts", "goodness_range_is_the_raw_data_above_its_threshold",
        "plot_accounts_for_data", "plot_survival_accounts_for_data", "plot_qq_in_bounds", "declare_rounding_keeps_the_data",
        # round 6
        "sxp_objective_is_neg_loglik", "sxp_rate_is_maximiser", "sxp_rate_closed_form", "weibull_binned_objective_is_neg_loglik", "weibull_cdf_is_distribution_function",
        "gev_fit_post", "gev_objective_is_neg_loglik", "gev_gradient_is_derivative", "sxp_binned_fit_post", "sxp_binned_objective_is_neg_loglik",
        "gamma_shape_likelihood_equation", "gamma_engine_fixed_point_is_stationary_partial", "gev_censored_objective_is_neg_loglik", "sxp_shape_likelihood_equation", "gev_fit_scale_positive", "gev_censored_gradient_is_derivative", "plot_number_format_rounds_half_even",
        # round 6b
        "exp_tail_fit_is_ml_of_the_raw_tail", "exp_tail_counts_only_the_tail", "exp_tail_fit_by_mass_is_ml_of_the_raw_tail")]
    claimed = True
    technique = ("Lean 4 proof over an executable line-by-line model (numeric class: Float for the bit-exact differential run, Q/R for the theorems) "
                 "+ bit-exact correspondence with the ASan/UBSan-built C code + exact-rational / log-likelihood property monitors")
    level_text = ("PARTIAL. Theorems (Lean 4; the executable model's own definitions read over Q resp. R; every value sequence / data set): "
                  "HISTOGRAM - esl_histogram Create/Add account for every accepted value exactly once, in the bin whose half-open interval (bmin+b*w, bmin+(b+1)*w] contains it, "
                  "however often the bins grew in either direction (growth changes no count and no boundary); counts sum to n; imin/imax/xmin/xmax/n are what they say; Score2Bin answers "
                  "eslERANGE instead of overflowing; Add never faults for any numeric class (incl. binary64); GetRank/GetTail/GetTailByMass return exactly the sorted raw data "
                  "(binary search in bounds and terminating); SetTail/SetTailByMass/DeclareCensoring bookkeeping (phi, cmin, z, No, Nc) equals the counts of raw values below/above the threshold; "
                  "DeclareRounding keeps the data; SetExpect fills exactly expect[0..nb-1]; SetExpectedTail keeps emin in 0..nb for EVERY base value (7d2bcba); Goodness never reads outside "
                  "obs[]/expect[] nor writes outside its 2nb+1 re-bins and its re-bins account for every count of the evaluated range; the tables Plot/PlotSurvival print account for all n values (e843eeb). "
                  "FITS - exponential: (min x, 1/(mean-min)) is THE likelihood maximiser; Gumbel complete/censored/fixed-lambda: mu is the exact maximiser for the returned lambda, lawless416/422 "
                  "is the derivative of the concave profile likelihood, so an eslOK result is the global maximiser up to n*1e-5*|lambda'-lambda|; termination of every loop; log-normal closed form. "
                  "Weibull: wei_func is minus the log-likelihood, its partial derivatives, lambda = exp(w) > 0, tau = exp(v) > 0, and the log-likelihood is concave in (tau, tau*log lambda): a "
                  "stationary point is THE global maximum, the only one, and the shortfall of ANY point is bounded by its derivatives (optimality certificate). Truncated Gumbel: tevd_grad is the gradient of "
                  "tevd_func (HasDerivAt, main branches). Gamma: lambda = tau/xbar is the maximiser in lambda for every tau, gam_nll is minus the profile likelihood. "
                  "Exponential TAIL fit: SetTail(phi) then esl_exp_FitCompleteBinned is the ML fit of exactly the accepted values above the threshold used (N = their number, whatever lies in the bins "
                  "below; any history). Stretched exponential: sxp_complete_func is minus the log-likelihood (with the code's LogGamma), concave in log lambda for every tau, so lambda^tau = n/(tau*sum (x-mu)^tau) "
                  "is THE maximiser in lambda (closed form, unique). GEV (esl_gev_FitComplete/FitCensored, modelled line by line incl. libm log1p): documented status, gev_func is minus the GEV "
                  "log-likelihood and gev_gradient IS its gradient in (mu, log lambda, alpha) (HasDerivAt, main branch). Binned Weibull: wei_binned_func = -sum obs[b]*log(F(ub)-F(max(lb,mu))), "
                  "F = esl_wei_cdf = the Weibull distribution function. "
                  "OPTIMISERS - esl_min_ConjugateGradientDescent/bracket/brent/numeric_derivative and esl_root_Bisection/NewtonRaphson modelled line by line (any objective, numeric class): documented "
                  "status, <= max_iterations rows and <= brack_maxiter rounds per row, fx = f(x) on return, bracket post-condition, brent never worse than its start, bisection keeps the root "
                  "bracketed and converges for roots of either sign (8354c02); descent holds unless a brent() call returns above bracket()'s middle point (and a counter-example shows it can). "
                  "The hand model is tied to the working tree by a differential run (bit-identical on the clean tree; integers/copies exact, computed doubles to 1e-12/1e-7 relative) over histogram "
                  "histories, every closed-form/Newton/CG fit (incl. GEV complete/censored and the binned Weibull/stretched-exponential/gamma fits; gev_func, gev_gradient and esl_sxp_cdf also "
                  "evaluated point-wise in every branch), the solvers on shared objective families (quadratic, Rosenbrock, exp-linear, log-barrier, needle, Weibull/gamma/stretched-exponential "
                  "negative log-likelihoods of generated data) incl. the whole ESL_MIN_DAT table (iterations, bracket/brent rounds, function evaluations, fx trace); property monitors (exact rational bin "
                  "membership, queries vs sorted raw data, local pattern search of an independently evaluated log-likelihood around every optimiser result incl. binned fits, location = min x, recovery on "
                  "exact quantile grids, plot tables summing to n, p-values in [0,1]) report concrete failing inputs.")
    level_note = ("Residual: binary64 rounding (L0) is not a theorem (values within rounding distance of a bin edge; exp(-lambda*x) under/overflow). "
                  "NOT a theorem: that the conjugate-gradient stopping rule (relative decrease of f below 1e-5) makes the gradient small, so 'the point reached maximises the likelihood' is proved only "
                  "conditionally (Weibull: bounded by the derivatives at the point; stationarity => global maximum); monitored: local pattern search, fit >= generating parameters, recovery on exact "
                  "quantile grids of every family. Gamma in tau: the likelihood equation (true digamma, Mathlib Real.Gamma) and 'the engine's update is stationary exactly at a root of its equation' are proved; that esl_stats_Psi/Trigamma "
                  "equal digamma/trigamma, and concavity of the profile, are not. Stretched-exponential shape in tau and GEV likelihood shape (concavity): not proved. "
                  "esl_sxp_FitCompleteBinned is modelled (esl_sxp_cdf through the model's IncompleteGamma, NaN when it cannot be evaluated - repaired in 8c29128; objective = -sum obs*log(cdf "
                  "differences), documented status/location) and compared exactly. "
                  "esl_histogram_Plot's observed data set is modelled byte for byte (Stats/Format.lean: C99 %f of a binary64 value = its exact dyadic value rounded half-even to 6 decimals; "
                  "rows, trailing y=0 row, '&' line; FNV hash of the text compared exactly). Not modelled (monitors only): esl_histogram_Write/Print (ASCII bars), %g of the expected counts, "
                  "the text of PlotSurvival/PlotQQ, esl_gumbel/esl_exp tail fits. "
                  "Log-normal sigma uses the n-1 variance, not the ML n; libm and libc qsort are trusted. "
                  "Genuine defects found while building this check and repaired in /repo: b44f0f8 7d6f911 fd84f7f bad2f4e 2487976 935fded 9b72a6e 6f20587 6da6a89 8354c02 6815f41 8c29128; their witnesses are corpus regression cases.")
    diverge_is_violation = True
    fault_is_output = True      # faults are classified by monitor() (a hang inside a CG-based fit carries the known key)
    trusted_base = ["hand model of esl_histogram.c and of the closed-form/Newton fits tied by a bit-exact differential run (h_stats.c, ASan+UBSan build of the working tree)",
                    "Lean compiler/runtime for the executable driver; libm exp/log/sqrt/ceil/log1p shared by both sides", "libc qsort sorts (modelled by a merge sort)",
                    "IEEE-754 rounding (L0): theorems are over Q/R, never about rounded results"]
    assumptions = ["allocation never fails (eslEMEM paths not modelled)", "libc qsort sorts (modelled as a merge sort; -0.0/0.0 ties excluded from the raw-data hash)",
                   "binary64 evaluation of (x-bmin)/w within rounding distance of a bin edge is L0: compared bit-exactly with the model, monitored with a relative 1e-9 tolerance unless all quantities are dyadic",
                   "exp(-lambda*x) outside the binary64 range (|lambda*x| > 700) is not claimed finite",
                   "modelled C functions: esl_histogram_Create CreateFull Score2Bin Add sort DeclareCensoring DeclareRounding SetTail SetTailByMass GetRank GetData GetTail GetTailByMass "
                   "SetExpect SetExpectedTail Goodness (with esl_stats_ChiSquaredTest/IncompleteGamma/LogGamma) and the bin accounting of Plot/PlotSurvival/PlotQQ; "
                   "esl_exp_FitComplete FitCompleteScale FitCompleteBinned; esl_lognormal_FitComplete FitCountHistogram; esl_stats_DMean Psi Trigamma; lawless416 lawless422 esl_gumbel_FitComplete FitCompleteLoc "
                   "FitCensored FitCensoredLoc FitTruncated (tevd_func tevd_grad); esl_wei_FitComplete FitCompleteBinned; esl_sxp_FitComplete; esl_gam_FitComplete FitCountHistogram FitCompleteBinned; "
                   "esl_gev_FitComplete FitCensored (fitting_engine gev_func gev_gradient esl_gev_logpdf esl_gev_logcdf; log1p = the libm symbol on the Float side, log(1+x) over R); "
                   "esl_min_ConjugateGradientDescent numeric_derivative bracket brent (incl. ESL_MIN_DAT); esl_root_Bisection NewtonRaphson",
                   "esl_sxp_FitCompleteBinned (esl_sxp_cdf, sxp_complete_binned_func, esl_stats_IncompleteGamma P(a,x)); static gev_func/gev_gradient evaluated directly (op gevobj)",
                   "the text of esl_histogram_Plot's first data set (%f rows) is modelled exactly",
                   "not modelled (implementation-side monitors only): histogram Write/Print (text formatting), %g rows of expected counts, allocation failure paths"]
    rule = ("cases = histogram operation histories (create, batches of Adds that force repeated growth below and above, edge values +-1 ulp, ties, non-finite and out-of-int-range values, "
            "rank/tail/censoring queries, Add after finishing) and data sets (exact quantile grids, the library's own samplers, ties, outliers, scales 1e-6..1e6, censoring 0..0.9, degenerate sets) "
            "run through every fit; non-trivial = at least one ok answer and no fault; distinct by output trace")
    quick_budget_s = 90

    # ---------------------------------------------------------------------------------------------
    def generated(self, ctx):
        """one source-level fact the hand model depends on is read off the working tree (kind G): where esl_gumbel_FitComplete()
        evaluates the first bracketing test of its bisection fallback"""
        import os, re
        src = open(os.path.join(ctx.src, "esl_gumbel.c")).read()
        i = src.index("esl_gumbel_FitComplete(double *x")
        body = src[i:src.index("esl_gumbel_FitCompleteLoc(double *x", i)]
        m = re.search(r"lawless416\(x, n, (\w+), &fx, &dfx\);[^;]*?\n\s*while \(fx > 0\.\)", body)
        if not m or m.group(1) not in ("right", "lambda"):
            raise RuntimeError("esl_gumbel_FitComplete(): cannot find the bracketing evaluation of the bisection fallback")
        flag = "true" if m.group(1) == "right" else "false"
        return {"EaselModel/Generated/C11Src.lean":
                "/-! Regenerated from the working tree's esl_gumbel.c by props/c11.py (`SPEC.generated`) on every run. -/\n"
                "namespace EaselModel.Stats\n"
                "/-- does `esl_gumbel_FitComplete()` evaluate the first bracketing test of its bisection fallback at `right` (as `FitCensored` does)\n"
                "    or at the lambda left over by Newton/Raphson? (read off the source: `lawless416(x, n, right|lambda, &fx, &dfx)` before `while (fx > 0.)`) -/\n"
                "def fitCompleteBracketsAtRight : Bool := %s\n"
                "end EaselModel.Stats\n" % flag}

    def canonical(self, line):
        if line.startswith("fault") or line.startswith("atexit"):
            return "fault"
        # any NaN bit pattern -> nan
        out = []
        for w in line.split(" "):
            pre, eq, val = w.rpartition("=")
            if len(val) == 16 and all(c in "0123456789abcdef" for c in val):
                u = int(val, 16)
                if (u >> 52) & 0x7ff == 0x7ff and (u & ((1 << 52) - 1)):
                    w = pre + eq + "nan"
            out.append(w)
        return " ".join(out)

    def compare(self, ctx, case, impl_out, model_out):
        if case.get("known_key"):
            return None
        n = max(len(impl_out), len(model_out))
        for i in range(n):
            a = self.canonical(impl_out[i]) if i < len(impl_out) else "<missing>"
            b = self.canonical(model_out[i]) if i < len(model_out) else "<missing>"
            if a == "fault" and b in ("unmodelled", "fault"):
                return None          # the implementation died here; monitor() classifies it
            if b == "unmodelled":
                continue
            op = case["ops"][i] if i < len(case["ops"]) else ""
            if a != b and op.startswith("fit") and case.get("meta", {}).get("mod") in ("allequal", "degenerate"):
                # degenerate data (fewer than two distinct values): outside the property's quantifier except for termination and
                # a status; the numbers returned are 0/0 artefacts, only the status has to agree
                if a.split(" ")[0] == b.split(" ")[0]: continue
            if a != b and not self.close(op, a, b):
                # a dump that differs only in how values within rounding distance of a bin edge were placed (the shifted bmin of a
                # different - harmless - allocation policy rounds differently; layer L0) is accepted when the implementation's own
                # dump satisfies the exact-rational accounting monitor for the values it accepted
                if op.startswith("hdump") and a.startswith("ok nb=") and b.startswith("ok nb=") and not case.get("exact"):
                    vals = self.accepted_vals(case["ops"], impl_out, i)
                    ka, kb = kv(a), kv(b)
                    if (vals is not None and all(ka[k] == kb[k] for k in ("n", "nc", "no", "xmin", "xmax", "w", "full", "done", "rounded", "ds"))
                            and self.check_dump(ka, vals, False, ka["full"] == "1") is None):
                        return None      # from here on the two sides hold (legitimately) different counts near bin edges: monitors only
                return (i, a, b)
        return None

    def close(self, op, a, b):
        """Statuses, integers, counts and every copied value must agree exactly; COMPUTED doubles (fitted parameters, shifted bin
        bounds, tail masses) may differ by a rounding-level relative error, so that a harmless re-association of floating-point
        operations in the C code is not reported (measured on the clean tree: the two sides are bit-identical)."""
        wa, wb = a.split(" "), b.split(" ")
        name = op.split()[0] if op else ""
        if name == "hdump" and a.startswith("ok nb=") and b.startswith("ok nb="):
            return self.same_histogram(kv(a), kv(b))
        if name == "hscore":                      # same status, same bin identified by its lower bound (not by array index)
            if wa[0] != wb[0]: return False
            if wa[0] != "ok": return True         # *ret_b = 0 on failure: its lower bound depends on the allocation only
            la, lb = fbits(kv(a)["lb"]), fbits(kv(b)["lb"])
            return la == lb or abs(la - lb) <= 1e-12 * (abs(la) + abs(lb))
        if name == "hnew":
            return wa[0] == wb[0]
        if name == "cgd" and kv(op).get("fam") in ("weinll", "gamnll", "sxpnll"):
            # the objective is built from the library's logpdf (property C10's code): a rounding-level change there may legitimately move the
            # optimiser's trajectory; same status and the same minimum value to the optimiser's own tolerance is what has to agree
            if wa[0] != wb[0]: return False
            if wa[0] not in ("ok", "enohalt"): return True
            fa, fb2 = fbits(kv(a)["fx"]), fbits(kv(b)["fx"])
            return math.isfinite(fa) and math.isfinite(fb2) and abs(fa - fb2) <= 1e-4 * max(abs(fa), abs(fb2)) + 1e-9
        if len(wa) != len(wb): return False
        rel = 1e-7 if name in ("fit", "hexpfit") else 1e-12
        exact_keys = ("xmin", "xmax", "first", "last", "hash", "w", "txt")      # copies of input values: exact
        for x, y in zip(wa, wb):
            if x == y: continue
            px, ex, vx = x.rpartition("="); py, ey, vy = y.rpartition("=")
            if px != py or px in exact_keys: return False
            if not (len(vx) == 16 and len(vy) == 16): return False
            try:
                fx, fy = fbits(vx), fbits(vy)
            except ValueError:
                return False
            if name == "hrank": return False
            if math.isnan(fx) or math.isnan(fy) or math.isinf(fx) or math.isinf(fy): return False
            if abs(fx - fy) > rel * max(abs(fx), abs(fy)) + 1e-300: return False
        return True

    def accepted_vals(self, ops, out, upto):
        vals = []
        for op, l in zip(ops[:upto], out[:upto]):
            if op.startswith("hadd"):
                xs = parse_xs(kv(op)["xs"]); st = l[3:] if l.startswith("st=") else ""
                if len(st) != len(xs): return None
                vals += [x for x, c in zip(xs, st) if c == "o"]
        return vals

    def same_histogram(self, x, y):
        """Two dumps describe the same histogram when every observable the property talks about agrees: counters, flags, xmin/xmax,
        width, and the occupied bins identified by their BOUNDARIES (bmin + i*w) - not by array index, so that a different
        over-allocation policy (how many empty bins a growth adds on either side) is not reported; imin/imax/cmin are compared
        relative to the lowest occupied bin."""
        for k in ("n", "nc", "no", "z", "xmin", "xmax", "w", "full", "done", "rounded", "ds"):
            if x[k] != y[k]: return False
        def occupied(o):
            bmin, w = Fraction(fbits(o["bmin"])), Fraction(fbits(o["w"]))
            if o["obs"] == "-": return [], bmin, w
            return [(bmin + int(t.split(":")[0]) * w, int(t.split(":")[1]), int(t.split(":")[0])) for t in o["obs"].split(",")], bmin, w
        ox, bx, w = occupied(x); oy, by, _ = occupied(y)
        if len(ox) != len(oy): return False
        tol = Fraction(1, 10**12)
        for (lx, cx, _), (ly, cy, _) in zip(ox, oy):
            if cx != cy or abs(lx - ly) > tol * (abs(lx) + abs(w)): return False
        px, py = fbits(x["phi"]), fbits(y["phi"])
        if not (px == py or abs(px - py) <= 1e-12 * (abs(px) + abs(py))): return False
        if ox:
            fx, fy = ox[0][2], oy[0][2]
            for k in ("imin", "imax"):
                if int(x[k]) - fx != int(y[k]) - fy: return False
            # cmin: same offset from the lowest occupied bin, unless both sit on the clamp / sentinel
            if int(x["cmin"]) - fx != int(y["cmin"]) - fy and not (int(x["cmin"]) == 0 and int(y["cmin"]) == 0): return False
        else:
            if (int(x["imin"]) == int(x["nb"])) != (int(y["imin"]) == int(y["nb"])) or x["imax"] != y["imax"]: return False
        return True

    def nontrivial(self, case, out):
        return len(out) >= 2 and any(l.startswith("ok") for l in out) and not any(l.startswith(("fault", "atexit")) for l in out)

    # ---------------------------------------------------------------------------------------------
    # corpus: fixed cases + known-finding witnesses
    # ---------------------------------------------------------------------------------------------
    def corpus(self, ctx):
        d = dbits
        c = []
        c.append({"name": "hist-basic", "sticky": 1, "ops": [
            "hnew full=1 bmin=%s bmax=%s w=%s" % (d(0), d(10), d(1)),
            "hadd xs=" + ",".join(d(x) for x in [0.5, 1.0, 1.5, -3.2, 25.0, 7, 7, float("nan"), 1e300, -1e300, float("inf")]),
            "hdump", "hscore x=" + d(3.0), "hscore x=" + d(float("inf")), "hrank r=1", "hrank r=7", "hrank r=8", "hrank r=0",
            "htail phi=" + d(1.0), "hdump", "hadd xs=" + d(2.0), "hdump"]})
        c.append({"name": "hist-edges-dyadic", "sticky": 1, "exact": True, "ops": [
            "hnew full=1 bmin=%s bmax=%s w=%s" % (d(-2), d(2), d(0.25)),
            "hadd xs=" + ",".join(d(x) for x in [-2.0, -1.75, -1.875, 2.0, 2.25, 2.125, -2.25, 0.0, 0.25, -8.0, 16.0, -32.0, 64.0]),
            "hdump", "hsettail phi=" + d(0.25), "hdump", "hexpfit"]})
        # regression cases of repaired defects (7d6f911, fd84f7f, b44f0f8)
        c.append({"name": "regress-add-below", "sticky": 1, "ops": [
            "hnew full=0 bmin=%s bmax=%s w=%s" % (d(0), d(10), d(1)), "hadd xs=" + d(-1.5e9), "hdump"]})
        c.append({"name": "regress-add-above", "sticky": 1, "ops": [
            "hnew full=0 bmin=%s bmax=%s w=%s" % (d(0), d(10), d(1)), "hadd xs=" + d(1.5e9), "hdump"]})
        c.append({"name": "regress-settail-above", "sticky": 1, "ops": [
            "hnew full=0 bmin=%s bmax=%s w=%s" % (d(0), d(10), d(1)), "hadd xs=" + d(5.0), "hsettail phi=" + d(100.0), "hdump"]})
        c.append({"name": "regress-settail-at-bmin", "sticky": 1, "ops": [
            "hnew full=0 bmin=%s bmax=%s w=%s" % (d(0), d(100), d(10)), "hadd xs=" + d(35.0), "hsettail phi=" + d(0.0), "hdump", "hexpfit", "hweifit", "hsxpfit"]})
        c.append({"name": "regress-settailmass-empty", "sticky": 1, "ops": [
            "hnew full=0 bmin=%s bmax=%s w=%s" % (d(0), d(100), d(10)), "hsettailmass p=" + d(0.5), "hdump", "hexpfit"]})
        # repaired in 935fded: Weibull fits with true tau 0.5 / 1.5 / 3 on the exact 300-point quantile grid must recover (lambda, tau)
        for tau in (0.5, 1.5, 3.0):
            g = grid("weibull", 300, 5.0, 0.01, tau)
            c.append({"name": "regress-weibull-grid-tau%g" % tau, "sticky": 1,
                      "meta": {"law": "weibull", "mu": 5.0, "lambda": 0.01, "tau": tau, "src": "grid", "mod": "none"},
                      "ops": ["data xs=" + ",".join(d(x) for x in g), "fit kind=weibull"]})
        for k, xs in enumerate(([9452.84, 9454.4, 9494.43], [5.00574, 5.02829, 5.00034, 5.00043, 5.00288], [-20.0527, -20.0014], [4385.46, 4371.19],
                                [-20.0164, -19.9915, -19.9491, -19.9521, -20.0091, -20.0319, -20.0337, -19.9529], [-19.9188, -19.9284, -19.9822, -19.9898])):
            c.append({"name": "gumbel-bisection-fallback-%d" % k, "sticky": 1, "meta": {"law": "none", "mod": "cluster"}, "ops": [
                "data xs=" + ",".join(d(x) for x in xs), "fit kind=gumbel", "fit kind=gumbelcens z=2 a=" + d(min(xs) - 0.01), "fit kind=gumbelcens z=0 a=" + d(min(xs) - 1.0)]})
        c.append({"name": "regress-fitcensored-infinite-variance", "sticky": 1, "meta": {"law": "none", "mod": "degenerate"}, "ops": [
            "data xs=" + ",".join(d(x) for x in [1e160, -1e160, 1.0]), "fit kind=gumbelcens z=0 a=" + d(-2e160), "fit kind=gumbel"]})
        # repaired in bad2f4e (brent() on a NaN interval): must answer a documented failure status, not hang
        c.append({"name": "regress-sxp-unbounded-likelihood", "sticky": 1, "meta": {"law": "sxp", "mod": "none"}, "ops": [
            "data xs=40404a0598800000,4050d75f30880000,40418305398c0001,40500727c7e00001,404c4748bbca0000,404d7b6c762a0000,4053ab22a4e30000,404381e5fe860001,4058237edc190000,40410fd575620000",
            "fit kind=sxp"]})
        # regression (repaired in 8354c02): negative roots never satisfied the convergence test of esl_rootfinder.c (rel_tolerance*x instead of *|x|)
        c.append({"name": "rootfinder-negative-root", "sticky": 2, "meta": {"mod": "solver"}, "ops": ['root meth=bis fam=poly c=c000000000000000,0000000000000000,3ff0000000000000 xl=c008000000000000 xr=bff0000000000000', 'root meth=newton fam=poly c=c000000000000000,0000000000000000,3ff0000000000000 guess=bff0000000000000']})
        # the same function on the positive axis converges
        c.append({"name": "rootfinder-positive-root", "sticky": 2, "meta": {"mod": "solver"}, "ops": [
            "root meth=bis fam=poly c=%s,%s,%s xl=%s xr=%s" % (d(-2), d(0), d(1), d(1), d(3)), "root meth=newton fam=poly c=%s,%s,%s guess=%s" % (d(-2), d(0), d(1), d(1))]})
        # esl_min_ConjugateGradientDescent() is not a descent method: started AT the minimiser of a needle-shaped objective (f(0) = 0, f = 1 + |x| elsewhere)
        # it answers eslOK with fx = 1.00000004 > f(x0) = 0 (brent() starts from the golden-section point of the bracket and never looks at bx again)
        c.append({"name": "cgd-not-a-descent-method", "sticky": 1, "meta": {"mod": "solver"}, "ops": [
            "cgd fam=needle p=%s,%s,%s x0=%s" % (d(1), d(0), d(1), d(0))]})
        # regression (repaired in 6da6a89): max_iterations = 0 returned an uninitialised *opt_fx
        c.append({"name": "cgd-maxiter0-uninitialised-fx", "sticky": 1, "meta": {"mod": "solver"}, "ops": ['cgd fam=rosen p=3ff0000000000000 x0=0000000000000000,0000000000000000 cfg=create maxit=0']})
        # regressions 7d2bcba (SetExpectedTail: base_val outside the binned range wrote outside expect[]) and e843eeb (PlotSurvival on an empty
        # histogram read obs[-1]); Goodness / Plot on the same states
        u = "cdf=unif c=%s,%s" % (d(-100.0), d(0.5))
        c.append({"name": "regress-expectedtail-base-outside-bins", "sticky": 1, "ops": [
            "hnew full=0 bmin=%s bmax=%s w=%s" % (d(-100.0), d(0.1), d(1.0)), "hadd xs=" + ",".join(d(x) for x in (-3.2, -2.5, -2.5, -0.7, 0.05)),
            "hexptail %s base=%s pmass=%s" % (u, d(2.0), d(1.0)), "hexpdump", "hgood nfitted=0", "hplot", "hplotsurv",
            "hexptail %s base=%s pmass=%s" % (u, d(-250.0), d(0.5)), "hexpdump", "hgood nfitted=0", "hplot", "hplotsurv",
            "hexptail %s base=%s pmass=%s" % (u, d(2147483646.5 - 100.0), d(0.5)), "hexpdump",
            "hexptail %s base=%s pmass=%s" % (u, d(float("nan")), d(0.5)), "hexpdump", "hdump"]})
        c.append({"name": "regress-plots-empty-histogram", "sticky": 1, "ops": [
            "hnew full=0 bmin=%s bmax=%s w=%s" % (d(0.0), d(10.0), d(1.0)), "hplotsurv", "hplot", "hgood nfitted=0", "hexpdump",
            "hexpect " + u, "hexpdump", "hplotsurv", "hplot", "hplotqq", "hgood nfitted=0", "hexptail %s base=%s pmass=%s" % (u, d(3.0), d(0.5)), "hexpdump", "hplotsurv", "hplot", "hgood nfitted=1"]})
        # regression 6815f41: SetExpectedTail refusing base_val (NaN, inf, beyond int) BEFORE any expected counts exist must leave expect NULL
        # (it used to stay allocated and unwritten; Plot/PlotSurvival/Goodness then read it)
        for k, bad in enumerate((float("inf"), float("nan"), -float("inf"), 1e300, -3e9)):
            c.append({"name": "regress-expectedtail-refused-first-%d" % k, "sticky": 1, "ops": [
                "hnew full=0 bmin=%s bmax=%s w=%s" % (d(0.0), d(10.0), d(1.0)), "hadd xs=" + ",".join(d(0.5 + i) for i in range(9)),
                "hexptail cdf=exp c=%s,%s base=%s pmass=%s" % (d(0.0), d(1.0), d(bad), d(0.5)), "hexpdump", "hgood nfitted=0", "hplot", "hplotsurv", "hplotqq",
                "hexptail cdf=exp c=%s,%s base=%s pmass=%s" % (d(0.0), d(1.0), d(2.0), d(0.5)), "hexpdump", "hgood nfitted=0", "hplot"]})
        # regression 8c29128: esl_sxp_cdf() returned an uninitialised double when esl_stats_IncompleteGamma() failed (here lambda0 = 1/(35-35) = inf):
        # esl_sxp_FitCompleteBinned optimised on garbage; now NaN -> eslERANGE with the start point
        c.append({"name": "regress-sxp-cdf-unset", "sticky": 1, "ops": [
            "hnew full=0 bmin=%s bmax=%s w=%s" % (d(0), d(100), d(10)), "hadd xs=" + d(35.0), "hdump", "hsxpfit", "hadd xs=" + d(35.0), "hsxpfit", "hweifit"]})
        # esl_sxp_cdf() evaluated directly (exact): ordinary points of both branches of the incomplete gamma function, and the parameters for which
        # it cannot be evaluated (tau = 0, inf, NaN; lambda = inf, NaN): NaN since 8c29128 (it was an uninitialised double)
        inf, nan = float("inf"), float("nan")
        pts = [(x, 0.0, lam, tau) for x in (0.0, 1e-9, 0.3, 1.0, 2.5, 10.0, 700.0) for lam in (0.05, 1.0, 3.0) for tau in (0.3, 0.9, 1.0, 2.5)]
        pts += [(2.0, 0.0, 1.0, 0.0), (2.0, 0.0, 1.0, inf), (2.0, 0.0, 1.0, nan), (2.0, 0.0, inf, 0.9), (2.0, 0.0, nan, 0.9), (nan, 0.0, 1.0, 0.9), (inf, 0.0, 1.0, 0.9),
                (2.0, 0.0, 1.0, 1e-300), (2.0, 0.0, 1.0, 1e-5), (2.0, 0.0, 1.0, 300.0), (2.0, 5.0, 1.0, 0.0), (2.0, 0.0, 1.0, -1.0), (1e300, 0.0, 1e300, 0.9)]
        c.append({"name": "sxp-cdf-direct", "sticky": 0, "ops": ["sxpcdf x=%s mu=%s lambda=%s tau=%s" % (d(x), d(m), d(l), d(t)) for (x, m, l, t) in pts]})
        # gev_func / gev_gradient: the censored-data terms alone (no samples), every branch (|alpha*y| < 1e-12, main, out of support on either side)
        gops = ["data xs=-"]
        for al in (1e-14, -1e-13, 0.0, 1e-4, 0.3, -0.2, 5.0, -5.0):
            for (m0, w0, phi) in ((0.0, 0.0, 1.5), (0.0, 0.0, -1.5), (2.0, 1.0, 2.0), (-1.0, -2.0, 40.0)):
                gops.append("gevobj p=%s,%s,%s cens=1 z=%d a=%s" % (d(m0), d(w0), d(al), 7, d(phi)))
        c.append({"name": "gev-censored-terms-alone", "sticky": 1, "ops": gops})
        c.append({"name": "gev-one-sample-on-mu", "sticky": 1, "ops": ["data xs=" + d(2.0)] + ["gevobj p=%s,%s,%s cens=%d z=3 a=%s" % (d(2.0), d(0.5), d(al), cz, d(1.0))
                                                                                  for al in (1e-14, 0.0, 0.3, -0.2) for cz in (0, 1)]})
        # round 6b: exponential TAIL fits (SetTail / SetTailByMass, then esl_exp_FitCompleteBinned) with occupied bins below the threshold, thresholds on a
        # bin boundary / inside a bin / below every value / in the last occupied bin / above every bin (lambda = NaN on both sides), after growth both ways
        gt = grid("exp", 300, 0.0, 0.5, 1.0)
        for k, (bmin_, w_) in enumerate(((0.0, 0.25), (2.0, 0.5), (-3.0, 0.3))):
            for phi_ in (0.0, 1.0, 1.1, 2.0, bmin_ + 7 * w_, max(gt) - 0.01, max(gt) + 5.0, -10.0):
                c.append({"name": "exp-tail-fit-%d-%g" % (k, phi_), "sticky": 1, "exact": False, "ops": [
                    "hnew full=%d bmin=%s bmax=%s w=%s" % (k % 2, d(bmin_), d(bmin_ + 4.0), d(w_)), "hadd xs=" + ",".join(d(x) for x in gt[::-1]),
                    "hadd xs=" + d(-1.0), "hdump", "hsettail phi=" + d(phi_), "hdump", "hexpfit"]})
            c.append({"name": "exp-tail-fit-%d-bymass" % k, "sticky": 1, "ops": [
                "hnew full=1 bmin=%s bmax=%s w=%s" % (d(bmin_), d(bmin_ + 4.0), d(w_)), "hadd xs=" + ",".join(d(x) for x in gt),
                "hsettailmass p=" + d(0.1), "hdump", "hexpfit", "hsettailmass p=" + d(1.0), "hexpfit"]})
        g = grid("exp", 400, 0.0, 0.5, 1.0)
        c.append({"name": "goodness-exp-grid", "sticky": 1, "ops": [
            "hnew full=1 bmin=%s bmax=%s w=%s" % (d(0.0), d(20.0), d(0.25)), "hadd xs=" + ",".join(d(x) for x in g),
            "hexpect cdf=exp c=%s,%s" % (d(0.0), d(0.5)), "hexpdump", "hgood nfitted=0", "hgood nfitted=2", "hplot", "hplotsurv", "hplotqq",
            "hsettail phi=" + d(2.0), "hexptail cdf=exp c=%s,%s base=%s pmass=%s" % (d(0.0), d(0.5), d(2.0), d(0.3678794411714423)), "hexpdump", "hgood nfitted=1", "hplot", "hplotsurv", "hplotqq"]})
        xs = [0.5, 1.0, 1.5, 3.2, 2.5, 7, 7]
        c.append({"name": "fit-basic", "sticky": 1, "ops": ["data xs=" + ",".join(d(x) for x in xs)] + self.fit_ops(xs, None)})
        return c

    # ---------------------------------------------------------------------------------------------
    # generators
    # ---------------------------------------------------------------------------------------------
    def fit_ops(self, xs, rng, kinds=None, lam0=None, mu_known=None):
        d = dbits
        ops = []
        kinds = kinds or ["exp", "expscale", "lognormal", "gumbel", "gumbelloc", "gumbelcens", "gumbelcensloc", "gumbeltrunc", "gamma", "weibull", "sxp"]
        lo = min(xs) if xs else 0.0
        for k in kinds:
            if k == "exp": ops.append("fit kind=exp")
            elif k == "expscale": ops.append("fit kind=expscale a=%s" % d(lo - (abs(lo) * 0.01 if rng and rng.random() < 0.5 else 0.0)))
            elif k == "lognormal":
                if xs and lo > 0: ops.append("fit kind=lognormal")
            elif k == "gumbel": ops.append("fit kind=gumbel")
            elif k == "gumbelloc": ops.append("fit kind=gumbelloc a=%s" % d((lam0 * rng.choice([0.5, 1.0, 1.0, 2.0]) if lam0 else rng.choice([0.1, 0.693, 1.0, 3.0])) if rng else 0.693))
            elif k == "gumbeltrunc": ops.append("fit kind=gumbeltrunc a=%s" % d(lo))
            elif k == "gamma": ops.append("fit kind=gamma a=%s" % d(mu_known if mu_known is not None else (lo - 0.5 * (max(xs) - lo) / max(2, len(xs)) if xs else 0.0)))
            elif k in ("weibull", "sxp", "gev"): ops.append("fit kind=%s" % k)
            elif k == "gevcens": ops.append("fit kind=gevcens z=%d a=%s" % (rng.choice([0, 1, 3, len(xs)]) if rng else 2, d(lo - (rng.choice([0.0, 0.5, 10.0]) if rng else 1.0))))
        return ops

    def hist_case(self, rng, idx, tier):
        d = dbits
        exact = rng.random() < 0.4
        full = 1 if rng.random() < 0.75 else 0
        if exact:
            w = 2.0 ** rng.randrange(-10, 11)
            k0 = rng.randrange(-50, 51)
            bmin = k0 * w
            nb0 = rng.randrange(1, 60)
            bmax = bmin + nb0 * w + rng.choice([0, 0, w / 2, w / 4])
            unit = w / 8
        else:
            w = rng.choice([1e-3, 0.01, 0.1, 0.3, 1.0, 2.5, 10.0, 100.0, 1e3, 10 ** rng.uniform(-3, 3)])
            bmin = rng.choice([0.0, -w * rng.randrange(0, 100), rng.uniform(-100, 100) * w, rng.uniform(-1e3, 1e3)])
            nb0 = rng.randrange(1, 60)
            bmax = bmin + w * (nb0 + rng.random())
            unit = None
        ops = ["hnew full=%d bmin=%s bmax=%s w=%s" % (full, d(bmin), d(bmax), d(w))]
        vals = []            # values the generator believes were accepted (finite, in sane range)
        maxbin = 3000 if tier == "quick" else 200000
        nbatches = rng.randrange(1, 7)
        lo_reach, hi_reach = 0, nb0
        big = (tier != "quick" and rng.random() < 0.1) or (tier == "quick" and idx < 2)
        edge_first = rng.random() < 0.3      # first values only in the lowest / highest existing bin, then growth past it
        for bi in range(nbatches):
            # each batch is centred further out on one side: forces repeated growth in both directions
            side = rng.choice([-1, 1, 0])
            if edge_first and bi == 0:
                edge_bin = rng.choice([0, nb0 - 1])
                x = bmin + (edge_bin * 8 + rng.choice([1, 4, 8])) * (w / 8)
                batch = [x] * rng.choice([1, 1, 2, 5])
                ops.append("hadd xs=" + ",".join(d(v) for v in batch))
                vals += batch
                if rng.random() < 0.5: ops.append("hdump")
                continue
            if edge_first and bi == 1:
                side = rng.choice([-1, 1])
            if side < 0:
                lo_reach = max(-maxbin, lo_reach - rng.choice([1, 2, 5, 17, 100, 1000, lo_reach * -1 + 3]))
                centre = lo_reach
            elif side > 0:
                hi_reach = min(maxbin, hi_reach + rng.choice([1, 2, 5, 17, 100, 1000, hi_reach + 3]))
                centre = hi_reach
            else:
                centre = rng.randrange(lo_reach, hi_reach + 1)
            m = rng.choice([1, 2, 3, 10, 40, 150]) if not big else rng.choice([1000, 4000, 10000])
            batch = []
            spread = rng.choice([0.5, 2, 10, 50])
            for _ in range(m):
                r = rng.random()
                if exact:
                    kk = int(round((centre + rng.gauss(0, spread)) * 8))
                    if r < 0.35: kk = (kk // 8) * 8          # exactly on a bin edge
                    x = bmin + kk * unit
                else:
                    t = centre + rng.gauss(0, spread)
                    if r < 0.15:
                        x = bmin + round(t) * w               # (nearly) on an edge
                        x = rng.choice([x, nextup(x), nextdown(x), nextup(x, 3), nextdown(x, 3)])
                    else:
                        x = bmin + t * w
                if r > 0.9 and vals: x = rng.choice(vals)      # ties
                batch.append(x)
            if rng.random() < 0.12:
                batch.insert(rng.randrange(len(batch) + 1), rng.choice([float("nan"), float("inf"), -float("inf"), 1e300, -1e300, 3e9 * w + bmin, -3e9 * w + bmin, 1e18 * w]))
            ops.append("hadd xs=" + ",".join(d(x) for x in batch))
            vals += [x for x in batch if math.isfinite(x) and abs((x - bmin) / w) < 1e9]
            r = rng.random()
            if r < 0.35: ops.append("hdump")
            elif r < 0.55: ops.append("hscore x=" + d(rng.choice(batch + [float("nan"), 1e300, -3e9 * w, 2147483647.5 * w + bmin, -2147483648.5 * w + bmin,
                                                                    -2147483647.5 * w + bmin, 2147483648.5 * w + bmin, 2147483649.5 * w + bmin])))
            elif r < 0.75 and vals:
                n = len(vals)
                ops.append("hrank r=%d" % rng.choice([1, n, (n + 1) // 2, rng.randrange(1, n + 1), 0, n + 1, -3]))
        ops.append("hdump")
        if rng.random() < 0.2: ops.append("hround")
        # one finishing query / declaration
        xmax_guess = max(vals) if vals else bmax
        sv = sorted(vals)
        def some_phi():
            c = [bmin, bmax]
            if sv:
                v = rng.choice(sv)
                c += [v, nextup(v), nextdown(v), sv[0], sv[-1], nextdown(sv[0]), (sv[0] + sv[-1]) / 2, sv[len(sv) // 2]]
            if exact:
                c += [bmin + rng.randrange(lo_reach * 8, hi_reach * 8 + 1) * unit for _ in range(3)]
            return rng.choice(c)
        nfin = rng.randrange(1, 4)
        for _ in range(nfin):
            r = rng.random()
            if r < 0.2: ops.append("htail phi=" + d(rng.choice([some_phi(), some_phi(), (sv[-1] + 1) if sv else 0.0])))
            elif r < 0.35: ops.append("htailmass p=" + d(rng.choice([0.0, 1.0, 0.5, 0.1, rng.random(), rng.random(), 1.5, -0.1])))
            elif r < 0.55:
                phi = some_phi()
                if phi > max(bmax, xmax_guess): phi = bmax      # stay out of the known SetTail region (phi above the allocated bins)
                ops.append("hsettail phi=" + d(phi))
            elif r < 0.75: ops.append("hsettailmass p=" + d(rng.choice([0.0, 1.0, 0.5, 0.1, 0.01, rng.random(), rng.random()])))
            elif r < 0.88:
                phi = rng.choice([nextdown(sv[0]) if sv else 0.0, sv[0] if sv else 0.0, some_phi(), bmin - w])
                ops.append("hcens z=%d phi=%s" % (rng.choice([0, 1, 5, 1000]), d(phi)))
            elif r < 0.94: ops.append("hdata")
            else: ops.append("hrank r=%d" % rng.choice([1, max(1, len(vals))]))
            ops.append("hdump")
        if rng.random() < 0.6:          # ---- expected counts, goodness of fit, plot tables
            lo_v, hi_v = (sv[0], sv[-1]) if sv else (bmin, bmax)
            mean_v = sum(sv) / len(sv) if sv else (bmin + bmax) / 2
            span = max(hi_v - lo_v, w)
            def some_cdf():
                k = rng.choice(["unif", "unif", "exp", "gumbel"])
                if k == "unif": c = [lo_v - rng.choice([0.0, 0.5, 3.0]) * w, hi_v + rng.choice([0.0, 0.5, 3.0]) * w] if rng.random() < 0.8 else [lo_v + span / 4, hi_v - span / 4]
                elif k == "exp": c = [rng.choice([lo_v, lo_v - w, mean_v]), 1.0 / max(mean_v - lo_v, w / 4)]
                else: c = [mean_v, 2.0 / span]
                if k == "unif" and exact: c = [bmin + round((c[0] - bmin) / unit) * unit, bmin + round((c[1] - bmin) / unit) * unit + unit]
                return "cdf=%s c=%s" % (k, ",".join(d(v) for v in c))
            def some_base():
                return rng.choice([some_phi(), some_phi(), lo_v - w, mean_v, hi_v, hi_v + 3 * w,
                                   bmin - 1e6 * w, bmax + 1e6 * w,                       # far below / above every allocated bin (7d2bcba)
                                   bmin + (lo_reach * 5 - 40) * w, bmin + (hi_reach * 5 + 40) * w])
            if rng.random() < 0.3: ops.append("hexpdump")
            if rng.random() < 0.15:       # a refused base value BEFORE any expected counts exist: expect must stay NULL (6815f41)
                ops.append("hexptail %s base=%s pmass=%s" % (some_cdf(), d(rng.choice([float("nan"), float("inf"), -float("inf"), 1e300, -3e9 * w + bmin])), d(0.5)))
                ops += ["hexpdump", "hgood nfitted=0", "hplot", "hplotsurv"]
            for _ in range(rng.choice([1, 1, 2])):
                if rng.random() < 0.5: ops.append("hexpect " + some_cdf())
                else: ops.append("hexptail %s base=%s pmass=%s" % (some_cdf(), d(some_base()), d(rng.choice([1.0, 0.5, 0.1, 0.01, rng.random()]))))
            if rng.random() < 0.15:       # a refused base value AFTER expected counts exist (they must stay as they are)
                ops.append("hexptail %s base=%s pmass=%s" % (some_cdf(), d(rng.choice([float("nan"), float("inf"), 1e300, -3e9 * w + bmin])), d(0.5)))
            ops.append("hexpdump")
            ops.append("hgood nfitted=%d" % rng.choice([0, 0, 1, 2, 5]))
            ops.append("hplot"); ops.append("hplotsurv"); ops.append("hplotqq")
            if rng.random() < 0.3: ops.append("hdump")
        elif rng.random() < 0.3:
            ops += ["hgood nfitted=0", "hplot", "hplotsurv", "hplotqq"]      # no expected counts: eslEINVAL, one data set
        ops.append("hexpfit")
        if rng.random() < 0.3: ops.append("hweifit")      # modelled: any histogram state, incl. censored / clamped cmin
        if rng.random() < 0.3: ops.append("hgamfit")
        if rng.random() < 0.5:
            ops.append("hadd xs=" + d(some_phi()))
            ops.append("hdump")
        return {"name": "hist%d" % idx, "ops": ops, "sticky": 1, "exact": exact}

    def sample_sets(self, ctx, specs):
        """ask the harness for samples from the library's own samplers (printed as bit patterns, fed back to both sides)"""
        ops = ["sample kind=%s n=%d seed=%d mu=%s lambda=%s tau=%s" % (k, n, seed, dbits(mu), dbits(lam), dbits(tau)) for (k, n, seed, mu, lam, tau) in specs]
        out = run_side(ctx.harness_exe, [{"name": "sample", "ops": ops}], cwd=ctx.work)[0] or []
        res = []
        for l in out:
            if l.startswith("ok "): res.append(parse_xs(l[3:]))
            elif l.startswith(("fault", "atexit")): break
            else: res.append([])
        while len(res) < len(specs): res.append([])
        return res

    def fit_cases(self, ctx, count):
        rng = ctx.rng
        d = dbits
        mus = [-20.0, 0.0, 5.0, 1000.0]
        lams = [0.01, 0.693, 1.0, 50.0]
        taus = [0.5, 0.9, 1.5, 3.0]
        sizes = [2, 3, 5, 10, 30, 100, 300, 1000]
        specs, plans = [], []
        for i in range(count):
            kind = rng.choice(["exp", "gumbel", "weibull", "lognormal", "gamma", "sxp", "gev"])
            n = rng.choice(sizes)
            if (ctx.tier != "quick" and rng.random() < 0.05) or (ctx.tier == "quick" and i == 0): n = 10000
            if ctx.tier != "quick" and i in (1, 2): n = 100000
            mu, lam, tau = rng.choice(mus), rng.choice(lams), rng.choice(taus)
            if kind == "lognormal": mu, lam = rng.choice([0.0, 1.0, -2.0, 5.0]), rng.choice([0.1, 0.5, 1.0, 2.0])
            if kind == "gev": tau = rng.choice([-0.2, 0.1, 0.3])       # shape alpha
            if kind == "gumbel" and rng.random() < 0.85:               # mostly inside exp(-lambda*x)'s normal range (the fit is not shift-invariant)
                mu = rng.choice([-20.0, 0.0, 5.0, 100.0]) if lam < 10 else rng.choice([-5.0, 0.0, 5.0])
            src = "grid" if rng.random() < 0.5 else "sample"
            if src == "grid" and kind in ("gamma", "sxp") and n > 1000: n = 1000      # (pure-python quantiles)
            if src == "sample":
                specs.append((kind, n, rng.randrange(1, 2**31), mu, lam, tau))
            plans.append((kind, n, mu, lam, tau, src))
        samples = self.sample_sets(ctx, specs) if specs else []
        si = 0
        cases = []
        for i, (kind, n, mu, lam, tau, src) in enumerate(plans):
            if src == "grid":
                xs = grid(kind, n, mu, lam, tau)
            else:
                xs = samples[si]; si += 1
                if len(xs) != n: continue
            mod = rng.random()
            tag = src
            meta = {"law": kind, "mu": mu, "lambda": lam, "tau": tau, "src": src, "mod": "none"}
            if mod < 0.12 and kind != "lognormal":
                q = rng.choice([0.1, 0.01, 1.0]) / lam
                xs = [round(x / q) * q for x in xs]; meta["mod"] = "ties"
            elif mod < 0.2:
                k = rng.randrange(1, 4)
                for _ in range(k): xs[rng.randrange(len(xs))] = max(xs) + (max(xs) - min(xs) + 1.0 / lam) * rng.choice([10, 100, 1000])
                meta["mod"] = "outliers"
            elif mod < 0.3 and kind != "lognormal":
                s = rng.choice([1e-6, 1e6, 1e-3, 1e3]); sh = rng.choice([0.0, mu])
                xs = [sh + (x - mu) * s for x in xs]; meta["mod"] = "scale%g" % s; meta["lambda"] = lam / s; meta["mu"] = sh
            elif mod < 0.34:
                xs = [xs[0]] * len(xs); meta["mod"] = "allequal"
            order = rng.random()
            if order < 0.4: rng.shuffle(xs)
            elif order < 0.6: xs = sorted(xs, reverse=True)          # smallest observation last
            elif order < 0.7 and len(xs) > 2:                        # smallest observation last, the rest shuffled
                xs = sorted(xs); m0 = xs.pop(0); rng.shuffle(xs); xs.append(m0)
            ops = ["data xs=" + ",".join(d(x) for x in xs)]
            kinds = {"exp": ["exp", "expscale", "gumbel", "weibull", "sxp"], "gumbel": ["gumbel", "gumbelloc", "gumbelcens", "gumbelcensloc", "gumbeltrunc", "exp", "gev"],
                     "weibull": ["weibull", "exp", "sxp", "gamma"], "lognormal": ["lognormal", "exp", "gumbel"], "gamma": ["gamma", "exp", "weibull"],
                     "sxp": ["sxp", "exp", "weibull"], "gev": ["gev", "gevcens", "gumbel"]}[kind]
            # esl_gam_FitComplete takes the location as known: on the law's own untouched data pass the true one
            mk = meta["mu"] if (kind == "gamma" and meta["mod"] == "none" and all(x > meta["mu"] for x in xs)) else None
            ops += [o for o in self.fit_ops(xs, rng, kinds, meta["lambda"] if kind == "gumbel" else None, mk) if "gumbelcens" not in o and "gumbeltrunc" not in o
                    and not (n > 1000 and kv(o).get("kind") in CG_KINDS)]
            if kind in ("gev", "gumbel") and len(xs) <= 1000:
                # gev_func / gev_gradient evaluated directly (exact comparison) at points that reach every branch: alpha around 0 (|alpha*y| < 1e-12:
                # the Gumbel shortcut), mu ON a sample (y = 0), parameters that push samples out of the support (1 + alpha*y <= 0), censored term
                lam_t = meta["lambda"] if meta["lambda"] > 0 else 1.0
                for _ in range(4):
                    al = rng.choice([0.0, 1e-14, -1e-13, 1e-12 * lam_t, 1e-4, 0.1, 0.3, -0.2, -1.0, 2.0, 1e-9])
                    m0 = rng.choice([meta["mu"], rng.choice(xs), min(xs), max(xs), sum(xs) / len(xs), meta["mu"] - 3.0 / lam_t])
                    w0 = math.log(lam_t * rng.choice([0.5, 1.0, 1.0, 2.0, 1e-3]))
                    cens = rng.random() < 0.4
                    ops.append("gevobj p=%s,%s,%s cens=%d z=%d a=%s" % (d(m0), d(w0), d(al), 1 if cens else 0, rng.choice([0, 1, 7, len(xs)]),
                                                                       d(rng.choice([min(xs), m0, min(xs) - 1.0 / lam_t, m0 - 2.0 / (lam_t * abs(al)) if al else m0]))))
            cases.append({"name": "fit%d-%s-%s-n%d-%s" % (i, kind, src, n, meta["mod"]), "ops": ops, "sticky": 1, "meta": meta})
            if kind == "gumbel" and len(xs) >= 3:
                # censored / truncated variants: censoring fraction 0..0.9, truncation threshold across the support
                sx = sorted(xs)
                for frac in rng.sample([0.0, 0.1, 0.3, 0.5, 0.7, 0.9], 2):
                    cut = int(frac * len(sx))
                    if len(sx) - cut < 2: continue
                    phi = sx[cut - 1] if cut > 0 else nextdown(sx[0])
                    obs = [x for x in sx if x > phi]
                    z = len(sx) - len(obs)
                    if len(obs) < 2: continue
                    if rng.random() < 0.5: rng.shuffle(obs)
                    cops = ["data xs=" + ",".join(d(x) for x in obs),
                            "fit kind=gumbelcens z=%d a=%s" % (z, d(phi)),
                            "fit kind=gumbelcensloc z=%d a=%s b=%s" % (z, d(phi), d(meta["lambda"])),
                            "fit kind=gumbeltrunc a=%s" % d(phi)]
                    cases.append({"name": "fit%d-gumbel-cens%.1f-n%d-%s" % (i, frac, n, meta["mod"]), "ops": cops, "sticky": 1,
                                  "meta": dict(meta, censfrac=frac, z=z, phi=phi)})
            if kind == "gev" and 3 <= len(xs) <= 1000:
                # esl_gev_FitCensored: censoring fraction 0..0.9 of the same data (z values at or below phi removed)
                sx = sorted(xs)
                for frac in rng.sample([0.0, 0.1, 0.3, 0.5, 0.7, 0.9], 2):
                    cut = int(frac * len(sx))
                    phi = sx[cut - 1] if cut > 0 else nextdown(sx[0])
                    obs = [x for x in sx if x > phi]
                    z = len(sx) - len(obs)
                    if len(obs) < 2: continue
                    if rng.random() < 0.5: rng.shuffle(obs)
                    cases.append({"name": "fit%d-gev-cens%.1f-n%d-%s" % (i, frac, n, meta["mod"]), "sticky": 1, "meta": dict(meta, censfrac=frac, z=z, phi=phi, mod="censored"),
                                  "ops": ["data xs=" + ",".join(d(x) for x in obs), "fit kind=gevcens z=%d a=%s" % (z, d(phi)), "fit kind=gev"]})
        # tightly clustered small samples around an offset: Newton/Raphson misses |f| < 1e-5 in 100 steps, the bisection fallback runs
        for j in range(max(6, count // 12)):
            n = rng.choice([2, 2, 3, 4, 5, 8])
            off = rng.choice([-20.0, 5.0, 100.0, 4385.0, 52326.0]); sc = off * 0 + abs(off) * 10 ** rng.uniform(-3.5, -2) if rng.random() < 0.7 else 10 ** rng.uniform(-2, 2)
            xs = [off + sc * rng.gauss(0, 1) for _ in range(n)]
            if rng.random() < 0.3: xs[0] = off + sc * rng.choice([50, -50])
            lo = min(xs)
            ops = ["data xs=" + ",".join(d(x) for x in xs), "fit kind=gumbel", "fit kind=gumbelcens z=%d a=%s" % (rng.choice([0, 1, 5]), d(lo - sc)),
                   "fit kind=gumbelloc a=%s" % d(1 / sc), "fit kind=exp"]
            cases.append({"name": "fit-cluster-%d" % j, "ops": ops, "sticky": 1, "meta": {"law": "none", "mod": "cluster"}})
        # data sets at the boundaries of the quantifier (n = 2, 3; the minimum repeated; censoring z = 0, z = n-1, z >> n), compared exactly
        for j in range(6):
            n = rng.choice([2, 2, 3, 3, 4])
            base = rng.choice([0.0, -20.0, 5.0, 1000.0]); sc = rng.choice([1e-3, 1.0, 1.0, 50.0])
            xs = [base + sc * rng.choice([rng.random(), rng.randrange(1, 9)]) for _ in range(n)]
            if rng.random() < 0.4 and n > 2: xs[1] = xs[0] = min(xs)           # the smallest observation twice
            if len(set(xs)) < 2: xs[-1] = xs[0] + sc
            lo = min(xs)
            ops = ["data xs=" + ",".join(d(x) for x in xs)] + self.fit_ops(xs, rng, ["exp", "expscale", "gumbel", "gumbelloc", "gumbeltrunc", "weibull", "sxp", "gamma", "gev"])
            for zz in (0, n - 1, 1000):
                ops += ["fit kind=gumbelcens z=%d a=%s" % (zz, d(lo - sc * rng.choice([0.0, 1e-9, 1.0]))), "fit kind=gevcens z=%d a=%s" % (zz, d(lo - sc * rng.choice([0.0, 1.0])))]
            cases.append({"name": "fit-boundary-%d-n%d" % (j, n), "ops": ops, "sticky": 1, "meta": {"law": "none", "mod": "boundary"}})
        # degenerate inputs: termination / documented failure status
        for xs in ([], [1.0], [2.0, 2.0], [1.0, 2.0], [0.0, 0.0, 0.0, 1e-300], [1e150, 2e150, 3e150], [-5.0, -4.0, -3.0], [1e-310, 2e-310, 5e-310]):
            # n = 0 is only documented for the exponential and Gumbel fits (eslEINVAL); the others require n > 0
            ks = ["exp", "expscale", "gumbel", "gumbelloc", "gumbeltrunc", "weibull", "sxp", "gamma", "lognormal", "gev", "gevcens"] if xs else ["exp", "gumbel", "gumbelloc", "gumbeltrunc"]
            ops = ["data xs=" + (",".join(d(x) for x in xs) if xs else "-")] + self.fit_ops(xs, rng, ks)
            phi0 = (min(xs) - 1.0) if xs else 0.0
            ops += ["fit kind=gumbelcens z=%d a=%s" % (zz, d(phi0)) for zz in (0, 3)] + ["fit kind=gumbelcensloc z=2 a=%s b=%s" % (d(phi0), d(0.693))]
            cases.append({"name": "fit-degenerate-%d" % len(cases), "ops": ops, "sticky": 1, "meta": {"law": "none", "mod": "degenerate"}})
        return cases

    def binned_cases(self, ctx, count):
        """a data set of a known law collected into a histogram, then the binned fits"""
        rng = ctx.rng; d = dbits
        specs, plans = [], []
        for i in range(count):
            law = rng.choice(["exp", "weibull", "gamma", "sxp"])
            n = rng.choice([300, 1000, 3000])
            mu, lam = rng.choice([0.0, -20.0, 5.0]), rng.choice([0.05, 0.693, 3.0])
            tau = rng.choice([0.7, 1.0, 1.5, 2.5])
            src = "grid" if law in ("exp", "weibull") and rng.random() < 0.5 else "sample"
            if src == "sample": specs.append((law, n, rng.randrange(1, 2**31), mu, lam, tau))
            plans.append((law, n, mu, lam, tau, src))
        samples = self.sample_sets(ctx, specs) if specs else []
        si, out = 0, []
        for i, (law, n, mu, lam, tau, src) in enumerate(plans):
            if src == "grid": xs = grid(law, n, mu, lam, tau)
            else:
                xs = samples[si]; si += 1
                if len(xs) != n: continue
            rng.shuffle(xs)
            w = rng.choice([0.05, 0.2, 0.5]) / lam
            lo, hi = min(xs), max(xs)
            bmin = math.floor(lo / w) * w - rng.choice([0, 1, 3]) * w
            bmax = bmin + w * rng.choice([5, 20, int((hi - bmin) / w) + 2])
            ops = ["hnew full=%d bmin=%s bmax=%s w=%s" % (rng.choice([0, 1]), d(bmin), d(bmax), d(w))]
            for k in range(0, n, 500): ops.append("hadd xs=" + ",".join(d(x) for x in xs[k:k + 500]))
            if rng.random() < 0.3: ops.append("hround")
            ops += ["hdump", "hexpfit", "hweifit", "hgamfit", "hsxpfit"]
            if rng.random() < 0.5:
                ops += ["hsettailmass p=" + d(rng.choice([0.1, 0.3, 0.5])), "hdump", "hexpfit"]
            out.append({"name": "binned%d-%s-%s-n%d" % (i, law, src, n), "ops": ops, "sticky": 1, "exact": False,
                        "meta": {"law": law, "mu": mu, "lambda": lam, "tau": tau, "src": src, "mod": "none", "binned": True}})
        return out

    def count_cases(self, ctx, count):
        """esl_lognormal_FitCountHistogram / esl_gam_FitCountHistogram against the complete-data fit of the expanded data set"""
        rng = ctx.rng; d = dbits; out = []
        for j in range(count):
            n = rng.choice([3, 5, 12, 40, 120])
            mu = rng.choice([0, 0, 0, 1, 3])
            peak = rng.uniform(mu + 1, n); wdt = rng.uniform(0.5, n / 2)
            c = [0.0] * (n + 1)
            for i in range(mu + 1, n + 1):
                c[i] = float(max(0, int(rng.choice([5, 40, 300]) * math.exp(-((i - peak) / wdt) ** 2) + rng.choice([0, 0, 1]))))
            bad = rng.random()
            if bad < 0.08: c[0] = 1.0
            elif bad < 0.14: c[rng.randrange(1, n + 1)] = -1.0
            elif bad < 0.2: c = [0.0] * (n + 1)
            mug = float(mu) if rng.random() > 0.06 else mu + 0.5
            xs = [float(i) for i in range(1, n + 1) for _ in range(int(c[i])) if c[i] > 0]
            ops = ["fitcount kind=lognormal cs=" + ",".join(d(x) for x in c), "fitcount kind=gamma a=%s cs=%s" % (d(mug), ",".join(d(x) for x in c)),
                   "data xs=" + (",".join(d(x) for x in xs) if xs else "-")]
            if xs: ops += ["fit kind=lognormal", "fit kind=gamma a=" + d(float(mu))]
            out.append({"name": "count%d" % j, "ops": ops, "sticky": 0, "meta": {"law": "none", "mod": "count", "mu": mu, "mug": mug, "c": c}})
        return out

    def monitor_count(self, case, ops, out):
        F = lambda w: Failure("monitor", w)
        m = case["meta"]; c = m["c"]; res = {}
        for op, l in zip(ops, out):
            w = l.split(); a = kv(op)
            if op.startswith("fitcount"): res["c" + a["kind"]] = w
            elif op.startswith("fit "): res["x" + a["kind"]] = w
        tot = sum(x for x in c[1:] if x > 0)
        neg = any(x < 0 for x in c[1:])
        distinct = sum(1 for x in c[1:] if x > 0) >= 2          # two distinct values: the property's quantifier
        for kind in ("lognormal", "gamma"):
            w = res.get("c" + kind)
            if not w: continue
            invalid = neg or tot <= 0 or (kind == "lognormal" and c[0] != 0) or \
                      (kind == "gamma" and (m["mug"] != math.floor(m["mug"]) or any(x != 0 for x in c[:int(m["mug"]) + 1]) or not any(x > 0 for x in c[int(m["mug"]) + 1:])))
            if invalid:
                if w[0] != "einval": return F("esl_%s_FitCountHistogram on invalid counts returned %s (documented eslEINVAL)" % (kind, w[0]))
                continue
            x = res.get("x" + kind)
            if w[0] != "ok":
                if x and x[0] == "ok" and tot >= 3 and distinct: return F("esl_%s_FitCountHistogram failed with %s where the fit of the same %d values succeeds" % (kind, w[0], int(tot)))
                continue
            if x and x[0] == "ok" and m["mug"] == m["mu"] and tot >= 3 and distinct:
                for pc, px in zip(w[1:], x[1:]):
                    vc, vx = fbits(pc), fbits(px)
                    if math.isfinite(vx) and abs(vc - vx) > 1e-7 * max(abs(vx), 1e-300) + 1e-12:
                        return F("esl_%s_FitCountHistogram returned %r, the complete-data fit of the expanded data returns %r" % (kind, [fbits(t) for t in w[1:]], [fbits(t) for t in x[1:]]))
        return None


    # ---- solvers: esl_rootfinder.c and esl_minimizer.c driven directly on shared objective families ----------------
    def solver_cases(self, ctx, count):
        rng = ctx.rng; d = dbits
        def bl(v): return ",".join(d(x) for x in v) if v else "-"
        def rnd_scale(): return rng.choice([1e-3, 0.1, 1.0, 1.0, 7.5, 1e3, 1e6])
        out = []
        for k in range(count):
            ops = []
            for _ in range(rng.randint(3, 8)):
                t = rng.random()
                if t < 0.30:      # ---- bisection
                    fam = rng.choice(["poly", "poly", "poly", "exp", "log"])
                    neg = rng.random() < 0.35                    # roots on the negative axis (8354c02)
                    r = rnd_scale() * rng.uniform(0.5, 2.0)
                    if fam == "poly":
                        root = -r if neg else r
                        kind = rng.randrange(4)
                        if kind == 0: c = [-root * rng.choice([1.0, -2.0, 0.5]), 1.0]; c[1] = c[0] / -root
                        elif kind == 1: c = [-(root * root), 0.0, 1.0]                       # x^2 - root^2
                        elif kind == 2: c = [-(root ** 3), 0.0, 0.0, 1.0]
                        else:
                            r2, r3 = root * rng.uniform(3, 5), root * rng.uniform(-4, -2)     # three real roots
                            c = [-root * r2 * r3, root * r2 + root * r3 + r2 * r3, -(root + r2 + r3), 1.0]
                        lo, hi = sorted([root * rng.uniform(0.05, 0.9), root * rng.uniform(1.1, 2.5)])
                    elif fam == "exp":
                        a = rng.choice([0.5, 1.0, -1.0, 2.0]); c = [math.exp(a * r) if abs(a * r) < 600 else 3.0, a]
                        root = r if abs(a * r) < 600 else math.log(3.0) / a
                        lo, hi = sorted([root - rng.uniform(0.1, 3) * abs(root) - 0.1, root + rng.uniform(0.1, 3) * abs(root) + 0.1])
                    else:
                        c = [math.log(r)]; root = r; lo, hi = r * rng.uniform(0.01, 0.9), r * rng.uniform(1.1, 50)
                    u = rng.random()
                    if u < 0.08: lo, hi = hi, lo                                               # reversed bracket
                    elif u < 0.16: hi = lo + (hi - lo) * 1e-3 if fam != "poly" else root * 0.99 if root > 0 else root * 1.01   # may not bracket
                    elif u < 0.20: lo = -abs(hi)                                               # straddles zero
                    elif u < 0.23: c[rng.randrange(len(c))] = rng.choice([float("nan"), float("inf"), -float("inf")])
                    elif u < 0.26: lo = root                                                   # an end point IS the root: fl*fr == 0
                    op = "root meth=bis fam=%s c=%s xl=%s xr=%s" % (fam, bl(c), d(lo), d(hi))
                    v = rng.random()
                    if v < 0.15: op += " maxit=%d" % rng.choice([-1, 0, 1, 2, 5, 30, 53, 200])
                    if v > 0.85: op += " abstol=%s" % d(rng.choice([1e-6, 1e-3, 0.0, 1e-300]))
                    if 0.7 < v < 0.8: op += " reltol=%s" % d(rng.choice([1e-3, 1e-9, 0.0]))
                    if 0.6 < v < 0.7: op += " restol=%s" % d(rng.choice([1e-8, 1e-3, 10.0]))
                    if rng.random() < 0.15: op += " reps=%d" % rng.choice([2, 3])
                    if rng.random() < 0.2: op += " fdf=1"
                    ops.append(op)
                elif t < 0.50:    # ---- Newton/Raphson
                    fam = rng.choice(["poly", "poly", "exp", "log"])
                    r = rnd_scale() * rng.uniform(0.5, 2.0)
                    if rng.random() < 0.35: r = -r
                    if fam == "poly":
                        c = rng.choice([[-r, 1.0], [-(r * r), 0.0, 1.0], [-(r ** 3), 0.0, 0.0, 1.0], [r * r, 0.0, 1.0], [1.0, 0.0, -3.0, 1.0 / (r * r)]])
                        g = r * rng.choice([1.0, 1.001, 0.5, 2.0, 10.0, -1.0, 0.0])
                    elif fam == "exp":
                        a = rng.choice([0.5, 1.0, -1.0]); r = max(-300.0, min(300.0, r)); c = [math.exp(a * r), a]; g = r + rng.uniform(-2, 2)
                    else:
                        r = abs(r); c = [math.log(r)]; g = r * rng.choice([0.5, 0.9, 1.0, 1.5, 3.0])   # 3.0: steps to a negative x -> NaN
                    op = "root meth=newton fam=%s c=%s guess=%s" % (fam, bl(c), d(g))
                    v = rng.random()
                    if v < 0.15: op += " maxit=%d" % rng.choice([-1, 0, 1, 2, 5, 30, 200])
                    if v > 0.85: op += " abstol=%s" % d(rng.choice([1e-6, 1e-3, 0.0]))
                    if 0.7 < v < 0.8: op += " reltol=%s" % d(rng.choice([1e-3, 1e-9, 0.0]))
                    if 0.6 < v < 0.7: op += " restol=%s" % d(rng.choice([1e-8, 1e-3]))
                    if rng.random() < 0.15: op += " reps=2"
                    ops.append(op)
                elif t < 0.64:    # ---- minimiser on the negative log-likelihood of generated data (Weibull = wei_func, gamma, stretched exponential)
                    fam = rng.choice(["weinll", "weinll", "gamnll", "gamnll", "sxpnll"])
                    n = rng.choice([10, 20, 50, 120, 300]); lam = rnd_scale(); tau = rng.choice([0.5, 0.8, 1.0, 1.5, 2.5, 4.0]); mu0 = rng.choice([0.0, 0.0, -20.0, 5.0])
                    if fam == "gamnll": xs = [mu0 + rng.gammavariate(tau, 1.0 / lam) for _ in range(n)]
                    elif fam == "weinll": xs = [mu0 + rng.weibullvariate(1.0 / lam, tau) for _ in range(n)]
                    else: xs = [mu0 + rng.gammavariate(1.0 / tau, 1.0) ** (1.0 / tau) / lam for _ in range(n)]
                    if rng.random() < 0.15: xs[rng.randrange(n)] = xs[rng.randrange(n)]            # a tie
                    mu = min(xs) if rng.random() < 0.6 else min(xs) - rng.choice([1e-9, 1e-3, 0.5]) / lam    # pinned to the smallest sample (as the fits do) or below
                    if rng.random() < 0.08: mu = sorted(xs)[1] if rng.random() < 0.5 else float("nan")    # a sample below mu / NaN: the objective is not finite at the start (137d847)
                    mean = sum(xs) / n
                    u = rng.random()
                    if u < 0.5: x0 = [math.log(1.0 / (mean - mu)), math.log(0.9)]                     # the fits' own start
                    elif u < 0.7: x0 = [math.log(lam), math.log(tau)]                                 # the generating parameters
                    elif u < 0.8: x0 = [math.log(lam), 0.0]                                           # tau == 1 exactly
                    else: x0 = [math.log(lam) + rng.uniform(-3, 3), math.log(tau) + rng.uniform(-1.5, 1.5)]
                    cfg = ""
                    if rng.random() < 0.4:
                        cfg = " cfg=create"
                        if rng.random() < 0.4: cfg += " maxit=%d" % rng.choice([0, 1, 2, 5, 20, 500])
                        if rng.random() < 0.2: cfg += " brackmax=%d" % rng.choice([0, 1, 3, 10])
                        if rng.random() < 0.3: cfg += " u=%s" % bl([rng.choice([2.0, 0.1, 1.0]) for _ in range(2)])
                        if rng.random() < 0.2: cfg += " cgrtol=%s" % d(rng.choice([1e-4, 1e-8, 1e-2]))
                        if rng.random() < 0.15: cfg += " dstep=%s" % d(rng.choice([1e-4, 1e-6, 1e-2]))
                    ops.append("data xs=%s" % bl(xs))
                    ops.append("cgd fam=%s p=%s x0=%s%s%s" % (fam, d(mu), bl(x0), cfg, " nodat=1" if rng.random() < 0.1 else ""))
                else:             # ---- minimiser: cgd / bracket / brent
                    fam = rng.choice(["quad", "quad", "rosen", "explin", "logbar", "needle"])
                    n = 2 if fam == "rosen" else rng.choice([1, 1, 2, 2, 3, 4, 6])
                    sc = rng.choice([1e-2, 1.0, 1.0, 30.0])
                    b = [rng.uniform(-3, 3) * sc for _ in range(n)]
                    if fam == "quad":
                        a = [rng.choice([1.0, 0.25, 3.0, 1e-3, 1e3, rng.uniform(0.1, 10)]) for _ in range(n)]
                        if rng.random() < 0.08: a[rng.randrange(n)] = rng.choice([0.0, -1.0])          # flat / unbounded direction
                        p = a + b
                    elif fam == "rosen": p = [rng.choice([1.0, 10.0, 100.0])]
                    elif fam == "explin":
                        a = [rng.choice([1.0, 0.5, -1.0, 2.0]) for _ in range(n)]
                        p = a + [ai * math.exp(ai * bi / max(1.0, sc)) for ai, bi in zip(a, b)]        # minimum at x_i = b_i/max(1,sc)
                    elif fam == "logbar": p = [rng.uniform(0.5, 5) for _ in range(n)]
                    else: p = [rng.uniform(0.5, 2) for _ in range(n)] + b + [rng.choice([1.0, 0.01, 100.0])]
                    if fam == "logbar":
                        x0 = [rng.uniform(0.05, 9) for _ in range(n)]
                        if rng.random() < 0.12: x0[rng.randrange(n)] = rng.choice([-1.0, 0.0, -1e-9])    # not finite AT the start point: eslERANGE returned (137d847)
                    elif fam == "rosen": x0 = rng.choice([[-1.2, 1.0], [0.0, 0.0], [1.0, 1.0], [3.0, -2.0]])
                    elif rng.random() < 0.12: x0 = list(b)                                            # start AT the optimum
                    else: x0 = [bi + rng.uniform(-2, 2) * sc for bi in b]
                    cfg = ""
                    if rng.random() < 0.45:
                        cfg = " cfg=create"
                        if rng.random() < 0.4: cfg += " maxit=%d" % rng.choice([0, 1, 2, 5, 20, 500])
                        if rng.random() < 0.25: cfg += " brackmax=%d" % rng.choice([0, 1, 3, 10])
                        if rng.random() < 0.3: cfg += " u=%s" % bl([rng.choice([2.0, 0.1, 1.0, 10.0]) for _ in range(n)])
                        if rng.random() < 0.2: cfg += " cgrtol=%s" % d(rng.choice([1e-4, 1e-8, 1e-2]))
                        if rng.random() < 0.15: cfg += " brtol=%s batol=%s" % (d(rng.choice([1e-3, 1e-6, 0.1])), d(rng.choice([1e-8, 1e-12, 1e-3])))
                        if rng.random() < 0.15: cfg += " dstep=%s" % d(rng.choice([1e-4, 1e-6, 1e-2]))
                    w = rng.random()
                    if w < 0.55:
                        ops.append("cgd fam=%s p=%s x0=%s%s%s%s" % (fam, bl(p), bl(x0), " grad=1" if fam == "quad" and rng.random() < 0.5 else "", cfg,
                                                                      " nodat=1" if rng.random() < 0.1 else ""))
                    else:
                        dvec = [rng.choice([1.0, -1.0, 0.5, 3.0, rng.uniform(-2, 2)]) for _ in range(n)]
                        if rng.random() < 0.05: dvec[rng.randrange(n)] = rng.choice([float("nan"), float("inf")])
                        if w < 0.78:
                            first = rng.choice([1.0, 1.0, -1.0, 0.1, 10.0, 1e-6, 1e3]) * rng.uniform(0.5, 2)
                            if rng.random() < 0.04: first = rng.choice([0.0, float("nan"), float("inf")])
                            ops.append("bracket fam=%s p=%s ori=%s d=%s first=%s%s" % (fam, bl(p), bl(x0), bl(dvec), d(first), cfg))
                        else:
                            a_, b_ = sorted([rng.uniform(-5, 0.5) * sc, rng.uniform(0.5, 9) * sc])
                            u = rng.random()
                            if u < 0.06: a_, b_ = b_, a_
                            elif u < 0.10: b_ = rng.choice([float("inf"), float("nan")])
                            elif u < 0.13: b_ = a_
                            ops.append("brent fam=%s p=%s ori=%s d=%s a=%s b=%s%s" % (fam, bl(p), bl(x0), bl(dvec), d(a_), d(b_), cfg))
            out.append({"name": "solver-%d" % k, "sticky": 0, "meta": {"mod": "solver"}, "ops": ops})
        return out

    @staticmethod
    def _rf(fam, c, x):
        c = list(c) + [0.0] * 4
        try:
            if fam == "poly": return ((c[3] * x + c[2]) * x + c[1]) * x + c[0]
            if fam == "exp": return math.exp(c[1] * x) - c[0]
            return math.log(x) - c[0] if x > 0 else float("nan")
        except (OverflowError, ValueError):
            return float("nan")

    @staticmethod
    def _obj(fam, p, x):
        """python replica (same operation order) of the libm-free objective families; None for the others"""
        n = len(x); P = lambda i: p[i] if 0 <= i < len(p) else 0.0
        if fam == "quad":
            fx = 0.0
            for i in range(n): fx += P(i) * (x[i] - P(n + i)) * (x[i] - P(n + i))
            return fx
        if fam == "rosen":
            t1 = 1.0 - x[0]; t2 = (x[1] if n > 1 else 0.0) - x[0] * x[0]
            return t1 * t1 + P(0) * t2 * t2
        if fam == "needle":
            fx = 0.0; same = True
            for i in range(n):
                fx += 2.0 * P(i) * (x[i] - P(n + i)) if x[i] > P(n + i) else P(i) * (P(n + i) - x[i])
                if not x[i] == P(n + i): same = False
            return fx if same else fx + P(2 * n)
        return None

    def monitor_solver(self, case, ops, out):
        """what the documentation of esl_rootfinder.c / esl_minimizer.c promises, checked on the implementation's answers"""
        self._solver = getattr(self, "_solver", {})
        for op, l in zip(ops, out):
            a = kv(op); name = op.split()[0]
            if l == "bad-op": continue
            if name == "root":
                c = parse_xs(a["c"]); fam = a["fam"]
                for part in l.split(" | "):
                    st = part.split()[0]; r = kv("x " + part)
                    self._solver["root:" + a["meth"] + ":" + st] = self._solver.get("root:" + a["meth"] + ":" + st, 0) + 1
                    if a["meth"] == "bis":
                        if st not in ("ok", "einval", "enohalt"): return Failure("monitor", "esl_root_Bisection: undocumented status %s" % st)
                        lo, hi = fbits(a["xl"]), fbits(a["xr"]); x = fbits(r["x"]); fl, fr = self._rf(fam, c, lo), self._rf(fam, c, hi)
                        if st != "ok" and x != 0.0: return Failure("monitor", "esl_root_Bisection: *ret_x not 0 on failure")
                        fin = all(math.isfinite(v) for v in c + [lo, hi, fl, fr])
                        if fin and abs(fl * fr) > 1e-280:
                            if (fl * fr > 0) != (st == "einval"): return Failure("monitor", "esl_root_Bisection: eslEINVAL iff the end points do not bracket a root, got %s" % st)
                        if st == "ok" and fin and lo < hi:
                            xl, xr = fbits(r["xl"]), fbits(r["xr"])
                            if not (lo <= xl <= x <= xr <= hi): return Failure("monitor", "esl_root_Bisection: root or final bracket outside the caller's bracket")
                            fa, fb = self._rf(fam, c, xl), self._rf(fam, c, xr)
                            if fam == "poly" and fa * fb > 0: return Failure("monitor", "esl_root_Bisection: the final bracket has no sign change")
                        if (st == "enohalt" and fin and lo < hi and fl * fr < 0 and "maxit" not in a and "reps" not in a
                                and not any(k in a for k in ("abstol", "reltol", "restol"))):
                            # "The bisection method is guaranteed to succeed, provided that xl,xr do indeed bracket a root"
                            return Failure("monitor", "esl_root_Bisection fails (eslENOHALT) on a valid bracket [%r, %r] with the default tolerances" % (lo, hi))
                    else:
                        if st not in ("ok", "enohalt"): return Failure("monitor", "esl_root_NewtonRaphson: undocumented status %s" % st)
                        if st == "enohalt" and "maxit" not in a and "reps" not in a and not any(k in a for k in ("abstol", "reltol", "restol")):
                            x, x0 = fbits(r["x"]), fbits(r["x0"])
                            if math.isfinite(x) and x != 0 and abs(x - x0) <= 4e-16 * abs(x):      # converged to the last bit, yet "failed to converge"
                                return Failure("monitor", "esl_root_NewtonRaphson fails (eslENOHALT) although the iterates agree to the last bit at x=%r" % x)
            elif name == "cgd":
                st = l.split()[0]
                self._solver["cgd:" + st] = self._solver.get("cgd:" + st, 0) + 1
                if st.startswith("fault"): continue
                if st not in ("ok", "enohalt", "erange", "enoresult"): return Failure("monitor", "esl_min_ConjugateGradientDescent: undocumented status %s" % st)
                r = kv(l); fx = fbits(r["fx"])
                if st in ("erange", "enoresult") and fx != math.inf: return Failure("monitor", "esl_min_ConjugateGradientDescent: *opt_fx must be +inf on a thrown exception")
                if "it" in r:           # the ESL_MIN_DAT table of the run
                    it = int(r["it"]); maxit = int(a.get("maxit", 100)) if a.get("cfg") == "create" else 100
                    brackmax = int(a.get("brackmax", 100)) if a.get("cfg") == "create" else 100
                    nvar = len(parse_xs(a["x0"])); g = 0 if (a.get("grad") == "1" and a["fam"] == "quad") else 2 * nvar
                    ints = lambda t: [] if t == "-" else [int(v) for v in t.split(",")]
                    bn, rn, nf = ints(r["bn"]), ints(r["rn"]), ints(r["nf"])
                    if it > max(maxit, 0): return Failure("monitor", "esl_min_ConjugateGradientDescent: %d iterations with max_iterations = %d" % (it, maxit))
                    if st == "enohalt" and it != max(maxit, 0): return Failure("monitor", "esl_min_ConjugateGradientDescent: eslENOHALT after %d of %d iterations" % (it, maxit))
                    if not (len(bn) == len(rn) == len(nf) == it): return Failure("monitor", "ESL_MIN_DAT: table length differs from niter")
                    if any(b > brackmax for b in bn): return Failure("monitor", "bracket(): more than brack_maxiter rounds")
                    if int(r["nf0"]) != 1 + g or any(f != b + 3 + q + 1 + g for f, b, q in zip(nf, bn, rn)):
                        return Failure("monitor", "ESL_MIN_DAT: nfunc is not the number of objective evaluations (bracket niter+3, brent niter+1, numeric gradient 2n)")
                    self._solver["cgd:iterations"] = self._solver.get("cgd:iterations", 0) + it
                    if r["mono"] == "0": self._solver["cgd:fx-trace-not-monotone"] = self._solver.get("cgd:fx-trace-not-monotone", 0) + 1
                if st == "enohalt":
                    v = self._obj(a["fam"], parse_xs(a["p"]), parse_xs(r["x"]))
                    if v is not None and v != fx and not (math.isnan(v) and math.isnan(fx)):
                        return Failure("monitor", "esl_min_ConjugateGradientDescent: eslENOHALT, *opt_fx (%r) is not the objective at the returned point (%r)" % (fx, v))
                if st == "ok":
                    if not math.isfinite(fx): return Failure("monitor", "esl_min_ConjugateGradientDescent: eslOK with a non-finite minimum")
                    x = parse_xs(r["x"]); v = self._obj(a["fam"], parse_xs(a["p"]), x)
                    if v is not None and v != fx: return Failure("monitor", "esl_min_ConjugateGradientDescent: *opt_fx (%r) is not the objective at the returned point (%r)" % (fx, v))
                    v0 = self._obj(a["fam"], parse_xs(a["p"]), parse_xs(a["x0"]))
                    if v0 is not None and fx > v0: self._solver["cgd:ok-but-worse-than-start"] = self._solver.get("cgd:ok-but-worse-than-start", 0) + 1
            elif name == "bracket":
                st = l.split()[0]
                self._solver["bracket:" + st] = self._solver.get("bracket:" + st, 0) + 1
                if st not in ("ok", "enoresult"): return Failure("monitor", "bracket(): undocumented status %s" % st)
                if st == "ok":
                    r = kv(l); ax, bx, cx, fa, fb, fc = (fbits(r[k]) for k in ("ax", "bx", "cx", "fa", "fb", "fc"))
                    first = fbits(a["first"])
                    if all(math.isfinite(v) for v in (ax, bx, cx, fa, fb, fc)) and first != 0.0:
                        if not (ax < bx < cx): return Failure("monitor", "bracket(): returned points not in order a < b < c")
                        if not (fb <= fa and fb <= fc): return Failure("monitor", "bracket(): f(b) is not the smallest of the three values")
            elif name == "brent":
                self._solver["brent"] = self._solver.get("brent", 0) + 1
        return None

    def cases(self, ctx):
        rng = ctx.rng
        nh = 700 if ctx.tier == "quick" else 4000
        nf = 240 if ctx.tier == "quick" else 1500
        out = [self.hist_case(rng, i, ctx.tier) for i in range(nh)]
        out += self.fit_cases(ctx, nf)
        nfit = len(out) - nh
        out += self.binned_cases(ctx, 60 if ctx.tier == "quick" else 300)
        out += self.count_cases(ctx, 40 if ctx.tier == "quick" else 400)
        ns = len(out)
        out += self.solver_cases(ctx, 220 if ctx.tier == "quick" else 2000)
        self._nsolver = len(out) - ns
        self._dist = {"hist_cases": nh, "fit_cases": nfit, "binned_fit_cases": len(out) - nh - nfit}
        return out

    # ---------------------------------------------------------------------------------------------
    # monitors (on implementation output only)
    # ---------------------------------------------------------------------------------------------
    def monitor(self, ctx, case, out):
        if case.get("known_key"):
            return None
        ops = case["ops"]
        for i, l in enumerate(out):
            if l.startswith(("fault ", "atexit ")):
                op = ops[i] if i < len(ops) else ""
                if "signal:14" in l or l.startswith("fault hang"):     # the harness watchdog (alarm) fired
                    return Failure("fault", "%s does not terminate" % op[:60])
                return Failure("fault", "implementation died: %s at %r" % (l, op[:60]))
        if ops and ops[0].startswith("hnew"):
            return self.monitor_hist(case, ops, out)
        if case.get("meta", {}).get("mod") == "count":
            return self.monitor_count(case, ops, out)
        if case.get("meta", {}).get("mod") == "solver":
            return self.monitor_solver(case, ops, out)
        if ops and ops[0].startswith("data"):
            return self.monitor_fit(case, ops, out)
        return None

    # ---- histogram ------------------------------------------------------------------------------
    def monitor_hist(self, case, ops, out):
        F = lambda w: Failure("monitor", w)
        exact = case.get("exact", False)
        a0 = kv(ops[0])
        full = a0.get("full") == "1"
        if not out or not out[0].startswith("ok"):
            return None
        vals = []          # accepted values in order
        done = False
        last_dump = None
        name = ""
        for op, l in zip(ops[1:], out[1:]):
            if l.startswith(("fault", "atexit")):
                return None      # reported by the engine as a fault
            prev_name, name = name, op.split()[0]
            a = kv(op)
            if name == "hadd":
                xs = parse_xs(a["xs"])
                st = l[3:] if l.startswith("st=") else ""
                if len(st) != len(xs): return F("hadd answered %r for %d values" % (l[:40], len(xs)))
                for x, s in zip(xs, st):
                    if s == "o":
                        if done: return F("Add accepted a value after the histogram was declared finished")
                        if not math.isfinite(x): return F("Add accepted the non-finite value %r" % x)
                        vals.append(x)
                    elif s == "i":
                        if not done: return F("Add refused %r with eslEINVAL on an unfinished histogram" % x)
                    elif s == "r":
                        if done: return F("Add on a finished histogram returned eslERANGE, documented eslEINVAL")
                    elif s == "m":
                        pass
                    else:
                        return F("Add returned an undocumented status for %r" % x)
            elif name == "hdump":
                if not l.startswith("ok"): return F("dump failed: " + l[:60])
                f = self.check_dump(kv(l), vals, exact, full)
                if f: return F(f + " [after %d accepted values]" % len(vals))
                last_dump = kv(l)
            elif name == "hscore":
                x = fbits(a["x"])
                if not math.isfinite(x) and not l.startswith("erange"):
                    return F("Score2Bin(%r) returned %r, documented eslERANGE" % (x, l))
            elif name == "hrank":
                r = int(a["r"])
                if not full or r < 1 or r > len(vals):
                    if not l.startswith("einval"): return F("GetRank(%d) with n=%d full=%s returned %r" % (r, len(vals), full, l))
                else:
                    want = sorted(vals)[len(vals) - r]
                    if l != "ok " + dbits(want): return F("GetRank(%d) = %s, the sorted raw data say %s" % (r, l, dbits(want)))
            elif name in ("htail", "htailmass", "hdata"):
                if not full:
                    if not l.startswith("einval"): return F("%s on a display-only histogram returned %r" % (name, l))
                    continue
                sv = sorted(vals)
                if name == "htail":
                    phi = fbits(a["phi"]); tail = [x for x in sv if x > phi]
                elif name == "htailmass":
                    p = fbits(a["p"])
                    if p < 0 or p > 1:
                        if not l.startswith("einval"): return F("GetTailByMass(%r) returned %r" % (p, l))
                        continue
                    k = int(len(sv) * p); tail = sv[len(sv) - k:] if k else []
                else:
                    tail = sv
                o = kv(l)
                if not l.startswith("ok"): return F("%s returned %r" % (name, l))
                done = True
                if int(o["n"]) != len(tail) or int(o["z"]) != len(sv) - len(tail):
                    return F("%s: n=%s z=%s, the sorted raw data give n=%d z=%d" % (op[:40], o["n"], o["z"], len(tail), len(sv) - len(tail)))
                if tail and (o["first"] != dbits(tail[0]) or o["last"] != dbits(tail[-1])):
                    return F("%s: tail runs %s..%s, the sorted raw data say %s..%s" % (op[:40], o["first"], o["last"], dbits(tail[0]), dbits(tail[-1])))
                if not any(x == 0 for x in tail) and o["hash"] != fnv_bits(tail):
                    return F("%s: returned tail is not the sorted raw data above the threshold" % op[:40])
            elif name == "hcens":
                phi = fbits(a["phi"])
                xmin = min(vals) if vals else 1.7976931348623157e308
                if phi > xmin:
                    if not l.startswith("einval"): return F("DeclareCensoring(phi=%r) above the smallest value %r returned %r" % (phi, xmin, l))
                else:
                    if l != "ok": return F("DeclareCensoring returned %r" % l)
                    done = True
            elif name in ("hexpect", "hexptail"):
                if l.startswith("ok"): done = True
                if name == "hexpect" and l != "ok": return F("SetExpect returned %r" % l)
                if name == "hexptail":
                    base = fbits(a["base"])
                    if l not in ("ok", "erange"): return F("SetExpectedTail returned the undocumented status %r" % l)
                    if not math.isfinite(base) and l != "erange": return F("SetExpectedTail(base_val=%r) returned %r" % (base, l))
            elif name == "hexpdump":
                r = kv(l)
                self._hstat = getattr(self, "_hstat", {})
                if l.startswith("ok nb="):
                    k = "emin:" + ("sentinel" if r["emin"] == "-1" else "0" if r["emin"] == "0" else "nb" if r["emin"] == r["nb"] else "inside")
                    self._hstat[k] = self._hstat.get(k, 0) + 1
                if l.startswith("ok nb="):
                    if not (-1 <= int(r["emin"]) <= int(r["nb"])): return F("emin = %s outside -1..nb = %s: consumers index expect[emin..]" % (r["emin"], r["nb"]))
            elif name == "hgood":
                st = l.split()[0]; r = kv(l)
                self._hstat = getattr(self, "_hstat", {}); self._hstat["goodness:" + st] = self._hstat.get("goodness:" + st, 0) + 1
                if st not in ("ok", "enoresult", "einval", "enohalt", "erange"): return F("Goodness returned the undocumented status %r" % st)
                if st == "ok":
                    gp, xp = fbits(r["Gp"]), fbits(r["X2p"])
                    for nm, pv in (("G", gp), ("X2", xp)):
                        if not math.isnan(pv) and not (-1e-9 <= pv <= 1 + 1e-9): return F("Goodness: %s-test p-value %r outside [0,1]" % (nm, pv))
                    if int(r["nbins"]) < 2: return F("Goodness: eslOK with %s bins (no degree of freedom)" % r["nbins"])
                    if int(r["nbins"]) > max(1, len(vals)): return F("Goodness: %s re-bins for %d values (each re-bin holds at least one)" % (r["nbins"], len(vals)))
                elif st != "einval" and (int(r["nbins"]), fbits(r["G"]), fbits(r["Gp"]), fbits(r["X2"]), fbits(r["X2p"])) != (0, 0.0, 1.0, 0.0, 1.0):
                    return F("Goodness: failure status %s without the documented (0, 0, 1, 0, 1) answers" % st)
            elif name == "hplot":
                if not l.startswith("ok"): return F("Plot failed: %r" % l)
                r = kv(l)
                if int(r["sum"]) != len(vals): return F("Plot: the observed data set sums to %s, %d values were accepted" % (r["sum"], len(vals)))
            elif name == "hplotsurv":
                if not l.startswith("ok"): return F("PlotSurvival failed: %r" % l)
                r = kv(l)
                if r["cum"] != "-" and int(r["cum"]) != len(vals): return F("PlotSurvival: the last cumulative count is %s, %d values were accepted" % (r["cum"], len(vals)))
            elif name == "hplotqq":
                if not l.startswith("ok"): return F("PlotQQ failed: %r" % l)
                r = kv(l)
                if r["cum"] != "-" and last_dump and not (0 <= int(r["cum"]) <= int(last_dump["nc"])): return F("PlotQQ: observed cdf outside [0,1] (count %s of Nc=%s)" % (r["cum"], last_dump["nc"]))
            elif name in ("hsettail", "hsettailmass"):
                if l.startswith("ok"): done = True
            elif name == "hround":
                pass
            elif name in ("hexpfit", "hweifit", "hgamfit", "hsxpfit") and case.get("meta", {}).get("binned") and last_dump:
                f = self.check_binned_fit(name, l, last_dump, case["meta"])
                if f: return F(f)
            elif name == "hexpfit" and prev_name == "hdump" and last_dump and last_dump.get("ds") == "virtual" and l.startswith("ok "):
                # round 6b (theorem exp_tail_fit_is_ml_of_the_raw_tail): a TAIL fit uses exactly the accepted values above the threshold:
                # location = phi, lambda = (1/w)(log(S + N w) - log S) with N counted on the RAW data, S over the bins cmin..imax
                f = self.check_exp_tail_fit(l, last_dump, vals)
                if f: return F(f)
        # cross-op checks that need the dump following a declaration
        return self.check_declarations(ops, out, exact, vals)

    def check_exp_tail_fit(self, l, o, vals):
        w_ = l.split()
        try:
            mu, lam = fbits(w_[1]), fbits(w_[2])
            phi, bw, bmin = fbits(o["phi"]), fbits(o["w"]), fbits(o["bmin"])
            cmin, imax = int(o["cmin"]), int(o["imax"])
        except Exception:
            return None
        if w_[1] != o["phi"]: return "exponential tail fit returned mu=%r, the declared threshold is phi=%r" % (mu, phi)
        N = sum(1 for x in vals if x > phi)
        S, Nb = 0.0, 0
        if o["obs"] != "-":
            for t in o["obs"].split(","):
                b, c = int(t.split(":")[0]), int(t.split(":")[1])
                if cmin <= b <= imax: S += c * ((bw * b + bmin) - phi); Nb += c
        if Nb != N:       # (values within rounding distance of the boundary are layer L0: only flagged when the boundary is not a data value's neighbour)
            if all(abs(x - phi) > 1e-9 * (abs(phi) + bw) for x in vals): return "tail fit: bins cmin..imax hold %d values, %d accepted values lie above phi=%r" % (Nb, N, phi)
            return None
        if N == 0 or not (S > 0.0) or not math.isfinite(S): return None
        want = (1.0 / bw) * (math.log(S + N * bw) - math.log(S))
        if not math.isfinite(want): return None
        if not (abs(lam - want) <= 1e-9 * abs(want) + 1e-300):
            return "exponential tail fit: lambda=%r, the ML rate of the %d accepted values above phi=%r is %r" % (lam, N, phi, want)
        return None

    def check_binned_fit(self, name, l, o, meta):
        """binned fits on a histogram of a known law: documented status; location as documented; the returned (lambda, tau) is a local
        maximum of the routine's objective (pattern search on an independent evaluation); parameters recovered on the law's own data"""
        w = l.split()
        st = w[0]
        if st not in ("ok", "einval", "enohalt", "erange", "enoresult"): return "%s returned the undocumented status %s" % (name, st)
        own = meta.get("law") in {"hexpfit": ("exp",), "hweifit": ("weibull", "exp"), "hgamfit": ("gamma", "exp"), "hsxpfit": ("sxp", "exp")}[name]
        if st != "ok":
            # on binned data of its own law (>= 300 values, >= 5 occupied bins, complete data) a binned fit has to succeed
            nocc = 0 if o["obs"] == "-" else o["obs"].count(":")
            if own and o["ds"] == "complete" and nocc >= 5 and int(o["n"]) >= 300:
                return "%s failed with %s on %s binned values of %s(mu=%r, lambda=%r, tau=%r)" % (name, st, o["n"], meta["law"], meta["mu"], meta["lambda"], meta["tau"])
            return None
        ps = [fbits(t) for t in w[1:]]
        bmin, bw = fbits(o["bmin"]), fbits(o["w"])
        obs = {}
        if o["obs"] != "-":
            for t in o["obs"].split(","):
                i, c = t.split(":"); obs[int(i)] = int(c)
        if len(obs) < 3: return None
        cmin, imin, imax = int(o["cmin"]), int(o["imin"]), int(o["imax"])
        n = sum(c for b, c in obs.items() if b >= cmin)
        if o["ds"] == "complete":
            mu_doc = (bw * imin + bmin) if o["rounded"] == "1" else fbits(o["xmin"])
        else:
            mu_doc = fbits(o["phi"])
        if ps[0] != mu_doc: return "%s: mu=%r, documented location %r" % (name, ps[0], mu_doc)
        if not all(math.isfinite(x) for x in ps): return None      # all data in one bin etc.: documented (lambda = inf)
        mu = ps[0]
        bins = [(c, bw * b + bmin, bw * (b + 1) + bmin) for b, c in sorted(obs.items()) if b >= cmin]
        law_ok = meta.get("law") in {"hexpfit": ("exp",), "hweifit": ("weibull", "exp"), "hgamfit": ("gamma", "exp"), "hsxpfit": ("sxp", "exp")}[name]
        cal = self.__dict__.setdefault("_calib", {})
        if name == "hexpfit":
            lam = ps[1]
            # ML for binned exponential data of equal width: closed form; check against the binned likelihood
            ll = lambda la: ll_binned(lambda x, m, a, t: (-math.expm1(-a * (x - m)) if x > m else 0.0), bins, mu, la, 1.0)
            # (esl_exp_FitCompleteBinned is modelled exactly and compared by the differential run; its closed form treats the lowest
            #  bin as starting at mu, so it is not the maximiser of the exact binned likelihood - only recovery is monitored here)
            if not lam > 0: return None
            # recovery only where the documented approximations are negligible: narrow bins, mu not rounded down to a bin bound
            if law_ok and o["ds"] == "complete" and o["rounded"] == "0" and bw * meta["lambda"] <= 0.06 and abs(lam / meta["lambda"] - 1) > 0.25:
                return "%s on %s data (lambda=%r) returned lambda=%r" % (name, meta["law"], meta["lambda"], lam)
            return None
        lam, tau = ps[1], ps[2]
        if not (lam > 0 and tau > 0): return "%s returned eslOK with lambda=%r tau=%r" % (name, lam, tau)
        if name == "hgamfit":
            # the routine fits the gamma by ML to the bin midpoints of bins cmin+1..imax (its documented approximation)
            pts = [(c, bw * b + bmin + 0.5 * bw) for b, c in sorted(obs.items()) if b > cmin]
            if len(pts) < 3 or any(v <= mu for _, v in pts): return None
            ll = lambda la, ta: ll_gamma_weighted(pts, mu, la, ta); rt = 1e-6
        elif name == "hweifit":
            ll = lambda la, ta: ll_binned(cdf_weibull, bins, mu, la, ta); rt = 1e-5
        else:
            ll = lambda la, ta: ll_binned(cdf_sxp, bins, mu, la, ta); rt = 2e-5
        base, best, bp = pattern_search(ll, [lam, tau], [lam, tau])
        if not math.isfinite(base): return None
        ratio = (best - base) / (abs(base) + n); cal[name] = max(cal.get(name, 0.0), ratio)
        if ratio > rt: return "%s (n=%d): objective logL(lambda=%r,tau=%r)=%r but nearby (%r,%r) gives %r" % (name, n, lam, tau, base, bp[0], bp[1], best)
        return None

    def exact_bin(self, x, bmin, w):
        t = (Fraction(x) - bmin) / w
        c = math.ceil(t)
        return c - 1, t

    def check_dump(self, o, vals, exact, full):
        n = int(o["n"])
        if n != len(vals): return "n=%d but %d values were accepted" % (n, len(vals))
        obs = {}
        if o["obs"] != "-":
            for t in o["obs"].split(","):
                i, c = t.split(":"); obs[int(i)] = int(c)
        nb = int(o["nb"])
        if any(i < 0 or i >= nb for i in obs): return "a count lies outside 0..nb-1"
        if sum(obs.values()) != n: return "the counts sum to %d, n=%d" % (sum(obs.values()), n)
        bmin, w = Fraction(fbits(o["bmin"])), Fraction(fbits(o["w"]))
        sure, maybe = {}, {}
        for x in vals:
            b, t = self.exact_bin(x, bmin, w)
            frac = t - math.floor(t)
            dist = min(frac, 1 - frac)
            if (dist == 0 and exact) or dist > Fraction(1, 10**9) * max(1, abs(t)):
                sure[b] = sure.get(b, 0) + 1
            else:
                r = round(t)                       # nearest edge: bin r-1 (x <= edge) or bin r (x > edge)
                maybe.setdefault((r - 1, r), 0); maybe[(r - 1, r)] += 1
        slack = {}
        for (a, b), c in maybe.items():
            slack[a] = slack.get(a, 0) + c; slack[b] = slack.get(b, 0) + c
        for b in set(list(obs) + list(sure)):
            got, lo = obs.get(b, 0), sure.get(b, 0)
            if got < lo or got > lo + slack.get(b, 0):
                x = next((x for x in vals if self.exact_bin(x, bmin, w)[0] == b), None)
                return ("bin %d (%s < x <= %s) holds %d values; %d of the accepted values lie in that interval%s" %
                        (b, float(bmin + b * w), float(bmin + (b + 1) * w), got, lo, "" if x is None else " (e.g. %r)" % x))
        if n:
            if int(o["imin"]) != min(obs) or int(o["imax"]) != max(obs): return "imin/imax = %s/%s, occupied bins run %d..%d" % (o["imin"], o["imax"], min(obs), max(obs))
            if o["xmin"] != dbits(min(vals)) and min(vals) != 0: return "xmin = %r, smallest accepted value %r" % (fbits(o["xmin"]), min(vals))
            if o["xmax"] != dbits(max(vals)) and max(vals) != 0: return "xmax = %r, largest accepted value %r" % (fbits(o["xmax"]), max(vals))
        else:
            if int(o["imin"]) != nb or int(o["imax"]) != -1: return "empty histogram has imin/imax = %s/%s (sentinels nb/-1)" % (o["imin"], o["imax"])
        bmax = Fraction(fbits(o["bmax"]))
        for x in (min(vals), max(vals)) if vals else ():
            tol = Fraction(1, 10**9) * (abs(Fraction(x)) + abs(bmin) + abs(bmax))
            if not (bmin - tol < Fraction(x) <= bmax + tol): return "value %r outside the allocated bounds (%r, %r]" % (x, float(bmin), float(bmax))
        if int(o["cmin"]) != int(o["imin"]) and o["done"] == "0": return "cmin=%s differs from imin=%s while data are being collected" % (o["cmin"], o["imin"])
        if o["done"] == "0" and o["ds"] == "complete":
            if int(o["nc"]) != n or int(o["no"]) != n: return "Nc/No = %s/%s with n=%d on complete data" % (o["nc"], o["no"], n)
        return None

    def check_declarations(self, ops, out, exact, vals=()):
        """SetTail / SetTailByMass / DeclareCensoring followed by a dump: the censoring bookkeeping agrees with the counts"""
        F = lambda w: Failure("monitor", w)
        for i, (op, l) in enumerate(zip(ops, out)):
            name = op.split()[0]
            if name not in ("hsettail", "hsettailmass", "hcens") or not l.startswith("ok"): continue
            if i + 1 >= len(out) or not ops[i + 1].startswith("hdump") or not out[i + 1].startswith("ok"): continue
            # only the first declaration after data collection is checked against fresh bookkeeping
            o = kv(out[i + 1]); a = kv(op)
            n = int(o["n"]); obs = {}
            if o["obs"] != "-":
                for t in o["obs"].split(","):
                    k, c = t.split(":"); obs[int(k)] = int(c)
            cmin, z, no, nc = int(o["cmin"]), int(o["z"]), int(o["no"]), int(o["nc"])
            bmin, w = Fraction(fbits(o["bmin"])), Fraction(fbits(o["w"]))
            if name in ("hsettail", "hsettailmass"):
                below = sum(c for b, c in obs.items() if b < cmin)
                if z != below or no != n - z or nc != n:
                    return F("%s: z=%d No=%d Nc=%d, but %d of the n=%d counted values lie in bins below cmin=%d" % (op[:50], z, no, nc, below, n, cmin))
                if o["ds"] != "virtual" or o["done"] != "1": return F("%s did not mark the histogram virtually censored / finished" % name)
                mass = fbits(kv(l)["mass"])
                if nc and mass != no / nc: return F("%s: returned tail mass %r, No/Nc = %d/%d" % (name, mass, no, nc))
                phi = Fraction(fbits(o["phi"]))
                tol = Fraction(1, 10**9) * (abs(phi) + abs(bmin) + abs(w)) if not exact else 0
                # the threshold actually used is a bin boundary bmin + k*w; the uncensored bins start at k (never below bin 0)
                k = (phi - bmin) / w
                kr = round(k)
                if abs(k - kr) * w > tol: return F("%s: phi=%r is not a bin boundary (bmin=%r, w=%r)" % (name, float(phi), float(bmin), float(w)))
                if cmin != max(kr, 0): return F("%s: phi=%r is the lower bound of bin %d, but cmin=%d" % (name, float(phi), kr, cmin))
                # censoring agrees with the raw data: z = number of accepted values <= phi (values within rounding distance of phi: either side)
                sure = sum(1 for x in vals if Fraction(x) <= phi - tol)
                maybe = sum(1 for x in vals if phi - tol < Fraction(x) <= phi + tol) if tol else 0
                if not (sure <= z <= sure + maybe):
                    return F("%s: z=%d values declared censored, but %d of the accepted values are <= phi=%r" % (op[:50], z, sure, float(phi)))
                if name == "hsettail":
                    req = Fraction(fbits(a["phi"]))
                    if phi - tol > req: return F("SetTail(%r) moved the threshold up to %r" % (float(req), float(phi)))
                    # (a requested threshold within rounding distance above a boundary may be binned below it: L0)
                    if req - phi >= w + Fraction(1, 10**9) * (abs(phi) + abs(bmin) + abs(w)): return F("SetTail(%r): threshold lowered by a whole bin or more, to %r" % (float(req), float(phi)))
                else:
                    p = fbits(a["p"])
                    above = sum(c for b, c in obs.items() if b > cmin)
                    if n and 0 < p <= 1:
                        if not (no >= p * n * (1 - 1e-12)): return F("SetTailByMass(%r): tail holds %d of %d values, less than the requested mass" % (p, no, n))
                        if above >= p * n * (1 + 1e-12) and above > 0 and cmin in obs:
                            return F("SetTailByMass(%r): cutoff bin %d is not the highest satisfactory one (%d values above it already suffice)" % (p, cmin, above))
            else:
                zz = int(a["z"])
                if z != zz or nc != n + zz or no != n or o["ds"] != "true" or o["done"] != "1" or o["phi"] != a["phi"] or cmin != int(o["imin"]):
                    return F("DeclareCensoring(z=%d): z=%d Nc=%d No=%d ds=%s cmin=%d" % (zz, z, nc, no, o["ds"], cmin))
        return None

    # ---- fits -----------------------------------------------------------------------------------
    def monitor_fit(self, case, ops, out):
        F = lambda w: Failure("monitor", w)
        xs = parse_xs(kv(ops[0]).get("xs", "-"))
        n = len(xs)
        meta = case.get("meta", {})
        distinct = len(set(xs)) >= 2
        for op, l in zip(ops[1:], out[1:]):
            if l.startswith(("fault", "atexit")): return None
            if not op.startswith("fit "): continue           # (gevobj: compared exactly with the model, nothing to monitor)
            a = kv(op); kind = a.get("kind")
            w = l.split()
            st = w[0]
            try:
                ps = [fbits(t) for t in w[1:]]
            except Exception:
                return F("unparsable answer %r to %r" % (l[:60], op[:60]))
            documented = {"ok", "einval", "enoresult", "enohalt", "erange"}
            if st not in documented: return F("%s returned the undocumented status %s" % (kind, st))
            if st != "ok":
                # on the exact quantile grid of its own law (n >= 100, untouched) a fit has to succeed: "recovers that law's parameters"
                # (Gumbel: only where exp(-lambda*x) stays inside the binary64 range - the fit is not shift-invariant numerically, L0)
                if kind == "gamma" and meta.get("law") == "gamma" and meta.get("mod") == "none" and n >= 100 and all(x > fbits(a["a"]) for x in xs):
                    return F("gamma fit failed with %s on %d values from esl_gam_Sample(mu=%r, lambda=%r, tau=%r)" % (st, n, meta.get("mu"), meta.get("lambda"), meta.get("tau")))
                # (GEV is not among the fits of the property statement; with its fixed absolute step sizes it answers the
                #  documented eslENOHALT on small-scale data, e.g. the grid of GEV(lambda=50, alpha=0.3): not demanded)
                if (meta.get("src") == "grid" and meta.get("mod") == "none" and n >= 100 and kind == meta.get("law") and kind != "gev"
                        and not (kind == "gumbel" and any(abs(meta["lambda"] * x) > 600 for x in xs))):
                    return F("%s fit failed with %s on the exact %d-point quantile grid of %s(mu=%r, lambda=%r, tau=%r)" % (kind, st, n, kind, meta.get("mu"), meta.get("lambda"), meta.get("tau")))
                continue
            if not distinct or n < 2: continue            # property quantifies over data with at least two distinct values
            if not all(math.isfinite(p) for p in ps):
                if meta.get("mod") in ("degenerate", "allequal"): continue
                if kind.startswith("gumbel"):
                    # exp(-lambda*x) outside the binary64 range (|lambda*x| > 700): overflow/underflow is layer L0, not claimed
                    lam = fbits(a["a"]) if kind == "gumbelloc" else fbits(a["b"]) if kind == "gumbelcensloc" else (ps[1] if len(ps) > 1 else 0.0)
                    if not math.isfinite(lam) or any(abs(lam * x) > 700 for x in xs): continue
                return F("%s returned eslOK with non-finite parameters %r (n=%d)" % (kind, ps, n))
            f = self.check_fit(kind, a, xs, ps, meta)
            if isinstance(f, tuple): return Failure("monitor", f[0], key=f[1])
            if f: return F(f)
        return None

    def check_fit(self, kind, a, xs, ps, meta):
        n = len(xs)
        rec = self.check_recovery(kind, a, xs, ps, meta) or self.check_vs_truth(kind, a, xs, ps, meta)
        if rec: return rec
        d1 = 1e-3
        def slack(v): return 1e-9 * (abs(v) + n) + 1e-12
        if kind == "exp":
            mu, lam = ps
            if mu != min(xs): return "exp fit: mu=%r is not the smallest observation %r" % (mu, min(xs))
            if not lam > 0: return "exp fit: lambda=%r" % lam
            base = ll_exp(xs, mu, lam)
            for f in (1 - d1, 1 + d1):
                v = ll_exp(xs, mu, lam * f)
                if v > base + slack(base): return "exp fit: logL(lambda=%r)=%r < logL(lambda*%g)=%r" % (lam, base, f, v)
            mean = math.fsum(x - mu for x in xs) / n
            if abs(lam * mean - 1) > 1e-9: return "exp fit: lambda=%r is not 1/(mean-mu)=%r" % (lam, 1 / mean)
            if meta.get("law") == "exp" and meta.get("src") == "grid" and meta.get("mod") in ("none",) and n >= 100:
                if abs(lam / meta["lambda"] - 1) > 0.05: return "exp fit on the exact quantile grid of lambda=%r recovered %r" % (meta["lambda"], lam)
        elif kind == "expscale":
            (lam,) = ps; mu = fbits(a["a"])
            mean = math.fsum(x - mu for x in xs) / n
            if mean > 0 and abs(lam * mean - 1) > 1e-9: return "exp scale fit: lambda=%r is not 1/(mean-mu)=%r" % (lam, 1 / mean)
        elif kind == "lognormal":
            mu, sigma = ps
            lx = [math.log(x) for x in xs]
            m = math.fsum(lx) / n
            if abs(mu - m) > 1e-9 * (1 + abs(m)): return "lognormal fit: mu=%r is not the mean log %r" % (mu, m)
            s2 = math.fsum((v - m) ** 2 for v in lx) / (n - 1)
            if abs(sigma * sigma - s2) > 1e-9 * (s2 + 1e-300) + 1e-18: return "lognormal fit: sigma^2=%r is not the sample variance of the logs %r" % (sigma * sigma, s2)
            if meta.get("law") == "lognormal" and meta.get("src") == "grid" and meta.get("mod") == "none" and n >= 100:
                if abs(mu - meta["mu"]) > 0.05 * max(1, abs(meta["mu"])) or abs(sigma / meta["lambda"] - 1) > 0.08:
                    return "lognormal fit on the exact quantile grid of (%r,%r) recovered (%r,%r)" % (meta["mu"], meta["lambda"], mu, sigma)
        elif kind in ("gumbel", "gumbelcens"):
            mu, lam = ps
            z = int(a.get("z", 0)) if kind == "gumbelcens" else 0
            phi = fbits(a["a"]) if kind == "gumbelcens" else 0.0
            if not lam > 0: return "%s fit: lambda=%r" % (kind, lam)
            # exp(-lambda*x) in or beyond the subnormal range: the sums of lawless416/422 lose their precision (L0, not claimed)
            if any(abs(lam * x) > 700 for x in xs) or abs(lam * phi) > 700: return None
            base = ll_gumbel(xs, mu, lam, z, phi)
            if not math.isfinite(base): return None
            # mu is the exact maximiser for the returned lambda; lambda is stationary within the Newton tolerance 1e-5 (per sample):
            # by concavity of the profile likelihood  logL(mu', lambda') <= logL(fit) + n*1e-5*|lambda'-lambda|
            for fm in (0, -d1, d1):
                for fl in (0, -d1, d1):
                    if fm == 0 and fl == 0: continue
                    mu2 = mu + fm * max(abs(mu), 1 / lam); lam2 = lam * (1 + fl)
                    v = ll_gumbel(xs, mu2, lam2, z, phi)
                    if v > base + n * 1.01e-5 * abs(lam2 - lam) + slack(base):
                        return "%s fit (n=%d z=%d): logL(mu=%r,lambda=%r)=%r < logL(%r,%r)=%r" % (kind, n, z, mu, lam, base, mu2, lam2, v)
            if kind == "gumbel" and meta.get("law") == "gumbel" and meta.get("src") == "grid" and meta.get("mod") == "none" and n >= 100:
                if abs(lam / meta["lambda"] - 1) > 0.05 or abs(mu - meta["mu"]) > 0.05 / meta["lambda"] + 1e-9:
                    return "gumbel fit on the exact quantile grid of (%r,%r) recovered (%r,%r)" % (meta["mu"], meta["lambda"], mu, lam)
        elif kind in ("gumbelloc", "gumbelcensloc"):
            (mu,) = ps
            if kind == "gumbelloc": lam, z, phi = fbits(a["a"]), 0, 0.0
            else: lam, z, phi = fbits(a["b"]), int(a["z"]), fbits(a["a"])
            if any(abs(lam * x) > 700 for x in xs) or abs(lam * phi) > 700: return None
            base = ll_gumbel(xs, mu, lam, z, phi)
            if not math.isfinite(base): return None
            for fm in (-d1, d1):
                mu2 = mu + fm * max(abs(mu), 1 / lam)
                v = ll_gumbel(xs, mu2, lam, z, phi)
                if v > base + slack(base): return "%s (lambda=%r): logL(mu=%r)=%r < logL(mu=%r)=%r" % (kind, lam, mu, base, mu2, v)
        elif kind == "gev":
            if n < 100 or meta.get("mod") != "none" or meta.get("law") != "gev": return None
            mu, lam, alpha = ps
            if not lam > 0: return "gev fit returned eslOK with lambda=%r" % lam
            ll = lambda m, l, al: ll_gev(xs, m, l, al)
            base, best, bp = pattern_search(ll, [mu, lam, alpha], [max(abs(mu), 1 / lam), lam, max(abs(alpha), 0.05)], 400)
            if not math.isfinite(base): return None
            ratio = (best - base) / (abs(base) + n)
            cal = self.__dict__.setdefault("_calib", {}); cal["gev"] = max(cal.get("gev", 0.0), ratio)
            if ratio > 5e-3: return "gev fit (n=%d): logL%r=%r but nearby %r has logL=%r" % (n, (mu, lam, alpha), base, tuple(bp), best)
        elif kind in ("gamma", "weibull", "sxp", "gumbeltrunc"):
            # optimiser results: the returned point satisfies the optimiser's stopping rule; checked here on the implementation's
            # output: location = smallest observation, and logL at the fit >= logL at +-5% of each optimised parameter (minus the
            # optimiser's own tolerance). Global optimality is NOT claimed.
            if n < 30: return None
            if kind == "gamma":
                mu = fbits(a["a"]); lam, tau = ps
                if any(x <= mu for x in xs): return None
                ll = lambda l, t: ll_gamma(xs, mu, l, t); p0 = (lam, tau); dd, rt = 1e-3, 1e-8
            elif kind == "weibull":
                mu, lam, tau = ps
                if mu != min(xs): return "weibull fit: mu=%r is not the smallest observation %r" % (mu, min(xs))
                ll = lambda l, t: ll_weibull(xs, mu, l, t); p0 = (lam, tau); dd, rt = 0.05, 1e-5
            elif kind == "sxp":
                mu, lam, tau = ps
                if mu != min(xs): return "stretched-exponential fit: mu=%r is not the smallest observation %r" % (mu, min(xs))
                # unbounded likelihood (mu pinned to the smallest sample): the optimiser runs off along the ridge; no maximiser exists
                # (the same with several observations tied at the minimum: the density at x = mu grows without bound as lambda -> inf)
                # (and tau -> infinity, where the law tends to the uniform on [mu, mu+1/lambda]: the supremum is not attained)
                if lam * (max(xs) - min(xs)) > 1e8 or tau < 1e-3 or tau > 20 or xs.count(min(xs)) > 1: return None
                ll = lambda l, t: ll_sxp(xs, mu, l, t); p0 = (lam, tau); dd, rt = 0.05, 2e-3
            else:
                phi = fbits(a["a"]); mu, lam = ps
                # documented: "<phi> should not be much greater than <mu> ... or the fit will become unstable": mu is then undetermined
                if meta.get("censfrac", 0.0) > 0.3 or phi > mu: return None
                ll = lambda m, l: ll_gumbel_trunc(xs, m, l, phi); p0 = (mu, lam); dd, rt = 0.05, 2e-2
            if not (p0[1] > 0) or (kind != "gumbeltrunc" and not p0[0] > 0): return "%s fit returned eslOK with parameters %r" % (kind, ps)
            base = ll(*p0)
            if not math.isfinite(base): return None
            # local pattern search around the returned point (steps 10% .. 0.01% of each parameter): "not smaller than at nearby values"
            unit = [abs(p0[0]) if kind != "gumbeltrunc" else max(abs(p0[0]), 1 / p0[1]), abs(p0[1])]
            best, bp, step, evals = base, list(p0), 0.1, 0
            while step > 1e-4 and evals < 240:
                moved = False
                for i in (0, 1):
                    for sg in (1, -1):
                        q = list(bp); q[i] = q[i] + sg * step * unit[i]
                        v = ll(*q); evals += 1
                        if v > best: best, bp, moved = v, q, True
                if not moved: step /= 2
            ratio = (best - base) / (abs(base) + n)
            cal = self.__dict__.setdefault("_calib", {})
            cal[kind] = max(cal.get(kind, 0.0), ratio)
            if ratio > rt:
                return "%s fit (n=%d): logL%r=%r but nearby %r has logL=%r" % (kind, n, tuple(p0), base, tuple(bp), best)
            if kind == "weibull":
                # stationarity, measured: the partial derivatives of the Weibull log-likelihood (theorem weibull_loglik_derivatives) at the returned point,
                # per sample, in the optimiser's variables (log lambda, log tau). By weibull_fit_optimality_certificate they bound the distance from THE global maximum.
                try:
                    w_, tau_ = math.log(p0[0]), p0[1]
                    ls_ = [math.log(x - mu) for x in xs if x != mu]
                    es_ = [math.exp(tau_ * (w_ + l)) for l in ls_]
                    dw = math.fsum(tau_ - tau_ * e for e in es_)
                    dt = math.fsum(1 / tau_ + w_ + l - (w_ + l) * e for l, e in zip(ls_, es_))
                    g = max(abs(dw), abs(tau_ * dt)) / max(1, len(ls_))
                    cal["weibull_gradient_per_sample"] = max(cal.get("weibull_gradient_per_sample", 0.0), g)
                    if g > self.WEIBULL_GRAD_TOL:
                        return "weibull fit (n=%d): eslOK at (lambda=%r, tau=%r) where the log-likelihood is not stationary: per-sample derivatives (d/dlog lambda, d/dlog tau) = (%.3g, %.3g)" % (
                            n, p0[0], p0[1], dw / len(ls_), tau_ * dt / len(ls_))
                except (OverflowError, ValueError, ZeroDivisionError):
                    pass
            if kind == "weibull" and meta.get("law") == "weibull" and meta.get("src") == "grid" and meta.get("mod") == "none" and n >= 300:
                if abs(p0[0] / meta["lambda"] - 1) > 0.2 or abs(p0[1] / meta["tau"] - 1) > 0.2:
                    return "weibull fit on the exact quantile grid of (lambda=%r,tau=%r) recovered (%r,%r)" % (meta["lambda"], meta["tau"], p0[0], p0[1])
        return None

    # tolerated relative error of (scale, shape) on the exact quantile grid of the family itself, n >= 300 (calibrated: about
    # 3x the largest error seen on the clean tree over the parameter grid; the discretisation error of a 300-point grid with the
    # location pinned to the smallest point is a few per cent for the peaked laws)
    WEIBULL_GRAD_TOL = 0.05     # about 30x the largest value seen on the clean tree (1.6e-3 over quick seeds 1-3)
    REC_TOL = {"exp": (0.02,), "gumbel": (0.02, 0.02), "lognormal": (0.01, 0.02), "weibull": (0.30, 0.30), "gamma": (0.06, 0.06),
               "sxp": (0.08, 0.06), "gev": (0.15, 0.12, 0.08)}

    def check_recovery(self, kind, a, xs, ps, meta):
        n = len(xs)
        if not (meta.get("src") == "grid" and meta.get("mod") == "none" and n >= 300 and kind == meta.get("law")): return None
        mu0, lam0, tau0 = meta["mu"], meta["lambda"], meta["tau"]
        if kind == "exp": errs = [abs(ps[1] / lam0 - 1)]
        elif kind == "gumbel":
            if any(abs(lam0 * x) > 600 for x in xs): return None
            errs = [abs(ps[1] / lam0 - 1), abs(ps[0] - mu0) * lam0]
        elif kind == "lognormal": errs = [abs(ps[0] - mu0) / max(1.0, abs(mu0)), abs(ps[1] / lam0 - 1)]
        elif kind == "weibull": errs = [abs(ps[1] / lam0 - 1), abs(ps[2] / tau0 - 1)]
        elif kind == "gamma": errs = [abs(ps[0] / lam0 - 1), abs(ps[1] / tau0 - 1)]
        elif kind == "sxp": errs = [abs(ps[1] / lam0 - 1), abs(ps[2] / tau0 - 1)]
        elif kind == "gev": errs = [abs(ps[0] - mu0) * lam0, abs(ps[1] / lam0 - 1), abs(ps[2] - tau0)]
        else: return None
        cal = self.__dict__.setdefault("_rec", {})
        key = "%s" % kind
        cal[key] = [max(x, y) for x, y in zip(cal.get(key, [0.0] * len(errs)), errs)]
        tol = self.REC_TOL[kind]
        if any(e > t for e, t in zip(errs, tol)):
            return "%s fit on the exact %d-point quantile grid of (mu=%r, lambda=%r, tau/alpha=%r) returned %r" % (kind, n, mu0, lam0, tau0, ps)
        return None

    # a maximum-likelihood fit of data drawn from (or laid out on the quantile grid of) a law of its own family cannot have a smaller
    # log-likelihood than the generating parameters themselves; tolerated shortfall relative to |logL|+n (calibrated, ~5x clean-tree maximum)
    TRUTH_TOL = {"gev": 6e-3, "gamma": 1e-9, "gumbeltrunc": 2e-2, "gumbel": 1e-9, "gumbelcens": 1e-9, "exp": 1e-12}

    def check_vs_truth(self, kind, a, xs, ps, meta):
        n = len(xs)
        law = meta.get("law")
        if meta.get("mod") != "none" or n < 30: return None
        mu0, lam0, tau0 = meta.get("mu"), meta.get("lambda"), meta.get("tau")
        try:
            if kind == "gev" and law == "gev":
                fit, truth = ll_gev(xs, *ps), ll_gev(xs, mu0, lam0, tau0)
            elif kind == "gamma" and law == "gamma" and fbits(a["a"]) == mu0:
                fit, truth = ll_gamma(xs, mu0, ps[0], ps[1]), ll_gamma(xs, mu0, lam0, tau0)
            elif kind == "gumbel" and law == "gumbel" and "censfrac" not in meta:
                if any(abs(lam0 * x) > 600 for x in xs) or any(abs(ps[1] * x) > 600 for x in xs): return None
                fit, truth = ll_gumbel(xs, ps[0], ps[1]), ll_gumbel(xs, mu0, lam0)
            elif kind == "gumbelcens" and law == "gumbel" and "censfrac" in meta:
                z, phi = int(a["z"]), fbits(a["a"])
                if any(abs(lam0 * x) > 600 for x in xs) or any(abs(ps[1] * x) > 600 for x in xs): return None
                fit, truth = ll_gumbel(xs, ps[0], ps[1], z, phi), ll_gumbel(xs, mu0, lam0, z, phi)
            elif kind == "gumbeltrunc" and law == "gumbel" and meta.get("censfrac", 1.0) <= 0.3:
                phi = fbits(a["a"])
                if any(abs(lam0 * x) > 600 for x in xs): return None
                fit, truth = ll_gumbel_trunc(xs, ps[0], ps[1], phi), ll_gumbel_trunc(xs, mu0, lam0, phi)
            elif kind == "exp" and law == "exp" and min(xs) >= mu0:
                fit, truth = ll_exp(xs, ps[0], ps[1]), ll_exp(xs, mu0, lam0)
            else:
                return None
        except (ValueError, OverflowError, ZeroDivisionError):
            return None
        if not (math.isfinite(fit) and math.isfinite(truth)): return None
        gap = (truth - fit) / (abs(truth) + n)
        tolr = self.TRUTH_TOL[kind]
        if kind in ("gumbel", "gumbelcens"):
            # theorem gumbel_*_fit_near_optimal: logL(any) <= logL(fit) + n*1e-5*|lambda' - lambda|
            tolr += n * 1.01e-5 * abs(lam0 - ps[1]) / (abs(truth) + n)
        cal = self.__dict__.setdefault("_truth", {}); cal[kind] = max(cal.get(kind, -1.0), gap - (tolr - self.TRUTH_TOL[kind]))
        if gap > tolr:
            return "%s fit (n=%d): logL at the fit %r is BELOW logL %r at the generating parameters (mu=%r, lambda=%r, tau=%r)" % (kind, n, fit, truth, mu0, lam0, tau0)
        return None

    def extra_evidence(self, ctx):
        return {"input_distribution": dict(getattr(self, "_dist", {}), solver_cases=getattr(self, "_nsolver", 0)), "solver_ops_by_status": getattr(self, "_solver", {}), "histogram_expect_goodness": getattr(self, "_hstat", {}), "optimiser_fit_max_relative_logL_gap": getattr(self, "_calib", {}),
                "max_recovery_error_on_quantile_grids": getattr(self, "_rec", {}),
                "max_relative_logL_shortfall_vs_generating_parameters": getattr(self, "_truth", {})}


SPEC = C11()
