"""C20 — vector and SIMD numeric kernels compute their definition for every input.

Model kinds: T (SIMD helper inlines and esl_sse_logf/expf, regenerated from the headers / esl_sse.c by
translate/simd2lean.py on every run), H (esl_vectorops.c routines, lean/EaselModel/Vec/Model.lean).
Theorems: lean/EaselModel/Props/C20.lean.  Harness: harness/h_simd.c.
"""
import os, sys, struct, math, subprocess, json
from fractions import Fraction
from vlib.engine import Prop, Failure, VERIF, log

sys.path.insert(0, os.path.join(VERIF, "translate"))

EPS64, EPS32 = 2.0 ** -53, 2.0 ** -24


# ---------------------------------------------------------------------------------------------- codecs
def f32_of_bits(u): return struct.unpack("<f", struct.pack("<I", u & 0xFFFFFFFF))[0]
def bits_of_f32(x): return struct.unpack("<I", struct.pack("<f", x))[0]
def f64_of_bits(u): return struct.unpack("<d", struct.pack("<Q", u))[0]
def bits_of_f64(x): return struct.unpack("<Q", struct.pack("<d", x))[0]
def hex_u32s(us): return b"".join(struct.pack("<I", u & 0xFFFFFFFF) for u in us).hex() or "-"
def hex_f64s(xs): return b"".join(struct.pack("<d", x) for x in xs).hex() or "-"
def hex_f32s(xs): return b"".join(struct.pack("<f", x) for x in xs).hex() or "-"
def unhex(s): return b"" if s == "-" else bytes.fromhex(s)
def u32s(b): return list(struct.unpack("<%dI" % (len(b) // 4), b))
def f32s(b): return list(struct.unpack("<%df" % (len(b) // 4), b))
def f64s(b): return list(struct.unpack("<%dd" % (len(b) // 8), b))
def i8s(b): return list(struct.unpack("<%db" % len(b), b))
def i16s(b): return list(struct.unpack("<%dh" % (len(b) // 2), b))
def isnan32(u): return (u & 0x7f800000) == 0x7f800000 and (u & 0x7fffff) != 0
def ulpkey(u): return -(u & 0x7fffffff) if u & 0x80000000 else u


def kv(op):
    w = op.split()
    return w[0], dict(x.split("=", 1) for x in w[1:] if "=" in x)


# ---------------------------------------------------------------------------------------------- helper table
# name -> (register bytes, lane kind, argument keys)
HELPERS = {}
for isa, nb in (("sse", 16), ("avx", 32), ("avx512", 64)):
    for nm, kind, args in (("hmax_epu8", "u8", "a"), ("hmax_epi8", "i8", "a"), ("hmax_epi16", "i16", "a"), ("hsum_ps", "f", "a"),
                           ("rightshift_int8", "u8", "ab"), ("rightshift_int16", "i16", "ab"),
                           ("rightshiftz_float", "f", "a"), ("leftshiftz_float", "f", "a")):
        HELPERS["esl_%s_%s" % (isa, nm)] = (nb, kind, args)
for nm, kind, args in (("hmax_ps", "f", "a"), ("hmin_ps", "f", "a"), ("rightshift_ps", "f", "ab"), ("leftshift_ps", "f", "ab"),
                       ("any_gt_epu8", "u8", "ab"), ("any_gt_epi16", "i16", "ab"), ("any_gt_ps", "f", "ab"), ("select_ps", "f", "abm")):
    HELPERS["esl_sse_" + nm] = (16, kind, args)
HELPERS["esl_avx_any_gt_epi16"] = (32, "i16", "ab")

LANEB = {"u8": 1, "i8": 1, "i16": 2, "f": 4}
BOUNDARY = {"u8": [0, 1, 127, 128, 254, 255], "i8": [0, 1, 127, 128, 129, 255], "i16": [0, 1, 0x7fff, 0x8000, 0x8001, 0xffff, 127, 128, 255, 0xff80],
            "f": [0x00000000, 0x80000000, 0x7f800000, 0xff800000, 0x7fc00000, 0x3f800000, 0xbf800000, 0x00000001, 0x80000001,
                  0x7f7fffff, 0xff7fffff, 0x00800000, 0x3f7fffff, 0x4b800000]}


def pack_lanes(kind, lanes):
    b = LANEB[kind]
    return b"".join(int(x & ((1 << (8 * b)) - 1)).to_bytes(b, "little") for x in lanes).hex()


def lanes_of(kind, hexs):
    b = unhex(hexs)
    if kind == "u8": return list(b)
    if kind == "i8": return i8s(b)
    if kind == "i16": return i16s(b)
    return u32s(b)


def helper_spec(name, kvs):
    """independent scalar-loop specification of a helper on raw lanes -> expected hex, or None when the scalar loop
    does not define the result (NaN lanes in float max/min/sum, non-canonical select masks)"""
    nb, kind, args = HELPERS[name]
    short = name.split("_", 2)[2]
    a = lanes_of(kind, kvs["a"])
    b = lanes_of(kind, kvs["b"]) if "b" in kvs else None
    if short in ("hmax_epu8", "hmax_epi8", "hmax_epi16"):
        return pack_lanes(kind, [max(a)])
    if short in ("rightshift_int8", "rightshift_int16"):
        mask = (1 << (8 * LANEB[kind])) - 1
        au = [x & mask for x in a]; bu = [x & mask for x in b]
        return pack_lanes(kind, [(0 if i == 0 else au[i - 1]) | bu[i] for i in range(len(a))])
    if short == "rightshiftz_float": return pack_lanes("f", [0] + a[:-1])
    if short == "leftshiftz_float": return pack_lanes("f", a[1:] + [0])
    if short == "rightshift_ps": return pack_lanes("f", [b[0]] + a[:-1])
    if short == "leftshift_ps": return pack_lanes("f", a[1:] + [b[0]])
    if short in ("any_gt_epu8", "any_gt_epi16"):
        return "01" if any(x > y for x, y in zip(a, b)) else "00"
    if short == "any_gt_ps":
        return "01" if any(f32_of_bits(x) > f32_of_bits(y) for x, y in zip(a, b)) else "00"
    if short == "select_ps":
        m = lanes_of("f", kvs["m"])
        if any(x not in (0, 0xFFFFFFFF) for x in m): return None
        return pack_lanes("f", [y if k else x for x, y, k in zip(a, b, m)])
    if short in ("hmax_ps", "hmin_ps"):
        if any(isnan32(x) for x in a): return None
        fs = [f32_of_bits(x) for x in a]
        v = max(fs) if short == "hmax_ps" else min(fs)
        return ("val", v)
    if short == "hsum_ps":
        fs = [f32_of_bits(x) for x in a]
        if any(math.isnan(x) or math.isinf(x) for x in fs): return None
        return ("sum", fs)
    return None


# ---------------------------------------------------------------------------------------------- vector reference
def exact_sum(xs): return sum((Fraction(x) for x in xs), Fraction(0))


class C20(Prop):
    id = "C20"
    lean_modules = ["EaselModel.Props.C20"]
    lean_exe = "c20_driver"
    harness = "h_simd.c"
    harness_flags = ["-msse4.1", "-Wl,--allow-multiple-definition"]      # the AVX2 / AVX-512 parts of the harness are `#pragma GCC target` regions
    theorems = ["EaselModel.Props.C20." + t for t in (
        "sse_hmax_epu8", "sse_hmax_epi8", "sse_hmax_epi16", "avx_hmax_epu8", "avx_hmax_epi8", "avx_hmax_epi16", "avx512_hmax_epu8", "avx512_hmax_epi8", "avx512_hmax_epi16", "sse_hsum_ps", "avx_hsum_ps", "avx512_hsum_ps", "sse_hmax_ps", "sse_hmin_ps", "sse_any_gt_epu8", "sse_any_gt_epi16", "avx_any_gt_epi16", "sse_any_gt_ps", "sse_select_ps", "sse_rightshiftz_float", "sse_leftshiftz_float", "avx_rightshiftz_float", "avx_leftshiftz_float", "avx512_rightshiftz_float", "avx512_leftshiftz_float", "sse_rightshift_ps", "sse_leftshift_ps", "sse_rightshift_int8", "sse_rightshift_int16", "avx_rightshift_int8", "avx_rightshift_int16", "avx512_rightshift_int8", "avx512_rightshift_int16", "logf_negative", "logf_zero_subnormal", "logf_inf_nan", "expf_underflow", "expf_overflow", "expf_cutoffs_in_window", "expf_nan", "sum_eq_real", "dot_eq_real", "vmax_spec", "vmin_spec", "argmax_spec", "argmin_spec", "argmax_nil", "sortIncreasing_spec", "sortDecreasing_spec", "norm_of_sum_ne_zero", "norm_of_sum_zero", "entropy_eq", "cdf_spec", "validate_spec", "logSum_all_ninf", "logSum_spec", "logSum_of_max_pinf", "logNorm_spec", "relEntropyGo_spec", "isum_eq", "idot_eq", "log2Sum_spec", "rightshift_fill", "logSum_spec_F", "log2Sum_spec_F", "hmaxU_spec", "hmaxS_spec", "sse_hsum_ps_real", "avx_hsum_ps_real", "avx512_hsum_ps_real", "sse_hmax_ps_real", "sse_hmin_ps_real", "dot_rounding", "kahan_rounding", "mat_cell_in_block", "mat_cell_inj", "mat_cell_surj",
        # D. regenerated esl_vectorops.c / esl_matrixops.c routines (Generated/VectorOps.lean)
        "gen_cmp_int", "gen_cmp_int_decr", "gen_cmp_int64", "gen_cmp_int64_decr", "cmp_sub_idiom_window", "cmp_sub_idiom_wrong", "gen_ISortIncreasing", "gen_ISortDecreasing", "gen_LSortIncreasing",
        "gen_LSortDecreasing", "gen_DSortIncreasing", "gen_DSortDecreasing", "gen_FSortIncreasing", "gen_FSortDecreasing", "gen_max_eq", "gen_min_eq",
        "gen_IMax", "gen_IMin", "gen_LMax", "gen_LMin", "gen_max_empty", "gen_ISum_exact", "gen_LSum_exact", "gen_ISum_overflow", "gen_DSum", "gen_DSum_real",
        "gen_argmax_eq", "gen_argmin_eq", "gen_IArgMax", "gen_IArgMin", "gen_LArgMax", "gen_LArgMin", "gen_IDot_exact", "gen_LDot_exact", "gen_DDot",
        "gen_Reverse", "gen_Reverse_inplace", "gen_Reverse_involution", "gen_Set", "gen_Copy", "gen_Scale", "gen_Increment", "gen_Add", "gen_AddScaled",
        "gen_mat_flat", "gen_ICompare", "gen_LCompare", "gen_DCompare", "gen_DCompare_real", "compare_real_refl", "compare_real_symm", "compare_real_tol_zero",
        "compareOld_inf_nan", "gen_Swap", "gen_IScale_exact", "gen_LScale_exact", "gen_IIncrement_exact", "gen_LIncrement_exact", "gen_IAdd_exact", "gen_LAdd_exact",
        "gen_IAddScaled_exact", "gen_LAddScaled_exact", "gen_mat_Compare_flat")]
    claimed = True
    level_text = ("Theorems (Lean kernel): each of the 33 SSE/AVX/AVX-512 helper inlines, as regenerated from the headers of the working tree, equals the scalar "
                  "loop over its lanes for every lane pattern (hmax = fold max; any_gt = exists lane; select/shifts lane-wise with the documented fill; float "
                  "hsum/hmax/hmin = the fixed shuffle tree for any arithmetic, = the left-to-right loop for an associative-commutative operation); "
                  "esl_sse_logf/expf (regenerated from esl_sse.c) return the documented special values for all 2^32 bit patterns under any float arithmetic; "
                  "the vector routines over the reals: Kahan sum = exact sum, dot, max/min, ArgMax/ArgMin = first index of the extremum, sort = ordered "
                  "permutation, Norm sums to 1 (uniform when the sum is 0), entropy, CDF = prefix sums, Validate <-> p-vector within tol, "
                  "LogSum = log sum exp within n e^-500 with -inf entries and the all--inf case. "
                  "Tie: regeneration (T) + intrinsic-table validation on hardware + bit-exact differential run of every model against the ASan/UBSan build.")
    level_note = ("Not a theorem (measured, labelled support): accuracy of the logf/expf polynomials vs libm (quick: stratified sample <= 4 ulp; thorough: all 2^32 "
                  "patterns x 4 lanes, exhaustive); rounding error of the float vector routines (monitors against exact rational / high-precision values). "
                  "Trusted: intrinsic semantics table (validated each run), translator, hand model fidelity (differential run), libm, gcc, CPU. "
                  "Two defects found by this check were fixed upstream (FLogValidate/FLog2Validate status, FValidate NaN); their witnesses stay in the corpus.")
    diverge_is_violation = True
    fault_is_output = True       # a death is judged by `monitor`: only signed overflow of the TRUE result of an I/L arithmetic routine is tolerated
    quick_budget_s = 90
    thorough_budget_s = 1200
    technique = ("Lean 4 proof over SIMD helper definitions regenerated from the headers by a strict translator + a reviewed intrinsic "
                 "semantics table validated against the hardware; bit-level special-value theorems for the translated logf/expf; "
                 "hand model of esl_vectorops.c over a numeric class with theorems on the real instance; exact differential run")
    trusted_base = ["translate/simd2lean.py (C helper syntax -> applications of the intrinsic table; fails on anything unknown)",
                    "lean/EaselModel/Simd/Intrinsics.lean + Lane32.lean: lane semantics of the intrinsics (validated each run by executing every "
                    "intrinsic in C against its Lean definition: harness op `intr`)",
                    "hand model of esl_vectorops.c tied by the exact differential run (h_simd.c, ASan+UBSan build)",
                    "Lean compiler/runtime and the system libm for the executable driver; gcc; the CPU"]
    assumptions = ["polynomial accuracy of esl_sse_logf/expf ('within a few ulp of libm') is measured (quick: stratified sample; thorough: all 2^32 "
                   "patterns x 4 lane positions), not proved: libm and IEEE-754 rounding are opaque to the kernel (L0)",
                   "esl_sse_expf returns 0 where the true result is subnormal (documented in the function's own note): accepted wherever |expf x| < FLT_MIN",
                   "float lanes are abstract in the helper theorems; NaN behaviour of max/min/add is that of the intrinsic table",
                   "vector routines: theorems are about the real-number instance of the model (L1/L2); rounding error (L0) is measured by monitors "
                   "against exact rational / high-precision evaluation; qsort is modelled as a merge sort (sorted output of a total preorder is unique)",
                   "Max/Min/LogSum/CDF read vec[0] unconditionally: n >= 1 is their precondition (n = 0 is generated only for the routines that allow it)",
                   "float (F) routines: same model term at a binary32 instance with the sub-expressions the C source evaluates in double; the real-number theorems are about "
                   "the shared generic definitions (LogSum/Log2Sum bounds proved for both windows, 500 and 50)",
                   "integer (I/L) routines modelled on unbounded Int: signed overflow is undefined behaviour in C and the generators stay in range",
                   "esl_mat_* : Create/Clone/GrowTo/Sizeof/Set/Scale/Copy/Max modelled as a flat block + row-pointer arithmetic (Vec/Mat.lean); allocation failure paths not modelled",
                   "esl_{D,F}Compare_old (easel.c) is a hand model (Vec.compareOld) tied by the exact differential op `cmpold`; D2F/F2D/I2F/I2D are the "
                   "hardware conversions of Lean's Float/Float32 (bit-exact differential op `cvt`), no theorem beyond element-wise `map`",
                   "not modelled here: esl_vec_*Shuffle/Shuffle64 (property C18), esl_vec_*Dump / esl_mat_*Dump / esl_sse_dump_* / esl_avx*_dump_* (text output)"]
    rule = ("cases = op batches: every intrinsic of the table x lane views x immediates; every helper with the maximum in each lane, each boundary "
            "value in each lane, dense random lanes; logf/expf stratified over every exponent x boundary mantissas + threshold neighbourhoods + random; "
            "vector routines over lengths 0..1000 with ties, signed zeros, infinities, -inf log entries, spreads of hundreds of log units; "
            "non-trivial = batch whose ops all answered `ok`")

    # ------------------------------------------------------------------------------------------ generated Lean
    def generated(self, ctx):
        import importlib, simd2lean
        importlib.reload(simd2lean)
        helpers, infos = simd2lean.generate(ctx.src)
        self._infos = infos
        import vec2lean
        importlib.reload(vec2lean)
        vtext, vinfos = vec2lean.generate(ctx.src)
        self._vinfos = vinfos
        return {"EaselModel/Generated/SimdHelpers.lean": helpers,
                "EaselModel/Generated/SimdLogExp.lean": simd2lean.generate_logexp(ctx.src),
                "EaselModel/Generated/VectorOps.lean": vtext}

    # ------------------------------------------------------------------------------------------ cases
    def corpus(self, ctx):
        tol = "%08x" % bits_of_f32(0.01)
        known = [   # regression witnesses of two defects fixed upstream (57fcd38, 9276da6): must now answer `ok fail`
            {"name": "regress-FLogValidate",
             "ops": ["vec op=FLogValidate x=%s s=%s" % (hex_f32s([1.0, 1.0]), tol)]},
            {"name": "regress-FLog2Validate",
             "ops": ["vec op=FLog2Validate x=%s s=%s" % (hex_f32s([1.0, 1.0]), tol)]},
            {"name": "regress-FValidate-nan",
             "ops": ["vec op=FValidate x=0000c07f s=%s" % tol]},
        ]
        return known + [
            {"name": "cpu", "ops": ["cpu"]},
            {"name": "smoke", "ops": [
                "simd f=esl_sse_hmax_epu8 a=000102030405060708090a0b0c0dff0e",
                "simd f=esl_sse_hmax_epi8 a=80818283848586878889ff8b8c8d8e8f",
                "simd f=esl_sse_hmax_epi16 a=00800180028003800480ff7f06800780",
                "logf x=0000803f00000000000080bf0000807f", "expf x=0000803f0000b0420000b0c20000c07f",
                "logf x=000000800100000001008000ffff7f00", "logf x=0000c07f0000c0ff000080ff0100807f",
                "expf x=a5c0b042a6c0b042a5c0b0c2a4c0b0c2", "expf x=0000807f000080ff0000000000000080",
                "vec op=DSum x=" + hex_f64s([1.0] + [1e-16] * 50),
                "vec op=DArgMax x=" + hex_f64s([1.0, 3.0, 3.0, 2.0]), "vec op=DArgMax x=-", "vec op=DArgMin x=" + hex_f64s([2.0, 1.0, 1.0]),
                "vec op=DLogSum x=" + hex_f64s([-math.inf, -math.inf]), "vec op=DLogSum x=" + hex_f64s([-1000.0, -1600.0, -math.inf, -1000.5]),
                "vec op=DNorm x=" + hex_f64s([0.0, 0.0, 0.0]), "vec op=DNorm x=" + hex_f64s([1.0, -1.0]),
                "vec op=FLogSum x=" + hex_f32s([-100.0, -149.9, -150.1, -math.inf]),
            ]},
        ]

    # ---- intrinsic table validation
    def intr_cases(self, ctx):
        rng = ctx.rng
        ops = []
        def rb(n, kind=None):
            r = rng.random()
            if r < 0.5: return bytes(rng.randrange(256) for _ in range(n)).hex()
            if r < 0.75: return bytes(rng.choice([0, 1, 0x7f, 0x80, 0xff, 0xfe]) for _ in range(n)).hex()
            return bytes(range(n)).hex() if rng.random() < 0.5 else bytes((i * 37 + 11) % 256 for i in range(n)).hex()
        def rf(n):
            us = [rng.choice(BOUNDARY["f"]) if rng.random() < 0.4 else bits_of_f32(rng.uniform(-100, 100)) for _ in range(n // 4)]
            return hex_u32s(us)
        imm_used = [0x4e, 0xb1, 0x1b, 0x39, 0x90, 0x01, 0x81, 0x0c, 0x30, 0x00, 0xff, 0xe4]
        def imms(k): return imm_used + [rng.randrange(256) for _ in range(k)]
        for w in (8, 16, 32):
            B = w // 8
            for f, nb in (("_mm_srli_si128", 16), ("_mm_slli_si128", 16), ("_mm256_srli_si256", 32)):
                for k in range(0, 33, B):
                    if k <= 16 or rng.random() < 0.3: ops.append("intr f=%s w=%d imm=%d a=%s" % (f, w, k, rb(nb)))
            for f, nb in (("_mm_shuffle_epi32", 16), ("_mm256_shuffle_epi32", 32)):
                for imm in imms(6): ops.append("intr f=%s w=%d imm=%d a=%s" % (f, w, imm, rb(nb)))
            if w <= 16:
                for f, nb in (("_mm_shufflelo_epi16", 16), ("_mm256_shufflelo_epi16", 32)):
                    for imm in imms(6): ops.append("intr f=%s w=%d imm=%d a=%s" % (f, w, imm, rb(nb)))
            for imm in imms(10):
                ops.append("intr f=_mm256_permute2x128_si256 w=%d imm=%d a=%s b=%s" % (w, imm, rb(32), rb(32)))
                ops.append("intr f=_mm512_shuffle_f32x4 w=%d imm=%d a=%s b=%s" % (w, imm, rb(64), rb(64)))
                ops.append("intr f=_mm512_maskz_shuffle_i32x4 w=%d imm=%d k=%d a=%s b=%s" % (
                    w, imm, rng.choice([0xfff0, 0x0fff, 0xffff, 0, rng.randrange(65536)]), rb(64), rb(64)))
            for f, nb in (("_mm_alignr_epi8", 16), ("_mm256_alignr_epi8", 32), ("_mm512_alignr_epi8", 64)):
                for k in range(0, 33, B):
                    if k in (4, 12, 14, 15, 0, 16, 32) or rng.random() < 0.3:
                        ops.append("intr f=%s w=%d imm=%d a=%s b=%s" % (f, w, k, rb(nb), rb(nb)))
            ops.append("intr f=_mm_move_ss w=%d a=%s b=%s" % (w, rb(16), rb(16)))
            for idx in (0, 1): ops.append("intr f=_mm512_extracti32x8_epi32 w=%d imm=%d a=%s" % (w, idx, rb(64)))
            for f, nb in (("_mm_or_si128", 16), ("_mm256_or_si256", 32), ("_mm512_or_si512", 64), ("_mm_xor_si128", 16), ("_mm_and_si128", 16)):
                ops.append("intr f=%s w=%d a=%s b=%s" % (f, w, rb(nb), rb(nb)))
            for f, nb in (("_mm_movemask_epi8", 16), ("_mm256_movemask_epi8", 32)):
                for _ in range(3): ops.append("intr f=%s w=%d a=%s" % (f, w, rb(nb)))
        # scalar extractions (cut to the lane width of the helper's view), stores, constants, casts
        for w in (8, 16):
            for k in range(8): ops.append("intr f=_mm_extract_epi16 w=%d imm=%d a=%s" % (w, k, rb(16)))
            for k in sorted(set([0, 15] + rng.sample(range(16), 5))): ops.append("intr f=_mm256_extract_epi16 w=%d imm=%d a=%s" % (w, k, rb(32)))
        for k in sorted(set([0, 31] + rng.sample(range(32), 8))): ops.append("intr f=_mm256_extract_epi8 w=8 imm=%d a=%s" % (k, rb(32)))
        for w in (8, 16, 32):
            for _ in range(2): ops.append("intr f=_mm_cvtsi128_si32 w=%d a=%s" % (w, rb(16)))
            for k in range(8): ops.append("intr f=_mm256_extract_epi32 w=%d imm=%d a=%s" % (w, k, rb(32)))
        for _ in range(3):
            ops.append("intr f=_mm_store_ss w=32 a=%s" % rf(16))
            ops.append("intr f=_mm_set1_ps w=32 a=%s" % rf(16)); ops.append("intr f=_mm_set1_epi32 w=32 a=%s" % rb(16))
            ops.append("intr f=_mm_castps_si128 w=32 a=%s" % rf(16)); ops.append("intr f=_mm_castsi128_ps w=32 a=%s" % rb(16))
        ops.append("intr f=_mm_setzero_ps w=32 a=%s" % rb(16)); ops.append("intr f=_mm_setzero_si128 w=32 a=%s" % rb(16))
        for imm in imms(10):
            ops.append("intr f=_mm_shuffle_ps w=32 imm=%d a=%s b=%s" % (imm, rb(16), rb(16)))
            ops.append("intr f=_mm512_shuffle_ps w=32 imm=%d a=%s b=%s" % (imm, rb(64), rb(64)))
        ops.append("intr f=_mm512_extractf32x8_ps w=32 imm=1 a=%s" % rb(64))
        for _ in range(4):
            ops.append("intr f=_mm_srli_epi16 w=8 imm=8 a=%s" % rb(16))
            ops.append("intr f=_mm_srli_epi32 w=16 imm=16 a=%s" % rb(16))
            ops.append("intr f=_mm_srli_epi32 w=8 imm=%d a=%s" % (rng.choice([8, 16, 24]), rb(16)))
        for _ in range(12):
            for f, w, nb in (("_mm_max_epu8", 8, 16), ("_mm_max_epi8", 8, 16), ("_mm_max_epi16", 16, 16), ("_mm256_max_epu8", 8, 32),
                             ("_mm256_max_epi8", 8, 32), ("_mm256_max_epi16", 16, 32), ("_mm_cmpeq_epi8", 8, 16), ("_mm_cmpgt_epi16", 16, 16),
                             ("_mm256_cmpgt_epi16", 16, 32)):
                a = rb(nb); b = a if rng.random() < 0.1 else rb(nb)
                ops.append("intr f=%s w=%d a=%s b=%s" % (f, w, a, b))
            for f, nb in (("_mm_max_ps", 16), ("_mm_min_ps", 16), ("_mm_cmpgt_ps", 16), ("_mm_add_ps", 16), ("_mm256_add_ps", 32), ("_mm512_add_ps", 64)):
                ops.append("intr f=%s w=32 a=%s b=%s" % (f, rf(nb), rf(nb)))
            ops.append("intr f=_mm_movemask_ps w=32 a=%s" % rf(16))
            ops.append("intr f=_mm_blendv_ps w=32 a=%s b=%s m=%s" % (rf(16), rf(16), rng.choice([rf(16), rb(16), hex_u32s([rng.choice([0, 0xFFFFFFFF]) for _ in range(4)])])))
        fb = BOUNDARY["f"] + [0x4f000000, 0xcf000000, 0x4effffff, 0xcf000001, 0x4b7fffff, 0x3fc00000, 0xbfc00000, 0x3f000000, 0xbf000000, 0x3effffff,
                              0x42b0c0a5, 0xc2b0c0a5, 0x42fe0000, 0xc2fe0000, 0x7f800001, 0xffc00000]
        def rl():
            return hex_u32s([rng.choice(fb) if rng.random() < 0.5 else rng.choice([rng.randrange(1 << 32), bits_of_f32(rng.uniform(-300, 300)),
                             bits_of_f32(math.ldexp(rng.uniform(-1, 1), rng.randrange(-30, 40)))]) for _ in range(4)])
        for _ in range(30):
            for f in ("_mm_cvttps_epi32", "_mm_cvtepi32_ps"):
                ops.append("lane32 f=%s a=%s" % (f, rl()))
            for f in ("_mm_cmplt_ps", "_mm_cmpgt_ps", "_mm_cmple_ps", "_mm_cmpeq_epi32", "_mm_sub_epi32", "_mm_add_epi32", "_mm_and_ps", "_mm_or_ps",
                      "_mm_andnot_ps", "_mm_sub_ps", "_mm_mul_ps", "_mm_add_ps"):
                a = rl(); b = a if rng.random() < 0.15 else rl()
                ops.append("lane32 f=%s a=%s b=%s" % (f, a, b))
            ops.append("lane32 f=_mm_srli_epi32 imm=%d a=%s" % (rng.choice([23, 0, 1, 31, rng.randrange(32)]), rl()))
            ops.append("lane32 f=_mm_slli_epi32 imm=%d a=%s" % (rng.choice([23, 0, 1, 31, rng.randrange(32)]), rl()))
        return [{"name": "intr%d" % i, "ops": ops[i:i + 40]} for i in range(0, len(ops), 40)]

    # ---- helpers
    def rand_lane(self, rng, kind):
        if kind == "f":
            r = rng.random()
            if r < 0.25: return bits_of_f32(rng.uniform(-1000, 1000))
            if r < 0.4: return bits_of_f32(float(rng.randrange(-50, 50)))
            if r < 0.6: return bits_of_f32(math.ldexp(rng.uniform(-1, 1), rng.randrange(-140, 127)))
            if r < 0.85: return rng.randrange(1 << 32)
            return rng.choice(BOUNDARY["f"])
        return rng.randrange(1 << (8 * LANEB[kind]))

    def smaller(self, rng, kind, top):
        """a lane strictly smaller than `top` (in the lane order) where possible"""
        if kind == "u8": return rng.randrange(0, max(1, top))
        if kind == "i8": s = top - 256 if top >= 128 else top; v = rng.randrange(-128, max(-127, s)); return v & 0xff
        if kind == "i16": s = top - 65536 if top >= 32768 else top; v = rng.randrange(-32768, max(-32767, s)); return v & 0xffff
        return bits_of_f32(f32_of_bits(top) - abs(rng.uniform(0.5, 100)))

    def helper_cases(self, ctx):
        rng = ctx.rng
        quick = ctx.tier == "quick"
        ops = []
        for name, (nb, kind, args) in sorted(HELPERS.items()):
            n = nb // LANEB[kind]
            short = name.split("_", 2)[2]
            def emit(a, b=None, m=None):
                s = "simd f=%s a=%s" % (name, pack_lanes(kind, a))
                if "b" in args: s += " b=" + pack_lanes(kind, b if b is not None else [self.rand_lane(rng, kind) for _ in range(n)])
                if "m" in args: s += " m=" + pack_lanes(kind, m if m is not None else [rng.choice([0, 0xFFFFFFFF]) for _ in range(n)])
                ops.append(s)
            # (1) the maximum (resp. the distinguished value) placed in every lane
            for z in range(n):
                if kind == "f":
                    top = bits_of_f32(rng.choice([1.0, 1e30, -3.5, 0.0, 1e-40, math.inf, 123456.0]))
                else:
                    top = rng.choice({"u8": [255, 1, 200, 128], "i8": [127, 0, 0x80 + 1, 0xff], "i16": [0x7fff, 0, 0x8001, 0xffff, 300]}[kind])
                a = [self.smaller(rng, kind, top) for _ in range(n)]
                a[z] = top
                if short.startswith("any_gt"):
                    b = list(a); b[z] = self.smaller(rng, kind, top)      # exactly one lane with a > b ...
                    for j in range(n):
                        if j != z and rng.random() < 0.5: b[j] = a[j]
                    emit(a, b)
                    emit(b, a)                                             # ... and exactly one lane with a < b (must be false unless others)
                elif short == "hmin_ps":
                    a = [bits_of_f32(abs(f32_of_bits(x)) + 7.0) if not isnan32(x) else x for x in a]
                    a[z] = bits_of_f32(-abs(rng.uniform(0, 5)))
                    emit(a)
                else:
                    emit(a)
            # (2) every boundary value in every lane (quick: a random half of the lanes for the wide registers)
            for bv in BOUNDARY[kind]:
                lanes = range(n) if (n <= 16 or not quick) else sorted(rng.sample(range(n), 12))
                for z in lanes:
                    base = rng.choice([0, None, None])
                    a = [0 if base == 0 else self.rand_lane(rng, kind) for _ in range(n)]
                    a[z] = bv
                    if "b" in args and rng.random() < 0.5:
                        b = [rng.choice(BOUNDARY[kind]) for _ in range(n)]
                        emit(a, b)
                    else:
                        emit(a)
            # (3) dense random patterns
            for _ in range(24 if quick else 200):
                a = [self.rand_lane(rng, kind) for _ in range(n)]
                if short.startswith("any_gt") and rng.random() < 0.5:
                    b = list(a)
                    for j in range(n):
                        if rng.random() < 0.2: b[j] = self.rand_lane(rng, kind)
                    emit(a, b)
                elif short == "select_ps" and rng.random() < 0.3:
                    emit(a, None, [self.rand_lane(rng, "f") for _ in range(n)])
                elif short.startswith("rightshift_int"):
                    neg = {"u8": 0, "i8": 0x80, "i16": 0x8000}[kind] if rng.random() < 0.7 else self.rand_lane(rng, kind)
                    emit(a, [neg] + [0] * (n - 1) if rng.random() < 0.8 else None)
                else:
                    emit(a)
            # all-equal and all-boundary vectors
            for bv in BOUNDARY[kind]:
                emit([bv] * n, [bv] * n)
        rng.shuffle(ops)
        return [{"name": "simd%d" % i, "ops": ops[i:i + 50]} for i in range(0, len(ops), 50)]

    # ---- logf / expf
    def logexp_cases(self, ctx):
        rng = ctx.rng
        quick = ctx.tier == "quick"
        pats = {"logf": [], "expf": []}
        mant = [0, 1, 2, 0x7fffff, 0x7ffffe, 0x400000, 0x3fffff, 0x400001, 0x3504f3, 0x3504f2, 0x3504f4, 0x3504f5, 0x200000, 0x600000]
        for e in range(256):
            for s in (0, 1):
                for m in mant + [rng.randrange(1 << 23) for _ in range(4 if quick else 40)]:
                    u = (s << 31) | (e << 23) | m
                    pats["logf"].append(u); pats["expf"].append(u)
        def around(x, k, step=1):
            c = bits_of_f32(x)
            return [c + d * step for d in range(-k, k + 1)]
        K = 200 if quick else 5000
        for x in (1.0, 0.70710678, 1.41421356, 0.5, 2.0, 0.99, 1.01, 1.1754944e-38, 3.4028235e38):
            pats["logf"] += around(x, K)
        for x in (88.3762626647949, -88.3762626647949, 88.72, -88.72, 87.68312, -87.68312, -87.33654, 88.0296, -103.972, 0.0, -0.0,
                  0.34657359, -0.34657359, 1.0397207, 127.5 * 0.6931471805599453, -126.5 * 0.6931471805599453, -126.0 * 0.6931471805599453):
            pats["expf"] += around(x, K)
        n_rand = 3000 if quick else 200000
        for _ in range(n_rand):
            pats["logf"].append(bits_of_f32(math.exp(rng.uniform(-88, 88))))
            pats["logf"].append(bits_of_f32(rng.uniform(0.5, 2.0)))
            pats["expf"].append(bits_of_f32(rng.uniform(-104, 89.5)))
            pats["expf"].append(bits_of_f32(rng.choice([-1, 1]) * rng.uniform(87.0, 89.0)))
            pats["expf"].append(bits_of_f32(rng.uniform(-1, 1)))
        cases = []
        for f in ("logf", "expf"):
            us = [u & 0xFFFFFFFF for u in pats[f]]
            ops = []
            for i in range(0, len(us) - 3, 4):
                q = us[i:i + 4]
                r = rng.randrange(4)
                q = q[r:] + q[:r]                      # rotate lane positions
                ops.append("%s x=%s" % (f, hex_u32s(q)))
            for i in range(0, len(ops), 250):
                cases.append({"name": "%s%d" % (f, i // 250), "ops": ops[i:i + 250]})
        return cases

    # ---- vector routines
    def rand_vec(self, rng, n, style, T):
        f32 = T == "F"
        def fix(x):
            return f32_of_bits(bits_of_f32(x)) if f32 else x
        out = []
        for i in range(n):
            if style == "prob": x = rng.choice([0.0, rng.random(), rng.random() ** 4])
            elif style == "logp": x = rng.choice([-math.inf, -rng.uniform(0, 30), -rng.uniform(0, 900 if not f32 else 80), -rng.uniform(0, 1), 0.0]) + (rng.choice([0, -1000, 300]) if not f32 else rng.choice([0, -30, 20, -200, 110]))
            elif style == "ties": x = float(rng.randrange(-3, 4))
            elif style == "zeros": x = rng.choice([0.0, -0.0, 1.0, -1.0, 0.0])
            elif style == "wide": x = math.ldexp(rng.uniform(-1, 1), rng.randrange(-60, 60) if not f32 else rng.randrange(-30, 30))
            elif style == "kahan": x = 1.0 if i == 0 else rng.choice([1e-16, 3e-17, -2e-17]) if not f32 else rng.choice([1e-8, 3e-9, -2e-9])
            elif style == "cancel": x = rng.choice([1e15, -1e15, 1.0, 3.25, -0.5]) if not f32 else rng.choice([1e7, -1e7, 1.0, 3.25, -0.5])
            elif style == "inf": x = rng.choice([math.inf, -math.inf, 1.0, -5.0, 1e300 if not f32 else 1e38])
            else: x = rng.uniform(-10, 10)
            out.append(fix(x))
        return out

    def vec_cases(self, ctx):
        rng = ctx.rng
        quick = ctx.tier == "quick"
        ops = []
        edge_faults = []
        gen_faults = []
        lens = [1, 2, 3, 4, 5, 7, 8, 16, 17, 31, 64, 100, 255, 256, 999, 1000] + ([] if quick else [2000, 4096, 10000])
        def hx(T, v): return hex_f64s(v) if T == "D" else hex_f32s(v)
        def sb(T, x): return "%016x" % bits_of_f64(x) if T == "D" else "%08x" % bits_of_f32(x)
        for T in ("D", "F"):
            for rep in range(2 if quick else 8):
                for n in lens + [rng.randrange(1, 1000) for _ in range(3)]:
                    for style in (["uni", "ties", "zeros", "wide", "kahan", "cancel"] if rep == 0 else [rng.choice(["uni", "ties", "wide", "kahan", "cancel", "inf"])]):
                        if quick and n > 300 and rng.random() < 0.6: continue
                        v = self.rand_vec(rng, n, style, T)
                        sel = rng.sample(["Sum", "Max", "Min", "ArgMax", "ArgMin", "SortIncreasing", "SortDecreasing", "Reverse", "ReverseInPlace", "MatMax", "Scale", "Increment"], 4)
                        for o in sel:
                            if o in ("Scale", "Increment"): ops.append("vec op=%s%s x=%s s=%s" % (T, o, hx(T, v), sb(T, rng.choice([2.0, -0.5, 0.0, 1e10, 3.3]))))
                            elif o == "MatMax":
                                M = rng.choice([d for d in (1, 2, 3, 4, 5, 8) if n % d == 0])
                                ops.append("vec op=%sMatMax m=%d x=%s" % (T, M, hx(T, v)))
                                ops.append("vec op=%sMatScale m=%d x=%s s=%s" % (T, M, hx(T, v), sb(T, rng.choice([2.0, -0.5, 3.3]))))
                            elif o.startswith("Sort") and style == "zeros": continue   # order of +0/-0 is not determined by the comparator
                            elif o.startswith("Sort") and style == "inf": ops.append("vec op=%s%s x=%s" % (T, o, hx(T, v)))
                            else: ops.append("vec op=%s%s x=%s" % (T, o, hx(T, v)))
                        w = self.rand_vec(rng, n, rng.choice(["uni", "ties", "wide"]), T)
                        ops.append("vec op=%sDot x=%s y=%s" % (T, hx(T, v), hx(T, w)))
                        if rng.random() < 0.3: ops.append("vec op=%sSet x=%s s=%s" % (T, hx(T, v), sb(T, rng.choice([0.0, -1.5, 7.0]))))
                        if rng.random() < 0.3: ops.append("vec op=%sCopy x=%s" % (T, hx(T, v)))
                        if rng.random() < 0.3: ops.append("vec op=%sSwap x=%s y=%s" % (T, hx(T, v), hx(T, w)))
                        if rng.random() < 0.3: ops.append("vec op=%sAdd x=%s y=%s" % (T, hx(T, v), hx(T, w)))
                        if rng.random() < 0.3: ops.append("vec op=%sAddScaled x=%s y=%s s=%s" % (T, hx(T, v), hx(T, w), sb(T, rng.uniform(-3, 3))))
                    # probability vectors
                    p = self.rand_vec(rng, n, "prob", T)
                    ops.append("vec op=%sNorm x=%s" % (T, hx(T, p)))
                    ops.append("vec op=%sEntropy x=%s" % (T, hx(T, p)))
                    ops.append("vec op=%sCDF%s x=%s" % (T, rng.choice(["", "InPlace"]), hx(T, p)))
                    s = sum(p)
                    if s > 0:
                        pn = [x / s for x in p]
                        if T == "F": pn = [f32_of_bits(bits_of_f32(x)) for x in pn]
                        q = self.rand_vec(rng, n, "prob", T)
                        ops.append("vec op=%sEntropy x=%s" % (T, hx(T, pn)))
                        ops.append("vec op=%sRelEntropy x=%s y=%s" % (T, hx(T, pn), hx(T, q)))
                        ops.append("vec op=%sRelEntropy x=%s y=%s" % (T, hx(T, pn), hx(T, [x + 0.01 for x in q])))
                        ops.append("vec op=%sValidate x=%s s=%s" % (T, hx(T, pn), sb(T, rng.choice([1e-5, 1e-3, 0.0, 1e-12]))))
                        bad = list(pn); bad[rng.randrange(n)] = rng.choice([-0.1, 1.5, 2.0, -1e-30, math.inf, math.nan, -math.inf])
                        ops.append("vec op=%sValidate x=%s s=%s" % (T, hx(T, bad), sb(T, 1e-3)))
                        ops.append("vec op=%sValidate x=%s s=%s" % (T, hx(T, [x * 1.01 for x in pn]), sb(T, 1e-3)))
                        lp = [math.log(x) if x > 0 else -math.inf for x in pn]
                        l2 = [math.log2(x) if x > 0 else -math.inf for x in pn]
                        ops.append("vec op=%sLogValidate x=%s s=%s" % (T, hx(T, lp), sb(T, 1e-3)))      # valid: every version says ok
                        ops.append("vec op=%sLog2Validate x=%s s=%s" % (T, hx(T, l2), sb(T, 1e-3)))
                        ops.append("vec op=%sLogValidate x=%s s=%s" % (T, hx(T, [x + 0.5 for x in lp]), sb(T, 1e-6)))
                        ops.append("vec op=%sLog2Validate x=%s s=%s" % (T, hx(T, [x + 0.5 for x in l2]), sb(T, 1e-6)))
                        if n > 1: ops.append("vec op=%sLog2Validate x=%s s=%s" % (T, hx(T, l2[:-1] + [0.5]), sb(T, 1e-6)))
                    ops.append("vec op=%sNorm x=%s" % (T, hx(T, [0.0] * n)))
                    # log space
                    for _ in range(2):
                        lv = self.rand_vec(rng, n, "logp", T)
                        if rng.random() < 0.1: lv = [-math.inf] * n
                        if rng.random() < 0.1: lv[rng.randrange(n)] = math.inf
                        ops.append("vec op=%sLogSum x=%s" % (T, hx(T, lv)))
                        ops.append("vec op=%sLog2Sum x=%s" % (T, hx(T, lv)))
                        if not any(x == math.inf for x in lv):
                            ops.append("vec op=%sLogNorm x=%s" % (T, hx(T, lv)))
                            ops.append("vec op=%sLog2Norm x=%s" % (T, hx(T, lv)))
                    ops.append("vec op=%sLog x=%s" % (T, hx(T, self.rand_vec(rng, n, "prob", T))))
                    ops.append("vec op=%sExp x=%s" % (T, hx(T, self.rand_vec(rng, n, "logp", T))))
                    ops.append("vec op=%sLog2 x=%s" % (T, hx(T, self.rand_vec(rng, n, "prob", T))))
                    ops.append("vec op=%sExp2 x=%s" % (T, hx(T, self.rand_vec(rng, n, "logp", T))))
            for n in (10000, rng.randrange(5000, 10000)):          # the top of the quantifier's length range
                v = self.rand_vec(rng, n, rng.choice(["uni", "kahan", "ties"]), T)
                lv = self.rand_vec(rng, n, "logp", T)
                for o in ("Sum", "ArgMax", "Max", "SortIncreasing"): ops.append("vec op=%s%s x=%s" % (T, o, hx(T, v)))
                ops.append("vec op=%sLogSum x=%s" % (T, hx(T, lv))); ops.append("vec op=%sLogNorm x=%s" % (T, hx(T, lv)))
                ops.append("vec op=%sNorm x=%s" % (T, hx(T, self.rand_vec(rng, n, "prob", T))))
            ops.append("vec op=%sSum x=-" % T); ops.append("vec op=%sArgMax x=-" % T); ops.append("vec op=%sArgMin x=-" % T)
            ops.append("vec op=%sDot x=- y=-" % T); ops.append("vec op=%sNorm x=-" % T); ops.append("vec op=%sEntropy x=-" % T)
            ops.append("vec op=%sValidate x=- s=%s" % (T, sb(T, 0.1))); ops.append("vec op=%sSortIncreasing x=-" % T)
            for o in ("LogValidate", "Log2Validate", "Validate"):
                ops.append("vec op=%s%s x=- s=%s" % (T, o, sb(T, 0.1)))
                ops.append("vec op=%s%s x=%s s=%s" % (T, o, hx(T, [0.0] if o != "Validate" else [1.0]), sb(T, 1e-3)))      # n = 1, valid
                ops.append("vec op=%s%s x=%s s=%s" % (T, o, hx(T, [1.0] if o != "Validate" else [0.5]), sb(T, 1e-3)))      # n = 1, invalid
                ops.append("vec op=%s%s x=%s s=%s" % (T, o, hx(T, [-1.0] if o != "Validate" else [-0.5]), sb(T, 1e-3)))
        for T, k, lim in (("I", 4, 1000), ("L", 8, 2 ** 24)):
            for n in lens[:12] + [1000] + [rng.randrange(2, 500) for _ in range(4)]:
                for style in ("uni", "ties"):
                    v = [rng.randrange(-lim, lim) if style == "uni" else rng.randrange(-2, 3) for _ in range(n)]
                    w = [rng.randrange(-lim, lim) for _ in range(n)]
                    hv = b"".join(int(x).to_bytes(k, "little", signed=True) for x in v).hex()
                    hw = b"".join(int(x).to_bytes(k, "little", signed=True) for x in w).hex()
                    for o in ("Sum", "Max", "Min", "ArgMax", "ArgMin", "SortIncreasing", "SortDecreasing"):
                        ops.append("vec op=%s%s x=%s" % (T, o, hv))
                    ops.append("vec op=%sDot x=%s y=%s" % (T, hv, hw))
                    c = rng.choice([2, -3, 0, 7])
                    ops.append("vec op=%sScale x=%s k=%d" % (T, hv, c)); ops.append("vec op=%sIncrement x=%s k=%d" % (T, hv, c))
                    ops.append("vec op=%sAdd x=%s y=%s" % (T, hv, hw)); ops.append("vec op=%sAddScaled x=%s y=%s k=%d" % (T, hv, hw, c))
                    ops.append("vec op=%sSet x=%s k=%d" % (T, hv, c)); ops.append("vec op=%sCopy x=%s" % (T, hv)); ops.append("vec op=%sSwap x=%s y=%s" % (T, hv, hw))
                    if T == "L": ops.append("vec op=LReverse x=%s" % hv)
                    ops.append("vec op=%sReverseInPlace x=%s" % (T, hv))
                    if T == "I":
                        ops.append("vec op=IMatScale m=1 x=%s k=%d" % (hv, c))
                        ops.append("vec op=IReverse x=%s" % hv)
                        M = rng.choice([d for d in (1, 2, 3, 4, 5, 8) if n % d == 0])
                        ops.append("vec op=IMatMax m=%d x=%s" % (M, hv))
                # full-range values for every routine whose C code cannot overflow on them (order / move routines): a comparator or an
                # index computation that is only right inside a 2^31-wide window must show here
                bits = 8 * k
                lo, hi = -(1 << (bits - 1)), (1 << (bits - 1)) - 1
                edge = [lo, hi, lo + 1, hi - 1, 0, 1, -1, 2, -2, 1 << 30, -(1 << 30), 2000000000, -2000000000]
                if T == "L": edge += [1 << 31, -(1 << 31), (1 << 31) - 1, 1 << 32, -(1 << 32), 1 << 62, -(1 << 62), (1 << 32) + 5, 3]
                for style in ("edges", "mixed", "fullrandom", "two"):
                    if style == "edges": v = [rng.choice(edge) for _ in range(n)]
                    elif style == "mixed": v = [rng.choice(edge) if rng.random() < 0.3 else rng.randrange(-50, 50) for _ in range(n)]
                    elif style == "fullrandom": v = [rng.randrange(lo, hi + 1) for _ in range(n)]
                    else:
                        v = [rng.randrange(-5, 5) for _ in range(n)]
                        a, b = rng.choice([(lo, hi), (-2000000000, 2000000000), (lo, 1), (0, 1 << (bits - 1 - (0 if T == "I" else 31))), (hi, -1)])
                        a = max(lo, min(hi, a)); b = max(lo, min(hi, b))
                        v[rng.randrange(n)] = a; v[rng.randrange(n)] = b
                    w = [rng.randrange(lo, hi + 1) for _ in range(n)]
                    hv = b"".join(int(x).to_bytes(k, "little", signed=True) for x in v).hex()
                    hw = b"".join(int(x).to_bytes(k, "little", signed=True) for x in w).hex()
                    for o in ("Max", "Min", "ArgMax", "ArgMin", "SortIncreasing", "SortDecreasing", "ReverseInPlace", "Reverse", "Copy"):
                        ops.append("vec op=%s%s x=%s" % (T, o, hv))
                    ops.append("vec op=%sSwap x=%s y=%s" % (T, hv, hw))
                    ops.append("vec op=%sSet x=%s k=%d" % (T, hv, rng.choice([lo, hi, 0, -1])))
                    # the arithmetic routines on the same extreme vectors: where every intermediate value of C's evaluation order is
                    # representable the exact result is demanded, otherwise the documented undefined behaviour (UBSan abort = model `none`)
                    if n <= 64:
                        ws = rng.choice([w, [rng.choice([0, 1, -1, 2, -2]) for _ in range(n)], [rng.choice(edge) for _ in range(n)]])
                        hws = b"".join(int(x).to_bytes(k, "little", signed=True) for x in ws).hex()
                        if style in ("edges", "two") and rng.random() < 0.5:      # cancelling arrangement: partial sums stay in range
                            vv = []
                            for x in v[: n // 2]: vv += [x, -x if x != lo else hi]
                            v2 = (vv + [0] * n)[:n]
                        else: v2 = v
                        hv2 = b"".join(int(x).to_bytes(k, "little", signed=True) for x in v2).hex()
                        c = rng.choice([0, 1, -1, 2, -2, hi, lo, 3])
                        for (o, yy, cc) in (("Sum", None, None), ("Dot", ws, None), ("Scale", None, c), ("Increment", None, c), ("Add", ws, None), ("AddScaled", ws, c)):
                            line = "vec op=%s%s x=%s" % (T, o, hv2)
                            if yy is not None: line += " y=" + hws
                            if cc is not None: line += " k=%d" % cc
                            if self.int_ref(T, o, v2, yy or [], cc if cc is not None else 1) == "fault": gen_faults.append(line)
                            else: ops.append(line)
                    if T == "I":
                        M = rng.choice([d for d in (1, 2, 3, 4, 5, 8) if n % d == 0])
                        ops.append("vec op=IMatMax m=%d x=%s" % (M, hv))
        # arithmetic at the edge of the representable range: exact results that stay representable, and a few whose true value does not
        # (signed overflow: UBSan aborts the C side, the regenerated model answers `none`; both are `fault`)
        for T, k in (("I", 4), ("L", 8)):
            bits = 8 * k; lo, hi = -(1 << (bits - 1)), (1 << (bits - 1)) - 1
            def hxi(v): return b"".join(int(x).to_bytes(k, "little", signed=True) for x in v).hex() or "-"
            r = 1 << (bits // 2)
            okc = [("Sum", [hi, lo] * rng.randrange(1, 6), None, None), ("Sum", [hi - 5, 1, 1, 1, 1, 1], None, None), ("Sum", [lo + 2, -1, -1, hi, hi], None, None),
                   ("Sum", [lo], None, None), ("Sum", [hi, lo, hi, lo, hi], None, None),
                   ("Dot", [lo, 3], [1, -7], None), ("Dot", [r, r], [r // 2 - 1, -(r // 2 - 1)], None), ("Dot", [hi, hi, 1], [1, -1, lo], None),
                   ("Dot", [r // 2, r // 2], [r, -r], None), ("Dot", [-r // 2], [r], None),
                   ("Scale", [hi, -hi, 0, 1, lo + 1], None, -1), ("Scale", [lo, hi, 5], None, 1), ("Scale", [lo, hi, -1], None, 0), ("Scale", [lo // 2, hi // 2, -(r // 2)], None, 2),
                   ("Scale", [r - 1, -r], None, r // 2), ("MatScale", [lo // 2, hi // 2], None, 2),
                   ("Increment", [hi - 3, lo, 0], None, 3), ("Increment", [lo + 3, hi, 0], None, -3), ("Increment", [lo, hi], None, 0), ("Increment", [-1, 0], None, hi), ("Increment", [0, -1], None, lo),
                   ("Add", [hi, lo, hi - 1, lo + 1, 0], [lo, hi, 1, -1, lo], None), ("Add", [hi, lo], [0, 0], None),
                   ("AddScaled", [hi, lo, 0, -1], [1, -1, hi, hi], -1), ("AddScaled", [0, 0], [lo // 2, hi // 2], 2), ("AddScaled", [lo, hi], [hi, lo], 0),
                   ("AddScaled", [hi - 6, lo + 6], [3, 3], 2), ("AddScaled", [-1], [lo + 1], 1)]
            bad = [("Sum", [hi, 1], None, None), ("Sum", [lo, -1], None, None), ("Sum", [1, 2, hi - 2, 0], None, None), ("Dot", [lo], [-1], None), ("Dot", [r, 1], [r // 2, 0], None),
                   ("Dot", [hi, hi], [1, 1], None), ("Scale", [0, lo], None, -1), ("Scale", [r], None, r // 2), ("Increment", [0, hi], None, 1), ("Increment", [lo], None, -1),
                   ("Add", [5, hi], [5, 1], None), ("Add", [lo], [-1], None), ("AddScaled", [0], [lo], -1), ("AddScaled", [hi], [1], 1), ("AddScaled", [0], [r], r)]
            if T == "L": okc = [c for c in okc if c[0] != "MatScale"]
            flt = []
            for (o, v, w, c) in okc + bad:
                line = "vec op=%s%s x=%s" % (T, o, hxi(v))
                if w is not None: line += " y=" + hxi(w)
                if c is not None: line += " k=%d" % c
                if o == "MatScale": line += " m=1"
                if self.int_ref(T, o, v, w or [], c if c is not None else 1) == "fault": flt.append(line)
                else: ops.append(line)
            edge_faults += rng.sample(flt, min(len(flt), 4 if quick else len(flt)))
        edge_faults += rng.sample(gen_faults, min(len(gen_faults), 8 if quick else 60))
        self._n_gen_faults = len(gen_faults)
        # the routines on a prefix of the buffer (n smaller than the allocation), the flat matrix routines, char reversal
        for T, k in (("D", 8), ("F", 4), ("I", 4), ("L", 8)):
            for _ in range(6 if quick else 30):
                n = rng.choice([1, 2, 3, 5, 8, 33, rng.randrange(1, 200)])
                if T in "DF":
                    v = self.rand_vec(rng, n, rng.choice(["uni", "ties", "wide", "zeros"]), T); w = self.rand_vec(rng, n, "uni", T)
                    hv, hw = (hex_f64s(v), hex_f64s(w)) if T == "D" else (hex_f32s(v), hex_f32s(w))
                    sc = "s=" + (("%016x" % bits_of_f64(1.5)) if T == "D" else ("%08x" % bits_of_f32(1.5)))
                else:
                    lim = 1000
                    v = [rng.randrange(-lim, lim) for _ in range(n)]; w = [rng.randrange(-lim, lim) for _ in range(n)]
                    hv = b"".join(int(x).to_bytes(k, "little", signed=True) for x in v).hex(); hw = b"".join(int(x).to_bytes(k, "little", signed=True) for x in w).hex()
                    sc = "k=%d" % rng.choice([2, -3, 7])
                m = rng.randrange(0, n + 1)
                if m == 0 and rng.random() < 0.7: m = max(1, n // 2)
                for o in rng.sample(["Set", "Scale", "Increment", "Sum", "ArgMax", "ArgMin", "Copy", "Reverse", "ReverseInPlace", "SortIncreasing", "SortDecreasing"], 4):
                    ops.append("vec op=%s%s x=%s %s n=%d" % (T, o, hv, sc, m))
                for o in rng.sample(["Add", "AddScaled", "Dot", "Swap"], 2):
                    ops.append("vec op=%s%s x=%s y=%s %s n=%d" % (T, o, hv, hw, sc, m))
                if m >= 1:
                    for o in ("Max", "Min"): ops.append("vec op=%s%s x=%s n=%d" % (T, o, hv, m))
                if T != "L":
                    M = rng.choice([d for d in (1, 2, 3, 4, 5, 8) if n % d == 0])
                    ops.append("vec op=%sMatSet m=%d x=%s %s" % (T, M, hv, sc)); ops.append("vec op=%sMatCopy m=%d x=%s" % (T, M, hv))
        for n in (0, 1, 2, 3, 8, 9, 64, 65, rng.randrange(1, 600)):
            cb = bytes(rng.randrange(256) for _ in range(n)).hex() or "-"
            ops.append("vec op=CReverse x=%s" % cb); ops.append("vec op=CReverseInPlace x=%s" % cb)
            if n >= 1:
                M = rng.choice([d for d in (1, 2, 3, 4, 8) if n % d == 0])
                ops.append("vec op=WMatCopy m=%d x=%s" % (M, bytes(rng.randrange(256) for _ in range(2 * n)).hex()))
                ops.append("vec op=BMatCopy m=%d x=%s" % (M, cb))
        for n in (0, 1, 2, 7, 64, 255, rng.randrange(1, 600)):
            ops.append("vec op=WCopy x=%s" % (bytes(rng.randrange(256) for _ in range(2 * n)).hex() or "-"))
            ops.append("vec op=BCopy x=%s" % (bytes(rng.randrange(256) for _ in range(n)).hex() or "-"))
        rng.shuffle(ops)
        return ([{"name": "vec%d" % i, "ops": ops[i:i + 30]} for i in range(0, len(ops), 30)]
                + [{"name": "vec-overflow%d" % i, "ops": [l]} for i, l in enumerate(edge_faults)])

    # ---- matrices
    def mat_cases(self, ctx):
        rng = ctx.rng
        ops = []
        shapes = [(1, 1), (1, 7), (7, 1), (2, 2), (3, 5), (5, 3), (4, 4), (8, 16), (16, 8), (13, 17), (1, 100), (100, 1), (31, 33)]
        shapes += [(rng.randrange(1, 40), rng.randrange(1, 40)) for _ in range(6)]
        esz = {"D": 8, "F": 4, "I": 4, "C": 1}
        for T in "DFIC":
            for (M, N) in shapes:
                if T == "D": x = hex_f64s([rng.uniform(-9, 9) for _ in range(M * N)])
                elif T == "F": x = hex_f32s([rng.uniform(-9, 9) for _ in range(M * N)])
                elif T == "I": x = b"".join(int(rng.randrange(-999, 999)).to_bytes(4, "little", signed=True) for _ in range(M * N)).hex()
                else: x = bytes(rng.randrange(1, 127) for _ in range(M * N)).hex()
                ops.append("mat op=%sSizeof m=%d n=%d" % (T, M, N))
                ops.append("mat op=%sRows m=%d n=%d x=%s" % (T, M, N, x))
                for (M2, N2) in ((M + rng.randrange(0, 5), N + rng.randrange(0, 5)), (M + 1, N), (M, N + 1), (M * 2, N * 2), (M, N)):
                    ops.append("mat op=%sGrowTo m=%d n=%d m2=%d n2=%d x=%s" % (T, M, N, M2, N2, x))
                if T != "C":
                    ops.append("mat op=%sClone m=%d n=%d x=%s" % (T, M, N, x))
                    ops.append("mat op=%sCopy m=%d n=%d x=%s" % (T, M, N, x))
                    if T == "I": ops.append("mat op=ISet m=%d n=%d x=%s k=%d" % (M, N, x, rng.randrange(-5, 5)))
                    else: ops.append("mat op=%sSet m=%d n=%d x=%s s=%s" % (T, M, N, x, ("%016x" % bits_of_f64(2.5)) if T == "D" else ("%08x" % bits_of_f32(-1.25))))
        rng.shuffle(ops)
        return [{"name": "mat%d" % i, "ops": ops[i:i + 40]} for i in range(0, len(ops), 40)]

    def mat_check(self, kvs, line):
        T, name = kvs["op"][0], kvs["op"][1:]
        M, N = int(kvs.get("m", 1)), int(kvs.get("n", 1))
        esz = {"D": 8, "F": 4, "I": 4, "C": 1}[T]
        w = line.split()
        if name == "Sizeof":
            return None if w[1] == str(esz * M * N + 8 * M) else "%sSizeof(%d,%d) = %s" % (T, M, N, w[1])
        x = kvs.get("x", "-")
        if name in ("Rows", "Clone", "Copy"):
            return None if w[1] == x else "esl_mat_%s%s (%dx%d): cells read through the row pointers differ from the cells written" % (T, name, M, N)
        if name == "Set":
            got = unhex(w[1])
            return None if len(got) == esz * M * N and len(set(got[i:i + esz] for i in range(0, len(got), esz))) == 1 else "esl_mat_%sSet: not constant / wrong size" % T
        if name == "GrowTo":
            M2, N2 = int(kvs["m2"]), int(kvs["n2"])
            keep = min(M * N, M2 * N2) * esz * 2
            if w[1] != "kept=" + (x[:keep] or "-"): return "esl_mat_%sGrowTo: the first cells of the block were not preserved" % T
            if w[2] != "rows=rowmajor": return "esl_mat_%sGrowTo (%dx%d -> %dx%d): row pointers do not tile the block in row-major order" % (T, M, N, M2, N2)
        return None

    # ---- the qsort comparators themselves
    def cmp_cases(self, ctx):
        rng = ctx.rng
        ops = []
        dv = [0.0, -0.0, 1.0, -1.0, 1.5, math.inf, -math.inf, 1e308, -1e308, 5e-324, 2.0 ** 53, 1.0000000000000002]
        fv = [0.0, -0.0, 1.0, -1.0, 1.5, math.inf, -math.inf, 3e38, -3e38, 1e-45, 16777216.0, 1.0000001]
        iv = [0, 1, -1, 2, -(1 << 31), (1 << 31) - 1, 2000000000, -2000000000, 1 << 30, 7]
        lv = iv + [1 << 31, -(1 << 31) - 1, 1 << 32, -(1 << 32), (1 << 63) - 1, -(1 << 63), 1 << 62, (1 << 32) + 1]
        for T, vals, enc in (("D", dv, lambda x: "%016x" % bits_of_f64(x)), ("F", fv, lambda x: "%08x" % bits_of_f32(x)),
                             ("I", iv, lambda x: "%08x" % (x & 0xFFFFFFFF)), ("L", lv, lambda x: "%016x" % (x & 0xFFFFFFFFFFFFFFFF))):
            pairs = [(a, b) for a in vals for b in vals]
            rng.shuffle(pairs)
            for a, b in pairs[:60] + [(x, x) for x in vals[:4]]:
                for d in ("Increasing", "Decreasing"):
                    ops.append("cmp op=%s%s a=%s b=%s" % (T, d, enc(a), enc(b)))
        return [{"name": "cmp%d" % i, "ops": ops[i:i + 60]} for i in range(0, len(ops), 60)]

    # ---- approximate / exact equality of vectors, esl_{D,F}Compare_old, conversions
    def compare_cases(self, ctx):
        rng = ctx.rng
        quick = ctx.tier == "quick"
        ops = []
        inf, nan = math.inf, math.nan
        for T in "DF":
            enc = (lambda x: "%016x" % bits_of_f64(x)) if T == "D" else (lambda x: "%08x" % bits_of_f32(x))
            fix = (lambda x: x) if T == "D" else (lambda x: f32_of_bits(bits_of_f32(x)))
            big, tiny, eps = (1e308, 5e-324, 2.0 ** -52) if T == "D" else (3e38, 1.5e-45, 2.0 ** -23)
            vals = [0.0, -0.0, 1.0, -1.0, 1.0 + eps, 1.0 - eps / 2, 1.01, 0.99, 2.0, 1e-3, -1e-3, tiny, -tiny, big, -big, inf, -inf, nan, 3.0, -3.0, 1e-9, 100.0, 101.0]
            tols = [0.0, eps, 1e-6, 0.01, 0.1, 1.0, 2.0, 2.5, inf, nan, -1.0, tiny]
            pairs = [(a, b) for a in vals for b in vals]
            rng.shuffle(pairs)
            for a, b in pairs[: (160 if quick else len(pairs))] + [(x, -x) for x in (1.0, tiny, big, 0.5)] + [(inf, -inf), (nan, nan), (inf, nan), (0.0, -0.0)]:
                for t in rng.sample(tols, 3):
                    ops.append("cmpold op=%s a=%s b=%s s=%s" % (T, enc(fix(a)), enc(fix(b)), enc(fix(t))))
            for _ in range(150 if quick else 2000):      # relative differences on both sides of the tolerance
                a = fix(math.ldexp(rng.uniform(0.5, 1), rng.randrange(-40, 40)) * rng.choice([1, -1]))
                t = fix(rng.choice([1e-6, 1e-3, 0.01, 0.5, 1.9, 2.0, 2.1, 1e-12 if T == "D" else 1e-5]))
                r = t * rng.choice([0.5, 0.9, 0.999, 1.001, 1.1, 2.0, 1.0])
                b = fix(a * (1 + r) if rng.random() < 0.5 else a * (1 - r))
                if rng.random() < 0.1: b = -b
                ops.append("cmpold op=%s a=%s b=%s s=%s" % (T, enc(a), enc(b), enc(t)))
            hx = hex_f64s if T == "D" else hex_f32s
            for n in [0, 1, 2, 3, 8, 17, 64, 255, rng.randrange(2, 400)]:
                for rep in range(3 if quick else 12):
                    x = self.rand_vec(rng, n, rng.choice(["uni", "ties", "wide", "zeros", "inf"]), T)
                    t = fix(rng.choice([0.0, 1e-6, 0.01, 1.0]))
                    ys = [list(x)]
                    if n:
                        for pos in {0, n - 1, rng.randrange(n)}:
                            y = list(x)
                            y[pos] = fix(rng.choice([y[pos] * (1 + 3 * t) + 1e-3, y[pos] * (1 + t / 3), -y[pos] if y[pos] else 1.0, 0.0, nan, inf, y[pos] + 1.0]))
                            ys.append(y)
                    for y in ys:
                        line = "vec op=%sCompare x=%s y=%s s=%s" % (T, hx(x), hx(y), enc(t))
                        if n > 1 and rng.random() < 0.3: line += " n=%d" % rng.randrange(0, n)
                        ops.append(line)
                        if n and rng.random() < 0.3:
                            M = rng.choice([d for d in (1, 2, 3, 4, 5, 8) if n % d == 0])
                            ops.append("vec op=%sMatCompare m=%d x=%s y=%s s=%s" % (T, M, hx(x), hx(y), enc(t)))
        for T, k in (("I", 4), ("L", 8)):
            bits = 8 * k; lo, hi = -(1 << (bits - 1)), (1 << (bits - 1)) - 1
            edge = [lo, hi, 0, 1, -1, 1 << 30, -(1 << 30), 2000000000] + ([1 << 31, 1 << 32, -(1 << 32), 1 << 62, (1 << 32) + 5] if T == "L" else [])
            def hxi(v): return b"".join(int(x).to_bytes(k, "little", signed=True) for x in v).hex() or "-"
            for n in [0, 1, 2, 3, 8, 17, 64, 255, rng.randrange(2, 400)]:
                for rep in range(4 if quick else 16):
                    x = [rng.choice(edge) if rng.random() < 0.3 else rng.randrange(-50, 50) for _ in range(n)]
                    ys = [list(x)]
                    if n:
                        for pos in {0, n - 1, rng.randrange(n)}:
                            y = list(x)
                            # differences that a narrower comparison would miss: only the sign bit, only bits >= 32, +-1
                            d = rng.choice([1, -1, 1 << (bits - 1), 1 << (bits - 2)] + ([1 << 32, 1 << 33, 1 << 40] if T == "L" else [1 << 16]))
                            y[pos] = ((y[pos] + d - lo) % (1 << bits)) + lo
                            ys.append(y)
                    for y in ys:
                        line = "vec op=%sCompare x=%s y=%s" % (T, hxi(x), hxi(y))
                        if n > 1 and rng.random() < 0.3: line += " n=%d" % rng.randrange(0, n)
                        ops.append(line)
                        if T == "I" and n and rng.random() < 0.3:
                            M = rng.choice([d for d in (1, 2, 3, 4, 5, 8) if n % d == 0])
                            ops.append("vec op=IMatCompare m=%d x=%s y=%s" % (M, hxi(x), hxi(y)))
        # conversions
        dspec = [0.0, -0.0, 1.0, -1.0, inf, -inf, nan, 3.4028234663852886e38, 3.4028235677973366e38, 3.4028235677973362e38, 3.402823669209385e38, 1e39, -1e39, 1e300,
                 1.401298464324817e-45, 7.006492321624085e-46, 7.006492321624087e-46, 7.0e-46, 1e-46, 1.1754943508222875e-38, 1.1754942e-38, 5e-324,
                 1.0 + 2.0 ** -24, 1.0 + 2.0 ** -24 + 2.0 ** -50, 1.0 + 3 * 2.0 ** -24, 1.0 - 2.0 ** -25, 16777217.0, 16777219.0, 0.1, 1 / 3.0]
        for _ in range(6 if quick else 40):
            n = rng.choice([0, 1, 5, 33, rng.randrange(1, 300)])
            v = [rng.choice(dspec) if rng.random() < 0.4 else rng.choice([rng.uniform(-10, 10), math.ldexp(rng.uniform(-1, 1), rng.randrange(-160, 140)), f64_of_bits(rng.randrange(1 << 64))]) for _ in range(n)]
            ops.append("cvt op=D2F x=%s" % hex_f64s(v))
            ops.append("cvt op=F2D x=%s" % hex_u32s([rng.choice(BOUNDARY["f"]) if rng.random() < 0.3 else rng.randrange(1 << 32) for _ in range(n)]))
            iv = [rng.choice([0, 1, -1, 16777216, 16777217, 16777219, -16777217, 33554433, 33554434, 33554435, (1 << 31) - 1, -(1 << 31), (1 << 31) - 64, (1 << 31) - 65, 2147483520, 2147483583, 2147483584, 123456789])
                  if rng.random() < 0.5 else rng.randrange(-(1 << 31), 1 << 31) for _ in range(n)]
            hv = b"".join(int(x).to_bytes(4, "little", signed=True) for x in iv).hex() or "-"
            ops.append("cvt op=I2F x=%s" % hv); ops.append("cvt op=I2D x=%s" % hv)
        rng.shuffle(ops)
        return [{"name": "compare%d" % i, "ops": ops[i:i + 40]} for i in range(0, len(ops), 40)]

    @staticmethod
    def cmpold_spec(T, a, b, tol):
        """documented meaning of esl_{D,F}Compare_old on exact values: 0 (eslOK) / 1 (eslFAIL) / None (too close to the tolerance to call)"""
        if math.isinf(a) and math.isinf(b): return 0          # (any signs: the code's `isinf(a) && isinf(b)`)
        if math.isnan(a) and math.isnan(b): return 0
        if not math.isfinite(a) or not math.isfinite(b): return 1
        if a == b: return 0
        if math.isnan(tol): return 1
        # one side zero: `fabs(other) <= tol`, else the relative test, whose quotient is then exactly 2 (so any tol >= 2 accepts)
        top = 2.0 ** 1022 if T == "D" else 2.0 ** 126
        if a == 0 or b == 0:
            o = abs(b) if a == 0 else abs(a)
            if o <= tol: return 0
            if o >= top: return None
            return 0 if tol >= 2 else 1
        fa, fb = Fraction(a), Fraction(b)
        if abs(fa - fb) >= Fraction(top): return None
        if fa + fb == 0: return 0 if tol == math.inf else 1
        if tol == math.inf: return 0
        if tol == -math.inf: return 1
        q = 2 * abs(fa - fb) / abs(fa + fb); ft = Fraction(tol)
        slack = Fraction(1, 10 ** 12) if T == "D" else Fraction(1, 10 ** 5)
        if tol == 0 or abs(q - ft) <= slack * max(q, abs(ft)): return None
        if T == "F" and (abs(fa - fb) < Fraction(2) ** -120 or abs(fa + fb) < Fraction(2) ** -120 or abs(fa + fb) > Fraction(2) ** 127): return None   # a-b / a+b rounded in binary32
        if T == "D" and (abs(fa - fb) < Fraction(2) ** -1000 or abs(fa + fb) < Fraction(2) ** -1000 or abs(fa + fb) > Fraction(2) ** 1023 or q > Fraction(2) ** 1000): return None
        return 0 if q <= ft else 1

    def compare_check(self, name, kvs, line):
        got = line.split()[1] if len(line.split()) > 1 else ""
        if name == "cmpold":
            T = kvs["op"]
            dec = (lambda h: f64_of_bits(int(h, 16))) if T == "D" else (lambda h: f32_of_bits(int(h, 16)))
            a, b, t = dec(kvs["a"]), dec(kvs["b"]), dec(kvs["s"])
            e = self.cmpold_spec(T, a, b, t)
            return None if e is None or got == str(e) else "esl_%sCompare_old(%r, %r, %r) = %s, documented result %d" % (T, a, b, t, got, e)
        if name == "cvt":
            o = kvs["op"]; xb = unhex(kvs.get("x", "-"))
            if o == "D2F":
                exp = []
                for x in f64s(xb):
                    try: u = bits_of_f32(x)
                    except OverflowError: u = 0x7f800000 if x > 0 else 0xff800000
                    exp.append(0x7fc00000 if isnan32(u) else u)
                e = hex_u32s(exp)
            elif o == "F2D":
                e = b"".join(struct.pack("<Q", 0x7ff8000000000000 if isnan32(u) else bits_of_f64(f32_of_bits(u))) for u in u32s(xb)).hex() or "-"
            else:
                iv = [int.from_bytes(xb[i:i + 4], "little", signed=True) for i in range(0, len(xb), 4)]
                e = hex_u32s([bits_of_f32(float(x)) for x in iv]) if o == "I2F" else (hex_f64s([float(x) for x in iv]))
            return None if got == e else "esl_vec_%s: element-wise conversion differs (got %s, expected %s)" % (o, got[:48], e[:48])
        return None

    def cmp_check(self, kvs, line):
        T, inc = kvs["op"][0], kvs["op"][1:] == "Increasing"
        ua, ub = int(kvs["a"], 16), int(kvs["b"], 16)
        if T == "D": a, b = f64_of_bits(ua), f64_of_bits(ub)
        elif T == "F": a, b = f32_of_bits(ua), f32_of_bits(ub)
        elif T == "I": a, b = (ua ^ 0x80000000) - 0x80000000, (ub ^ 0x80000000) - 0x80000000
        else: a, b = (ua ^ (1 << 63)) - (1 << 63), (ub ^ (1 << 63)) - (1 << 63)
        exp = (a > b) - (a < b)
        if not inc: exp = -exp
        return None if line.split()[1] == str(exp) else "qsort_%s%s(%r, %r) has sign %s, a three-way comparison gives %d" % (T, kvs["op"][1:], a, b, line.split()[1], exp)

    @staticmethod
    def int_ref(T, name, x, y, c):
        """the I/L arithmetic routines with C's evaluation order on mathematical integers: result, or "fault" when an intermediate
        value is not representable (signed overflow: undefined behaviour, reported by UBSan)"""
        k = 32 if T == "I" else 64
        lo, hi = -(1 << (k - 1)), (1 << (k - 1)) - 1
        def ck(v):
            if not lo <= v <= hi: raise OverflowError
            return v
        try:
            if name == "Sum":
                acc = 0
                for v in x: acc = ck(acc + v)
                return acc
            if name == "Dot":
                acc = 0
                for a, b in zip(x, y): acc = ck(acc + ck(a * b))
                return acc
            if name in ("Scale", "MatScale"): return [ck(v * c) for v in x]
            if name == "Increment": return [ck(v + c) for v in x]
            if name == "Add": return [ck(a + b) for a, b in zip(x, y)]
            if name == "AddScaled": return [ck(a + ck(b * c)) for a, b in zip(x, y)]
        except OverflowError:
            return "fault"
        return None

    def expected_fault(self, op):
        """is a death of the implementation on this op the documented undefined behaviour (signed overflow of the true result)?"""
        name, kvs = kv(op)
        if name != "vec" or kvs.get("op", " ")[0] not in "IL": return False
        T, nm = kvs["op"][0], kvs["op"][1:]
        k = 4 if T == "I" else 8
        def ints(h):
            b = unhex(h)
            return [int.from_bytes(b[i:i + k], "little", signed=True) for i in range(0, len(b), k)]
        x, y = ints(kvs.get("x", "-")), ints(kvs.get("y", "-"))
        if "n" in kvs: x, y = x[:max(0, int(kvs["n"]))], y[:max(0, int(kvs["n"]))]
        return self.int_ref(T, nm, x, y, int(kvs.get("k", "1"))) == "fault"

    def cases(self, ctx):
        out = self.cmp_cases(ctx) + self.compare_cases(ctx) + self.intr_cases(ctx) + self.helper_cases(ctx) + self.logexp_cases(ctx) + self.vec_cases(ctx) + self.mat_cases(ctx)
        st = {}
        for c in out:
            for op in c["ops"]:
                w = op.split()
                key = w[0] + ":" + (w[1].split("=")[1] if len(w) > 1 and w[0] in ("simd", "intr", "vec", "lane32", "mat", "cmp", "cmpold", "cvt") else "")
                st[key] = st.get(key, 0) + 1
        self._dist = st
        return out

    # ------------------------------------------------------------------------------------------ comparison / monitors
    def canonical(self, line):
        if line.startswith("fault"): return "fault"
        return line

    def nontrivial(self, case, out):
        return len(out) >= 1 and all(l.startswith("ok") for l in out)

    def vec_check(self, op, kvs, line):
        """specification of a vector routine evaluated exactly / in high precision on the implementation's output.
        Returns None or a message."""
        T, name = op[0], op[1:]
        if "n" in kvs and T in "DFILWBC":                      # the routine was run on a prefix of the buffers
            esz = {"D": 8, "F": 4, "I": 4, "L": 8, "W": 2, "B": 1, "C": 1}[T]
            lim = 2 * esz * max(0, int(kvs["n"]))
            kvs = dict(kvs)
            for key in ("x", "y"):
                if key in kvs and kvs[key] != "-": kvs[key] = kvs[key][:lim] or "-"
            del kvs["n"]
        if T in "WB":
            return None if line.split()[1:2] == [kvs.get("x", "-")] else "%s%s: output differs from input" % (T, name)
        if T == "C":
            xb = unhex(kvs.get("x", "-"))
            return None if line.split()[1:2] == [xb[::-1].hex() or "-"] else "CReverse: output is not the reversed input"
        if T in "IL":
            k = 4 if T == "I" else 8
            xb = unhex(kvs.get("x", "-"))
            x = [int.from_bytes(xb[i:i + k], "little", signed=True) for i in range(0, len(xb), k)]
            res = line.split()[1] if len(line.split()) > 1 else ""
            yb0 = unhex(kvs.get("y", "-")); y0 = [int.from_bytes(yb0[i:i + k], "little", signed=True) for i in range(0, len(yb0), k)]
            if self.int_ref(T, name, x, y0, int(kvs.get("k", "1"))) == "fault":
                return "%s%s: the true result is not representable (signed overflow) but the routine answered %s" % (T, name, res[:40])
            if name in ("Compare", "MatCompare"): exp = "0" if x == y0 else "1"
            elif name == "Sum": exp = str(sum(x))
            elif name in ("Max", "MatMax"): exp = str(max(x))
            elif name == "MatSet": exp = b"".join(int(kvs.get("k", "1")).to_bytes(k, "little", signed=True) for v in x).hex() or "-"
            elif name == "MatCopy": exp = kvs.get("x", "-")
            elif name == "Min": exp = str(min(x))
            elif name == "ArgMax": exp = str(x.index(max(x)) if x else 0)
            elif name == "ArgMin": exp = str(x.index(min(x)) if x else 0)
            elif name == "Dot":
                yb = unhex(kvs.get("y", "-")); y = [int.from_bytes(yb[i:i + k], "little", signed=True) for i in range(0, len(yb), k)]
                exp = str(sum(a * b for a, b in zip(x, y)))
            elif name in ("Set", "Copy", "Swap"):
                c = int(kvs.get("k", "1"))
                yb = unhex(kvs.get("y", "-")); y = [int.from_bytes(yb[i:i + k], "little", signed=True) for i in range(0, len(yb), k)]
                o = [c] * len(x) if name == "Set" else x if name == "Copy" else y + x
                exp = b"".join(int(v).to_bytes(k, "little", signed=True) for v in o).hex() or "-"
            elif name in ("Scale", "MatScale", "Increment", "Add", "AddScaled"):
                c = int(kvs.get("k", "1"))
                yb = unhex(kvs.get("y", "-")); y = [int.from_bytes(yb[i:i + k], "little", signed=True) for i in range(0, len(yb), k)]
                o = ([v * c for v in x] if name in ("Scale", "MatScale") else [v + c for v in x] if name == "Increment"
                     else [a + b for a, b in zip(x, y)] if name == "Add" else [a + b * c for a, b in zip(x, y)])
                exp = b"".join(int(v).to_bytes(k, "little", signed=True) for v in o).hex() or "-"
            elif name in ("SortIncreasing", "SortDecreasing", "Reverse", "ReverseInPlace"):
                o = sorted(x) if name == "SortIncreasing" else sorted(x, reverse=True) if name == "SortDecreasing" else x[::-1]
                exp = b"".join(int(v).to_bytes(k, "little", signed=True) for v in o).hex() or "-"
            else: return None
            return None if res == exp else "%s%s: expected %s, got %s" % (T, name, exp[:60], res[:60])
        dec = f64s if T == "D" else f32s
        eps = EPS64 if T == "D" else EPS32
        tiny = 5e-324 if T == "D" else 1.5e-45
        x = dec(unhex(kvs.get("x", "-")))
        y = dec(unhex(kvs["y"])) if "y" in kvs else None
        n = len(x)
        w = line.split()
        if len(w) < 2: return "no result"
        def scalar():
            return f64_of_bits(int(w[1], 16)) if T == "D" else f32_of_bits(int(w[1], 16))
        def vector():
            return dec(unhex(w[1]))
        finite = all(math.isfinite(v) for v in x)
        def close(got, exact, tol):
            if math.isnan(got): return False
            if math.isinf(got): return False
            return abs(Fraction(got) - exact) <= tol
        if name in ("Compare", "MatCompare"):
            tol = f64_of_bits(int(kvs["s"], 16)) if T == "D" else f32_of_bits(int(kvs["s"], 16))
            es = [self.cmpold_spec(T, a, b, tol) for a, b in zip(x, y)]
            if 1 in es[: (es.index(None) if None in es else len(es))] or (None not in es):
                e = 1 if 1 in es else 0
                return None if w[1] == str(e) else "%s%s: returned %s, the element-wise test gives %d" % (T, name, w[1], e)
            return None
        if name == "Sum":
            if not finite: return None
            ex = exact_sum(x); sa = exact_sum([abs(v) for v in x])
            if abs(ex) > (1.7e308 if T == "D" else 3.3e38): return None
            tol = Fraction(eps) * 3 * sa + Fraction(tiny)      # Kahan: |E| <= (2u + O(n u^2)) * sum|x_i|
            return None if close(scalar(), ex, tol) else "%sSum: |result - exact sum| exceeds the compensated-summation bound (n=%d, got %r, exact %.17g)" % (T, n, scalar(), float(ex))
        if name == "Dot":
            if not finite or not all(math.isfinite(v) for v in y): return None
            prods = [Fraction(a) * Fraction(b) for a, b in zip(x, y)]
            ex = sum(prods, Fraction(0)); sa = sum((abs(p) for p in prods), Fraction(0))
            if sa > Fraction(1.7e308 if T == "D" else 3.3e38) / 4: return None
            tol = Fraction(eps) * 2 * (n + 2) * sa + Fraction(tiny) * (n + 2) * (2 if T == "D" else 2 ** 30)
            return None if close(scalar(), ex, tol) else "%sDot: result %r not within n*eps of the exact dot product %.17g" % (T, scalar(), float(ex))
        if name in ("Max", "MatMax", "Min", "ArgMax", "ArgMin"):
            if any(math.isnan(v) for v in x): return None
            if name in ("Max", "MatMax"): return None if scalar() == max(x) else "%sMax: got %r, maximum is %r" % (T, scalar(), max(x))
            if name == "Min": return None if scalar() == min(x) else "%sMin: got %r, minimum is %r" % (T, scalar(), min(x))
            i = int(w[1])
            e = (x.index(max(x)) if name == "ArgMax" else x.index(min(x))) if x else 0
            return None if i == e else "%s%s: got index %d, first index attaining the extremum is %d" % (T, name, i, e)
        if name in ("SortIncreasing", "SortDecreasing"):
            if any(math.isnan(v) for v in x): return None
            got = vector()
            exp = sorted(x, reverse=(name == "SortDecreasing"))
            if len(got) != n or any(a != b for a, b in zip(got, exp)): return "%s%s: output is not the ordered arrangement of the input" % (T, name)
            if sorted(map(lambda v: math.copysign(1, v) if v == 0 else 2, got)) != sorted(map(lambda v: math.copysign(1, v) if v == 0 else 2, x)):
                return "%s%s: signed zeros not preserved as a multiset" % (T, name)
            return None
        if name in ("Reverse", "ReverseInPlace"):
            got = unhex(w[1]); k = 8 if T == "D" else 4; xb = unhex(kvs.get("x", "-"))
            exp = b"".join(xb[i:i + k] for i in range(len(xb) - k, -1, -k))
            return None if got == exp else "%sReverse: wrong output" % T
        if name == "Norm":
            if not finite: return None
            got = vector()
            ex = exact_sum(x); sa = exact_sum([abs(v) for v in x])
            if len(got) != n: return "%sNorm: wrong length" % T
            if n == 0: return None
            big = 1.7e308 if T == "D" else 3.3e38
            if sa > Fraction(big) / 2: return None
            if ex == 0 or abs(ex) <= Fraction(eps) * 4 * sa:
                if ex == 0 and all(v == 0 for v in x):
                    u = 1.0 / n
                    return None if all(abs(g - u) <= 2 * eps * u for g in got) else "%sNorm: zero vector not set to 1/n" % T
                return None                       # ill-conditioned sum: the rounded sum may or may not be zero
            for g, v in zip(got, x):
                e = Fraction(v) / ex
                if abs(e) > Fraction(big) or (e != 0 and abs(e) < Fraction(tiny) * 2 ** 30): continue
                rel = Fraction(eps) * 8 * (1 + sa / abs(ex))
                if not close(g, e, rel * abs(e) + Fraction(tiny)): return "%sNorm: element %r is not input/sum = %.17g" % (T, g, float(e))
            return None
        if name in ("LogSum", "Log2Sum"):
            if any(math.isnan(v) for v in x) or n == 0: return None
            got = scalar()
            if any(v == math.inf for v in x): return None if got == math.inf else "%s%s: +inf entry but result %r" % (T, name, got)
            m = max(x)
            if m == -math.inf: return None if got == -math.inf else "%s%s: all entries -inf but result %r" % (T, name, got)
            base = math.e if name == "LogSum" else 2.0
            s = math.fsum((math.exp((v - m)) if name == "LogSum" else 2.0 ** (v - m)) for v in x if v != -math.inf)
            ex = (math.log(s) if name == "LogSum" else math.log2(s)) + m
            tol = (n + 8) * 4 * eps * (1 + abs(ex)) + (n * 2e-22 if T == "F" else 0)
            return None if abs(got - ex) <= tol else "%s%s: got %r, log-sum-exp is %.17g (n=%d)" % (T, name, got, ex, n)
        if name in ("LogNorm", "Log2Norm"):
            if any(math.isnan(v) for v in x) or n == 0 or any(v == math.inf for v in x): return None
            m = max(x)
            if m == -math.inf: return None
            got = vector()
            f = math.exp if name == "LogNorm" else (lambda t: 2.0 ** t)
            e = [f(v - m) if v != -math.inf else 0.0 for v in x]
            s = math.fsum(e)
            tolr = (n + 16) * 8 * eps * (1 + (abs(m) + 90 if T == "F" else abs(m) + 750))
            for g, ev, v in zip(got, e, x):
                p = ev / s
                if abs(g - p) > tolr * max(p, 1e-300) + (1e-37 if T == "F" else 1e-300) + (2e-22 if T == "F" else 0):
                    return "%s%s: element %r, exact %.17g" % (T, name, g, p)
            if abs(math.fsum(got) - 1.0) > (n + 4) * 4 * eps: return "%s%s: output does not sum to 1" % (T, name)
            return None
        if name == "Entropy":
            if any(math.isnan(v) or math.isinf(v) for v in x): return None
            terms = [-v * math.log2(v) for v in x if v > 0]
            ex = math.fsum(terms); sa = math.fsum(abs(t) for t in terms)
            if sa > (1e300 if T == "D" else 1e37): return None
            tol = (n + 8) * 4 * eps * sa + (1e-300 if T == "D" else 1e-37)
            return None if abs(scalar() - ex) <= tol else "%sEntropy: got %r, -sum p log2 p = %.17g" % (T, scalar(), ex)
        if name == "RelEntropy":
            if any(math.isnan(v) or math.isinf(v) for v in x + y): return None
            if any(p > 0 and q == 0 for p, q in zip(x, y)): return None if scalar() == math.inf else "%sRelEntropy: q=0<p but result %r" % (T, scalar())
            if any(p > 0 and q < 0 for p, q in zip(x, y)): return None
            terms = [p * math.log2(p / q) for p, q in zip(x, y) if p > 0 and p / q > 0 and math.isfinite(p / q)]
            if len(terms) != sum(1 for p in x if p > 0): return None
            ex = math.fsum(terms); sa = math.fsum(abs(t) for t in terms)
            tol = (n + 8) * 8 * eps * (sa + math.fsum(p for p in x if p > 0)) + 1e-37
            return None if abs(scalar() - ex) <= tol else "%sRelEntropy: got %r, sum p log2(p/q) = %.17g" % (T, scalar(), ex)
        if name in ("CDF", "CDFInPlace"):
            if not finite or n == 0: return None
            got = vector(); acc = Fraction(0); sa = Fraction(0)
            if len(got) != n: return "%sCDF: wrong length" % T
            for i, (g, v) in enumerate(zip(got, x)):
                acc += Fraction(v); sa += abs(Fraction(v))
                if not close(g, acc, Fraction(eps) * 2 * (i + 2) * sa + Fraction(tiny)): return "%sCDF: element %d is %r, prefix sum is %.17g" % (T, i, g, float(acc))
            return None
        if name in ("Validate", "LogValidate", "Log2Validate") and len(w) > 2:
            if (w[1] == "ok") != (w[2] == "nomsg"): return "%s%s: status %s but error buffer is %s" % (T, name, w[1], "empty" if w[2] == "nomsg" else "non-empty")
        if name == "Validate":
            tol = f64_of_bits(int(kvs["s"], 16)) if T == "D" else f32_of_bits(int(kvs["s"], 16))
            st = w[1]
            if n == 0: return None if st == "ok" else "%sValidate: empty vector rejected" % T
            if any(math.isnan(v) for v in x):
                return None if st == "fail" else "NAN:%sValidate accepted a vector containing NaN" % T
            if any(v < 0 or v > 1 or math.isinf(v) for v in x): return None if st == "fail" else "%sValidate accepted an element outside [0,1]" % T
            d = abs(exact_sum(x) - 1)
            slack = Fraction(eps) * 2 * (n + 2) * 2
            if d > Fraction(tol) + slack: return None if st == "fail" else "%sValidate accepted |sum-1| = %.3g > tol %.3g" % (T, float(d), tol)
            if d < Fraction(tol) - slack: return None if st == "ok" else "%sValidate rejected a p-vector with |sum-1| = %.3g <= tol %.3g" % (T, float(d), tol)
            return None
        if name in ("LogValidate", "Log2Validate"):
            tol = f64_of_bits(int(kvs["s"], 16)) if T == "D" else f32_of_bits(int(kvs["s"], 16))
            st = w[1]
            if n == 0 or any(math.isnan(v) for v in x): return None
            if any(v > 1e-6 for v in x): return None if st == "fail" else "LOGV:%s%s accepted exp(element) > 1" % (T, name)
            d = abs(math.fsum((math.exp(v) if name == "LogValidate" else 2.0 ** v) for v in x) - 1)
            if d > tol * 1.01 + 1e-4: return None if st == "fail" else "LOGV:%s%s accepted |sum exp - 1| = %.3g > tol" % (T, name, d)
            if d < tol * 0.99 - 1e-4: return None if st == "ok" else "%s%s rejected a valid log-p vector (|sum exp - 1| = %.3g, tol %.3g)" % (T, name, d, tol)
            return None
        return None

    SPEC_OPS = ("Sum", "Dot", "Norm", "LogSum", "Log2Sum", "LogNorm", "Log2Norm", "Entropy", "RelEntropy", "CDF", "CDFInPlace")

    def lane_judge(self, f, xin, got, lib):
        """documented result class of one logf/expf lane; None if acceptable"""
        xf, gf, lf = f32_of_bits(xin), f32_of_bits(got), f32_of_bits(lib)
        if f == "logf":
            if xin & 0x80000000: return None if isnan32(got) else "logf(%08x) (negative / -0 / -inf) = %08x, expected NaN" % (xin, got)
            if (xin >> 23) == 0: return None if got == 0xff800000 else "logf(%08x) (zero / subnormal) = %08x, expected -inf" % (xin, got)
            if (xin & 0x7f800000) == 0x7f800000:
                if xin & 0x7fffff: return None if isnan32(got) else "logf(NaN %08x) = %08x" % (xin, got)
                return None if got == 0x7f800000 else "logf(+inf) = %08x" % got
        else:
            if isnan32(xin): return None if isnan32(got) else "expf(NaN %08x) = %08x" % (xin, got)
            if xf > f32_of_bits(0x42b0c0a5): return None if got == 0x7f800000 else "expf(%08x = %r) = %08x, expected +inf" % (xin, xf, got)
            if xf <= f32_of_bits(0xc2b0c0a5): return None if got == 0 else "expf(%08x = %r) = %08x, expected 0" % (xin, xf, got)
            if abs(lf) < 1.1754943508222875e-38 and got == 0: return None
        if isnan32(got) or isnan32(lib):
            return None if (isnan32(got) and isnan32(lib)) else "%s(%08x) = %08x but libm gives %08x" % (f, xin, got, lib)
        d = abs(ulpkey(got) - ulpkey(lib))
        return None if d <= 4 else "%s(%08x = %r) = %08x is %d ulp from libm's %08x" % (f, xin, xf, got, d, lib)

    def monitor(self, ctx, case, out):
        tally = self.__dict__.setdefault("_intr_tally", {})
        for op, l in zip(case["ops"], out):
            name, kvs = kv(op)
            if name in ("intr", "lane32"):
                t = tally.setdefault(kvs.get("f", "?"), [0, 0])
                t[0 if l.startswith("ok") else 1] += 1
            if l.startswith(("fault", "atexit")):
                if l.startswith("fault") and "signed_integer_overflow" in l and self.expected_fault(op): continue
                return Failure("fault", "implementation died: %s  [%s]" % (l[:200], op[:120]))
            if l == "unsupported": continue
            if not l.startswith("ok"):
                return Failure("monitor", "operation %r answered %r" % (op[:80], l))
            if name == "simd":
                spec = helper_spec(kvs["f"], kvs)
                got = l.split()[1]
                if spec is None: continue
                if isinstance(spec, tuple):
                    g = f32_of_bits(u32s(unhex(got))[0])
                    if spec[0] == "val":
                        if not (g == spec[1]): return Failure("monitor", "%s returned %r, scalar loop gives %r (a=%s)" % (kvs["f"], g, spec[1], kvs["a"]))
                    else:
                        fs = spec[1]; ex = exact_sum(fs); sa = exact_sum([abs(v) for v in fs])
                        if sa > Fraction(3.0e38): continue
                        if math.isnan(g) or math.isinf(g) or abs(Fraction(g) - ex) > Fraction(EPS32) * 2 * len(fs) * sa + Fraction(1.5e-45):
                            return Failure("monitor", "%s returned %r, exact sum of the lanes is %.9g (a=%s)" % (kvs["f"], g, float(ex), kvs["a"]))
                elif got != spec:
                    return Failure("monitor", "%s returned %s, scalar loop over the lanes gives %s (%s)" % (kvs["f"], got, spec, op[:200]))
            elif name in ("logf", "expf"):
                w = l.split()
                res = u32s(unhex(w[1])); ref = u32s(unhex(w[2].split("=")[1])); xin = u32s(unhex(kvs["x"]))
                for z in range(4):
                    m = self.lane_judge(name, xin[z], res[z], ref[z])
                    if m: return Failure("monitor", "esl_sse_%s lane %d: %s" % (name, z, m))
            elif name == "cmp":
                m = self.cmp_check(kvs, l)
                if m: return Failure("monitor", m)
            elif name in ("cmpold", "cvt"):
                m = self.compare_check(name, kvs, l)
                if m: return Failure("monitor", m + "  [%s]" % op[:160])
            elif name == "mat":
                m = self.mat_check(kvs, l)
                if m: return Failure("monitor", m + "  [%s]" % op[:120])
            elif name == "vec":
                try:
                    m = self.vec_check(kvs["op"], kvs, l)
                except (OverflowError, ValueError, ZeroDivisionError):
                    m = None
                if m:
                    if m.startswith(("NAN:", "LOGV:")): m = m.split(":", 1)[1]
                    return Failure("monitor", m + "  [%s]" % op[:120])
        return None

    def compare(self, ctx, case, impl_out, model_out):
        n = max(len(impl_out), len(model_out))
        for i in range(n):
            a = self.canonical(impl_out[i]) if i < len(impl_out) else "<missing>"
            b = self.canonical(model_out[i]) if i < len(model_out) else "<missing>"
            if a == b: continue
            if a == "unsupported" or a.startswith("ok sse="): continue      # instruction set absent on this CPU: theorems + translation only
            op = case["ops"][i] if i < len(case["ops"]) else ""
            name, kvs = kv(op) if op else ("", {})
            if name == "vec" and kvs.get("op", "  ")[1:] in ("Max", "Min", "MatMax") and kvs["op"][0] in "DF" and a.startswith("ok ") and b.startswith("ok "):
                za = a.split()[1].lstrip("0") in ("", "8" + "0" * (len(a.split()[1]) - 1)); zb = b.split()[1].lstrip("0") in ("", "8" + "0" * (len(b.split()[1]) - 1))
                if za and zb: continue                     # +0 vs -0: both are the extremum
            # a float routine whose result still meets its (tight) specification is not a divergence of the property
            if name == "vec" and kvs.get("op", "  ")[1:] in self.SPEC_OPS and a.startswith("ok") and kvs["op"][0] in "DF":
                try:
                    if self.vec_check(kvs["op"], kvs, a) is None and self._has_spec(kvs): continue
                except Exception:
                    pass
            return (i, a[:300], b[:300])
        return None

    def _has_spec(self, kvs):
        dec = f64s if kvs["op"][0] == "D" else f32s
        x = dec(unhex(kvs.get("x", "-")))
        return all(math.isfinite(v) or v == -math.inf for v in x)

    # ------------------------------------------------------------------------------------------ exhaustive tier
    def intrinsic_coverage(self, ctx):
        """every intrinsic applied by a translated function must have a hardware-validation op (`intr` / `lane32`) in this run's cases"""
        import random, simd2lean
        class Shim: pass
        sh = Shim(); sh.rng = random.Random(12345); sh.tier = ctx.tier
        have = set()
        for c in self.intr_cases(sh):
            for op in c["ops"]:
                have.add(kv(op)[1].get("f", ""))
        used = {}
        for i in getattr(self, "_infos", []):
            for f in i.get("intrinsics", []): used.setdefault(f, []).append(i["name"])
        for fn, fs in getattr(simd2lean, "USED_LANE", {}).items():
            for f in fs:
                if f.startswith("_mm"): used.setdefault(f, []).append(fn)
        self._intr_used = {f: sorted(set(v)) for f, v in sorted(used.items())}
        self._intr_have = sorted(have)
        return [Failure("obligation", "intrinsic %s (used by %s) has no hardware validation op in the quick tier: its entry of the semantics table is unchecked"
                        % (f, ", ".join(v[:4])), key="intr-coverage:" + f) for f, v in self._intr_used.items() if f not in have]

    def extra_checks(self, ctx):
        fails = list(self.intrinsic_coverage(ctx))
        if ctx.tier != "thorough" or not ctx.harness_exe:
            return fails
        import concurrent.futures
        nproc = os.cpu_count() or 4
        chunks = 64
        step = (1 << 32) // chunks
        res = {"logf": [], "expf": []}
        def run(f, lo):
            inp = "case 0\nsweep f=%s lo=%d hi=%d\nend\n" % (f, lo, lo + step)
            p = subprocess.run([ctx.harness_exe], input=inp, capture_output=True, text=True, timeout=3000)
            line = [l for l in p.stdout.split("\n") if l.startswith("ok n=")]
            return f, lo, (line[0] if line else "died rc=%d %s" % (p.returncode, p.stderr[-300:]))
        with concurrent.futures.ThreadPoolExecutor(max_workers=nproc) as ex:
            futs = [ex.submit(run, f, c * step) for f in ("logf", "expf") for c in range(chunks)]
            for fu in futs:
                f, lo, line = fu.result()
                res[f].append((lo, line))
        summary = {}
        for f in ("logf", "expf"):
            n = bad = 0; maxulp = 0; first = None
            for lo, line in res[f]:
                if not line.startswith("ok"):
                    fails.append(Failure("obligation", "exhaustive sweep of esl_sse_%s died: %s" % (f, line), key="sweep:" + f)); continue
                d = dict(x.split("=") for x in line.split()[1:])
                n += int(d["n"]); bad += int(d["bad"]); maxulp = max(maxulp, int(d["maxulp"]))
                if int(d["bad"]) and first is None: first = (d["first_bad"], d["code"])
            summary[f] = {"lanes_evaluated": n, "exhaustive": n == 4 * (1 << 32), "max_ulp_vs_libm": maxulp, "bad": bad}
            if bad:
                u = int(first[0], 16)
                case = {"name": "sweep-" + f, "ops": ["%s x=%s" % (f, hex_u32s([u, u, u, u]))]}
                fails.append(Failure("monitor", "esl_sse_%s: %d of 2^34 (pattern, lane) evaluations violate the documented result (first %s, class %s)" % (f, bad, first[0], first[1]), case=case))
        ctx.stats["exhaustive_logf_expf"] = summary
        return fails

    def extra_evidence(self, ctx):
        tally = getattr(self, "_intr_tally", {})
        used = getattr(self, "_intr_used", {})
        return {"input_distribution": getattr(self, "_dist", {}),
                "intrinsics_used_by_translated_functions": used,
                "intrinsics_validated_on_hardware_this_run": {f: {"ops_answered_ok_and_equal_to_the_table": tally.get(f, [0, 0])[0],
                                                                  "ops_unsupported_on_this_cpu": tally.get(f, [0, 0])[1]} for f in sorted(used)},
                "intrinsic_validation_ops_also_run": sorted(set(tally) - set(used)),
                "translated_helpers": [i["name"] for i in getattr(self, "_infos", [])],
                "support_only": "logf/expf accuracy vs libm is a measurement (quick: stratified sample; thorough: exhaustive 2^32 x 4 lanes), not a theorem"}


SPEC = C20()
